// verifchk decides structural necessary conditions of the Control properties by static analysis
// of /repo's current working tree (go/packages + go/ssa). It never executes repository code.
package main

import (
	"bufio"
	"encoding/json"
	"flag"
	"fmt"
	"go/types"
	"os"
	"path/filepath"
	"runtime/debug"
	"sort"
	"strconv"
	"strings"
	"time"

	"verifchk/internal/an"
	"verifchk/internal/inl"
	"verifchk/internal/load"
	"verifchk/internal/rules"
)

type known struct {
	prop, key, what string
}

func readKnown(path string) ([]known, error) {
	f, err := os.Open(path)
	if err != nil {
		if os.IsNotExist(err) {
			return nil, nil
		}
		return nil, err
	}
	defer f.Close()
	var out []known
	sc := bufio.NewScanner(f)
	for sc.Scan() {
		line := strings.TrimSpace(sc.Text())
		if !strings.HasPrefix(line, "known:") {
			continue // comments and "fixed:" lines suppress nothing
		}
		fs := strings.Fields(strings.TrimPrefix(line, "known:"))
		var k known
		rest := []string{}
		for _, f := range fs {
			switch {
			case strings.HasPrefix(f, "property=") && k.prop == "":
				k.prop = strings.TrimPrefix(f, "property=")
			case strings.HasPrefix(f, "key=") && k.key == "":
				k.key = strings.TrimPrefix(f, "key=")
			default:
				rest = append(rest, f)
			}
		}
		k.what = strings.Join(rest, " ")
		if k.prop != "" && k.key != "" {
			out = append(out, k)
		}
	}
	return out, sc.Err()
}

func main() {
	repo := flag.String("repo", "/repo", "repository root")
	prop := flag.String("prop", "", "property id (C01..C20)")
	tier := flag.String("tier", "quick", "quick|thorough")
	evdir := flag.String("evidence", "/verif/evidence", "evidence directory")
	knownPath := flag.String("known", "/verif/KNOWN_FINDINGS.txt", "known findings file")
	dump := flag.Bool("dump", false, "print all obligations")
	listFuncs := flag.Bool("list-funcs", false, "print the keys of all functions declared in the module (to regenerate internal/inl/known_funcs.txt) and exit")
	noInline := flag.Bool("no-expand", false, "do not expand unknown helper functions before the analysis")
	showNorm := flag.Bool("show-expansion", false, "print the notes of the helper expansion")
	flag.Parse()
	tierSet := false
	flag.Visit(func(f *flag.Flag) {
		if f.Name == "tier" {
			tierSet = true
		}
	})
	if t := os.Getenv("VERIF_TIER"); !tierSet && (t == "quick" || t == "thorough") {
		*tier = t
	}
	seed := 0
	if s, err := strconv.Atoi(os.Getenv("VERIF_SEED")); err == nil {
		seed = s
	}
	var props []*rules.Prop
	if *prop == "all" {
		ids := make([]string, 0, len(rules.Registry))
		for id := range rules.Registry {
			ids = append(ids, id)
		}
		sort.Strings(ids)
		for _, id := range ids {
			props = append(props, rules.Registry[id])
		}
	} else {
		p, ok := rules.Registry[*prop]
		if !ok {
			fmt.Fprintf(os.Stderr, "unknown property %q\n", *prop)
			os.Exit(2)
		}
		props = []*rules.Prop{p}
	}
	start := time.Now()
	os.MkdirAll(*evdir, 0o755)

	failAll := func(reason string) {
		for _, p := range props {
			replay := filepath.Join(*evdir, p.ID+".replay.txt")
			os.WriteFile(replay, []byte("analysis incomplete: "+reason+"\n"), 0o644)
			writeEvidence(*evdir, p.ID, *tier, seed, p, nil, 1, time.Since(start), "analysis incomplete: "+reason)
			fmt.Printf("VIOLATION property=%s replay=%s\n  analysis incomplete: %s\n", p.ID, replay, reason)
		}
		os.Exit(1)
	}

	if *listFuncs {
		p0, err := load.LoadOverlay(*repo, "", nil)
		if err != nil {
			fmt.Fprintln(os.Stderr, err)
			os.Exit(2)
		}
		var keys []string
		for _, pk := range p0.Init {
			if pk.TypesInfo == nil {
				continue
			}
			for id, o := range pk.TypesInfo.Defs {
				if f, ok := o.(*types.Func); ok && id != nil {
					keys = append(keys, inl.FuncKey(f))
				}
			}
		}
		sort.Strings(keys)
		for _, k := range keys {
			fmt.Println(k)
		}
		return
	}
	prog, err := loadNormalised(*repo, *noInline)
	if err != nil {
		failAll(err.Error())
	}
	if *showNorm {
		for _, n := range prog.Normalised {
			fmt.Println("expansion:", n)
		}
	}
	if len(prog.TypeErrors) > 0 {
		failAll("type errors in module packages: " + strings.Join(prog.TypeErrors[:min(3, len(prog.TypeErrors))], "; "))
	}
	if len(prog.Init) < 60 {
		failAll(fmt.Sprintf("only %d module packages loaded (floor 60)", len(prog.Init)))
	}
	kn, err := readKnown(*knownPath)
	if err != nil {
		failAll("cannot read known findings: " + err.Error())
	}
	loadTime := time.Since(start)
	exit := 0
	for _, p := range props {
		pstart := time.Now()
		if runProp(prog, p, *tier, seed, *evdir, kn, *dump, loadTime, pstart) {
			exit = 1
		}
	}
	os.Exit(exit)
}

// loadNormalised loads the module, expands helper functions unknown to the rules (internal/inl) through
// source overlays - at most three rounds - and builds SSA for the result. If an expansion does not
// type-check it is abandoned and the unmodified source is analysed.
func loadNormalised(repo string, noExpand bool) (*load.Program, error) {
	p, err := load.LoadOverlay(repo, "", nil)
	if err != nil || len(p.TypeErrors) > 0 || noExpand {
		if err == nil && len(p.TypeErrors) == 0 {
			p.BuildSSA()
		}
		return p, err
	}
	orig := p
	overlay := map[string][]byte{}
	var notes []string
	read := func(path string) ([]byte, error) {
		if b, ok := overlay[path]; ok {
			return b, nil
		}
		return os.ReadFile(path)
	}
	for round := 1; round <= 4; round++ {
		ov, ns := inl.Round(p.Init, p.Fset, read, round)
		notes = append(notes, ns...)
		if len(ov) == 0 {
			break
		}
		for k, v := range ov {
			overlay[k] = v
		}
		np, err := load.LoadOverlay(repo, "", overlay)
		if err != nil || len(np.TypeErrors) > 0 {
			why := ""
			if err != nil {
				why = err.Error()
			} else {
				why = np.TypeErrors[0]
			}
			if dir := os.Getenv("VERIF_EXPANSION_DEBUG"); dir != "" {
				for k, v := range overlay {
					os.WriteFile(filepath.Join(dir, strings.ReplaceAll(strings.TrimPrefix(k, "/"), "/", "_")), v, 0o644)
				}
			}
			orig.Normalised = append(notes, "helper expansion abandoned (the rewritten source does not type-check: "+why+"); the unmodified source is analysed")
			orig.BuildSSA()
			return orig, nil
		}
		p = np
	}
	p.Normalised = notes
	if dir := os.Getenv("VERIF_EXPANSION_DEBUG"); dir != "" {
		for k, v := range overlay {
			os.WriteFile(filepath.Join(dir, strings.ReplaceAll(strings.TrimPrefix(k, "/"), "/", "_")), v, 0o644)
		}
	}
	p.BuildSSA()
	return p, nil
}

// runProp runs one property's rules on the loaded program; returns true if it found a violation.
func runProp(prog *load.Program, p *rules.Prop, tier string, seed int, evdir string, kn []known, dump bool, loadTime time.Duration, pstart time.Time) bool {
	replay := filepath.Join(evdir, p.ID+".replay.txt")
	c := an.NewCtx(prog, tier)
	func() {
		defer func() {
			if r := recover(); r != nil {
				c.Rule("internal", "checker panic", 0)
				c.Ob("panic", 0, false, "rule panicked: %v\n%s", r, debug.Stack())
			}
		}()
		p.Run(c)
	}()
	c.Finish()

	knownBy := map[string]known{}
	for _, k := range kn {
		if k.prop == p.ID {
			knownBy[k.key] = k
		}
	}
	var viol, knownHits []*an.Obligation
	for _, o := range c.Obs {
		if o.OK {
			continue
		}
		if _, ok := knownBy[o.Key()]; ok {
			o.Known = true
			knownHits = append(knownHits, o)
		} else {
			viol = append(viol, o)
		}
	}
	if dump {
		for _, o := range c.Obs {
			st := "ok  "
			if !o.OK {
				st = "FAIL"
			}
			fmt.Printf("%s %-6s %-70s %s  %s\n", st, o.Rule, o.Construct, o.Pos, o.Msg)
		}
	}
	for _, o := range knownHits {
		fmt.Printf("KNOWN-FINDING: property=%s %s %s: %s [%s]\n", p.ID, o.Rule, o.Pos, o.Msg, o.Key())
	}
	wall := loadTime + time.Since(pstart)
	writeEvidence(evdir, p.ID, tier, seed, p, c, len(viol), wall, "")
	disc := 0
	for _, o := range c.Obs {
		if o.OK {
			disc++
		}
	}
	fmt.Printf("%s %s: %d rules, %d obligations, %d discharged, %d known findings, %d violations, %d functions analysed, %.1fs\n",
		p.ID, tier, len(c.Rules), len(c.Obs), disc, len(knownHits), len(viol), len(c.FuncsAnalysed), wall.Seconds())
	if len(viol) > 0 {
		var sb strings.Builder
		for _, o := range viol {
			fmt.Fprintf(&sb, "%s %s %s\n    %s\n    key=%s\n", o.Rule, o.Pos, o.Construct, o.Msg, o.Key())
		}
		os.WriteFile(replay, []byte(sb.String()), 0o644)
		fmt.Printf("VIOLATION property=%s replay=%s\n", p.ID, replay)
		for _, o := range viol {
			fmt.Printf("  %s %s %s: %s\n", o.Rule, o.Pos, o.Construct, o.Msg)
		}
		return true
	}
	os.Remove(replay)
	return false
}

func writeEvidence(dir, prop, tier string, seed int, p *rules.Prop, c *an.Ctx, viol int, wall time.Duration, note string) {
	cov := map[string]any{
		"explanation": p.Explanation,
		"checker_cmd": "bin/verifchk -prop " + prop + " -tier " + tier,
	}
	ev := map[string]any{
		"property_id": prop, "tier": tier, "seed": seed, "level": "other",
		"coverage": cov, "wall_s": wall.Seconds(), "violations": viol,
	}
	if note != "" {
		cov["explanation"] = p.Explanation + " [" + note + "]"
	}
	if c != nil {
		disc, kn := 0, 0
		var samples []any
		for _, o := range c.Obs {
			if o.OK {
				disc++
			}
			if o.Known {
				kn++
			}
		}
		// samples: all failing ones, plus up to 40 discharged spread over rules
		perRule := map[string]int{}
		for _, o := range c.Obs {
			if !o.OK || perRule[o.Rule] < 4 {
				perRule[o.Rule]++
				samples = append(samples, o)
			}
		}
		fns := make([]string, 0, len(c.FuncsAnalysed))
		for f := range c.FuncsAnalysed {
			fns = append(fns, c.RelName(f))
		}
		sort.Strings(fns)
		cov["obligations"] = len(c.Obs)
		cov["discharged"] = disc
		cov["known_findings"] = kn
		cov["rules"] = c.RuleList()
		cov["samples"] = samples
		cov["functions_analysed"] = len(fns)
		cov["functions"] = fns
		cov["packages_loaded"] = c.P.TotalPkgs
		cov["module_packages"] = len(c.P.Init)
		cov["exhaustive"] = false
		cov["allow_list"] = c.Allow
		if len(c.P.Normalised) > 0 {
			cov["helper_expansion"] = c.P.Normalised
		}
		ev["assumptions"] = append([]string{
			"go/packages + go/types + go/ssa (x/tools v0.29.0) model the program the compiler builds (default GOOS/GOARCH, no build tags)",
			"rules decide structural necessary conditions only; behaviour over schedules/histories/values is not decided",
		}, c.Assumptions...)
	}
	b, _ := json.MarshalIndent(ev, "", " ")
	os.WriteFile(filepath.Join(dir, prop+".json"), append(b, '\n'), 0o644)
}

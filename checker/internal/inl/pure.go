package inl

import (
	"go/ast"
	"go/token"
	"go/types"
)

// Pure, total helpers. A helper whose body only compares and combines its (basic-typed) parameters
// with constants cannot fail, block, panic or observe anything but its arguments. A call to it may
// therefore be evaluated earlier than written (before the statement containing it) when its
// arguments are constants and local variables nothing else can write in between: the variables'
// addresses are never taken and no function literal refers to them. This lets the expansion reach
// predicate helpers used inside `a && h(x)` conditions, where the ordinary expansion (which keeps
// the evaluation order) cannot go.

func basicType(t types.Type) bool {
	b, ok := t.Underlying().(*types.Basic)
	return ok && b.Kind() != types.UnsafePointer && b.Kind() != types.Invalid
}

var pureBinOps = map[token.Token]bool{
	token.EQL: true, token.NEQ: true, token.LSS: true, token.LEQ: true, token.GTR: true, token.GEQ: true,
	token.LAND: true, token.LOR: true, token.ADD: true, token.SUB: true, token.MUL: true,
	token.AND: true, token.OR: true, token.XOR: true, token.AND_NOT: true,
}

// pureExpr: e evaluates without effect and cannot panic; local(obj) tells which variables it may read.
func pureExpr(e ast.Expr, info *types.Info, local func(*types.Var) bool) bool {
	switch t := e.(type) {
	case *ast.BasicLit:
		return true
	case *ast.ParenExpr:
		return pureExpr(t.X, info, local)
	case *ast.Ident:
		switch o := info.Uses[t].(type) {
		case *types.Const:
			return true
		case *types.Var:
			return !o.IsField() && basicType(o.Type()) && local(o)
		case *types.Nil:
			return false
		}
		return false
	case *ast.SelectorExpr:
		// a package-qualified constant
		if id, ok := t.X.(*ast.Ident); ok {
			if _, isPkg := info.Uses[id].(*types.PkgName); isPkg {
				_, isC := info.Uses[t.Sel].(*types.Const)
				return isC
			}
		}
		return false
	case *ast.UnaryExpr:
		if t.Op == token.NOT || t.Op == token.SUB || t.Op == token.ADD || t.Op == token.XOR {
			return pureExpr(t.X, info, local)
		}
		return false
	case *ast.BinaryExpr:
		if !pureBinOps[t.Op] {
			return false
		}
		if tv, ok := info.Types[t.X]; !ok || !basicType(tv.Type) {
			return false
		}
		return pureExpr(t.X, info, local) && pureExpr(t.Y, info, local)
	case *ast.CallExpr:
		// a conversion between basic types
		if tv, ok := info.Types[t.Fun]; ok && tv.IsType() && len(t.Args) == 1 && basicType(tv.Type) {
			if av, ok := info.Types[t.Args[0]]; ok && basicType(av.Type) {
				return pureExpr(t.Args[0], info, local)
			}
		}
		return false
	}
	return false
}

// pureTotal decides (and caches) whether h is a pure, total helper.
func (x *expander) pureTotal(h *helper) bool {
	if v, ok := x.pure[h]; ok {
		return v
	}
	v := pureTotalDecl(h.decl, h.fn, h.pkg.TypesInfo)
	x.pure[h] = v
	return v
}

func pureTotalDecl(fd *ast.FuncDecl, fn *types.Func, info *types.Info) bool {
	sig := fn.Type().(*types.Signature)
	if sig.Recv() != nil || sig.TypeParams() != nil || sig.Variadic() || sig.Results().Len() != 1 || fd.Body == nil {
		return false
	}
	for i := 0; i < sig.Params().Len(); i++ {
		if !basicType(sig.Params().At(i).Type()) {
			return false
		}
	}
	if !basicType(sig.Results().At(0).Type()) {
		return false
	}
	local := func(v *types.Var) bool { return v.Pos() >= fd.Pos() && v.Pos() < fd.End() }
	var stmtOK func(s ast.Stmt) bool
	listOK := func(l []ast.Stmt) bool {
		for _, s := range l {
			if !stmtOK(s) {
				return false
			}
		}
		return true
	}
	stmtOK = func(s ast.Stmt) bool {
		switch t := s.(type) {
		case nil:
			return true
		case *ast.EmptyStmt:
			return true
		case *ast.BlockStmt:
			return listOK(t.List)
		case *ast.ReturnStmt:
			for _, r := range t.Results {
				if !pureExpr(r, info, local) {
					return false
				}
			}
			return true
		case *ast.IfStmt:
			return stmtOK(t.Init) && pureExpr(t.Cond, info, local) && stmtOK(t.Body) && stmtOK(t.Else)
		case *ast.SwitchStmt:
			if !stmtOK(t.Init) || (t.Tag != nil && !pureExpr(t.Tag, info, local)) {
				return false
			}
			for _, c := range t.Body.List {
				cc := c.(*ast.CaseClause)
				for _, e := range cc.List {
					if !pureExpr(e, info, local) {
						return false
					}
				}
				if !listOK(cc.Body) {
					return false
				}
			}
			return true
		case *ast.BranchStmt:
			return t.Label == nil && (t.Tok == token.FALLTHROUGH || t.Tok == token.BREAK)
		case *ast.AssignStmt:
			if t.Tok != token.DEFINE && t.Tok != token.ASSIGN {
				return false
			}
			for _, l := range t.Lhs {
				id, ok := l.(*ast.Ident)
				if !ok {
					return false
				}
				if id.Name == "_" {
					continue
				}
				var o types.Object = info.Defs[id]
				if o == nil {
					o = info.Uses[id]
				}
				v, isV := o.(*types.Var)
				if !isV || !local(v) || !basicType(v.Type()) {
					return false
				}
			}
			for _, r := range t.Rhs {
				if !pureExpr(r, info, local) {
					return false
				}
			}
			return true
		case *ast.DeclStmt:
			gd, ok := t.Decl.(*ast.GenDecl)
			if !ok || gd.Tok != token.VAR {
				return ok && gd.Tok == token.CONST
			}
			for _, sp := range gd.Specs {
				vs := sp.(*ast.ValueSpec)
				for _, n := range vs.Names {
					if v, isV := info.Defs[n].(*types.Var); isV && !basicType(v.Type()) {
						return false
					}
				}
				for _, e := range vs.Values {
					if !pureExpr(e, info, local) {
						return false
					}
				}
			}
			return true
		}
		return false
	}
	return listOK(fd.Body.List)
}

// stableArgs: every argument of call is a pure expression over constants and local variables of the
// enclosing function that only plain assignments of that function can change (address never taken,
// not mentioned in a function literal, no method called on it).
func (x *expander) stableArgs(call *ast.CallExpr) bool {
	if x.enclosing == nil || x.enclosing.Body == nil {
		return false
	}
	if x.unstable == nil || x.unstableFor != x.enclosing {
		x.unstableFor = x.enclosing
		x.unstable = map[*types.Var]bool{}
		mark := func(e ast.Expr) {
			if id, ok := ast.Unparen(e).(*ast.Ident); ok {
				if v, isV := x.info.Uses[id].(*types.Var); isV {
					x.unstable[v] = true
				}
			}
		}
		depth := 0
		var stack []ast.Node
		ast.Inspect(x.enclosing.Body, func(n ast.Node) bool {
			if n == nil {
				if _, ok := stack[len(stack)-1].(*ast.FuncLit); ok {
					depth--
				}
				stack = stack[:len(stack)-1]
				return true
			}
			stack = append(stack, n)
			switch t := n.(type) {
			case *ast.FuncLit:
				depth++
			case *ast.UnaryExpr:
				if t.Op == token.AND {
					mark(t.X)
				}
			case *ast.SelectorExpr:
				// v.M() with a pointer receiver takes v's address implicitly
				if sel := x.info.Selections[t]; sel != nil && sel.Kind() != types.FieldVal {
					if f, isF := sel.Obj().(*types.Func); !isF {
						mark(t.X)
					} else if r := f.Type().(*types.Signature).Recv(); r == nil {
						mark(t.X)
					} else if _, isPtr := r.Type().(*types.Pointer); isPtr {
						mark(t.X)
					}
				}
			case *ast.Ident:
				if depth > 0 {
					if v, isV := x.info.Uses[t].(*types.Var); isV {
						x.unstable[v] = true
					}
				}
			}
			return true
		})
	}
	enc := x.enclosing
	local := func(v *types.Var) bool {
		return v.Pos() >= enc.Pos() && v.Pos() < enc.End() && !x.unstable[v]
	}
	for _, a := range call.Args {
		if !pureExpr(a, x.info, local) {
			return false
		}
	}
	return true
}

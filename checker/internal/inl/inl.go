// Package inl normalises the program before the rules look at it: calls to helper functions that
// did not exist when the rules were written (unexported, same package, not in known_funcs.txt) are
// expanded in place, so that "extract a block into a helper" - the most common behaviour-preserving
// edit - leaves the shape the rules reason about unchanged. The expansion is a source-to-source
// rewrite handed to go/packages as an overlay; /repo itself is never modified and nothing is run.
//
// Scheme (semantics preserving for the accepted shapes, everything else is left alone):
//
//	var r1 T1; var r2 T2                      // results, fresh names
//	{
//	    var recv RT = x; var p1 P1 = a1; ...   // receiver and arguments, evaluated once, in order
//	    L: for {
//	        <helper body; `return e1, e2` becomes `{ r1, r2 = e1, e2; break L }`>
//	        break L
//	    }
//	    <top-level deferred calls>
//	}
//	<statement with the call replaced by r1 / r1, r2>
//
// The call must be the first call evaluated by its statement (so hoisting it does not reorder
// effects), unconditional, and its statement must sit directly in a statement list.
// `go helper(a)` / `defer helper(a)` and helper function values are eta-expanded into literals that
// call the helper; the next round expands that call. //line directives keep reported positions on
// the original source lines.
package inl

import (
	"bytes"
	_ "embed"
	"fmt"
	"go/ast"
	"go/token"
	"go/types"
	"sort"
	"strings"

	"golang.org/x/tools/go/packages"
)

//go:embed known_funcs.txt
var knownText string

var known map[string]bool

// Known returns the keys of the functions known to the rules. Besides the exact keys it contains, for every known
// function, the key "pkgpath#Name": a function that merely moved between the plain-function and method forms (or to
// another receiver type) keeps its bare name and stays an anchor instead of being expanded away.
func Known() map[string]bool {
	if known == nil {
		known = map[string]bool{}
		for _, l := range strings.Split(knownText, "\n") {
			l = strings.TrimSpace(l)
			if l != "" && !strings.HasPrefix(l, "#") {
				known[l] = true
				if i := strings.LastIndex(l, "."); i >= 0 {
					pkgAndRecv := l[:i]
					name := l[i+1:]
					pkg := pkgAndRecv
					// strip a receiver component: the package path ends at the last '/'-segment's first '.'
					if j := strings.LastIndex(pkgAndRecv, "/"); j >= 0 {
						if k := strings.Index(pkgAndRecv[j:], "."); k >= 0 {
							pkg = pkgAndRecv[:j+k]
						}
					} else if k := strings.Index(pkgAndRecv, "."); k >= 0 {
						pkg = pkgAndRecv[:k]
					}
					known[pkg+"#"+name] = true
				}
			}
		}
	}
	return known
}

func knownFunc(kn map[string]bool, f *types.Func) bool {
	if kn[FuncKey(f)] {
		return true
	}
	return f.Pkg() != nil && kn[f.Pkg().Path()+"#"+f.Name()]
}

// FuncKey is the stable name of a declared function: pkgpath.Name or pkgpath.Recv.Name.
func FuncKey(f *types.Func) string {
	if f.Pkg() == nil {
		return f.Name()
	}
	sig, _ := f.Type().(*types.Signature)
	if sig != nil && sig.Recv() != nil {
		t := sig.Recv().Type()
		if p, ok := t.(*types.Pointer); ok {
			t = p.Elem()
		}
		if n, ok := t.(*types.Named); ok {
			return f.Pkg().Path() + "." + n.Obj().Name() + "." + f.Name()
		}
	}
	return f.Pkg().Path() + "." + f.Name()
}

// ExpandedSuffix marks the declaration of a helper all of whose uses were expanded in place.
const ExpandedSuffix = "_inlexpanded"

type helper struct {
	fn   *types.Func
	decl *ast.FuncDecl
	pkg  *packages.Package
	file *ast.File
	src  []byte
	uses int // identifiers referring to fn in the package
	done int // of which expanded this round
}

type edit struct {
	start, end int
	text       string
}

type fileEdits struct {
	path    string
	src     []byte
	edits   []edit
	imports map[string]string // path -> local name
	added   []string          // import lines to add
	file    *ast.File
	dot     bool
}

// Round performs one round of expansion on the loaded module packages. It returns the files to
// overlay (absolute path -> content), and human readable notes. isModule tells which packages
// belong to the analysed module. seq makes generated names unique across rounds.
func Round(pkgs []*packages.Package, fset *token.FileSet, readFile func(string) ([]byte, error), round int) (map[string][]byte, []string) {
	kn := Known()
	var notes []string
	helpers := map[*types.Func]*helper{}
	pureCache = map[*helper]bool{}
	srcOf := map[string][]byte{}
	getSrc := func(path string) []byte {
		if b, ok := srcOf[path]; ok {
			return b
		}
		b, err := readFile(path)
		if err != nil {
			b = nil
		}
		srcOf[path] = b
		return b
	}
	off := func(p token.Pos) int { return fset.PositionFor(p, false).Offset }

	// 1. helpers
	for _, pk := range pkgs {
		if pk.TypesInfo == nil {
			continue
		}
		for _, f := range pk.Syntax {
			path := fset.PositionFor(f.Pos(), false).Filename
			if strings.HasSuffix(path, "_test.go") || strings.HasSuffix(path, ".pb.go") {
				continue
			}
			for _, d := range f.Decls {
				fd, ok := d.(*ast.FuncDecl)
				if !ok || fd.Body == nil {
					continue
				}
				obj, _ := pk.TypesInfo.Defs[fd.Name].(*types.Func)
				if obj == nil || knownFunc(kn, obj) || ast.IsExported(fd.Name.Name) || fd.Name.Name == "init" || fd.Name.Name == "main" {
					continue
				}
				if why := ineligible(fd, obj, pk.TypesInfo); why != "" {
					notes = append(notes, fmt.Sprintf("helper %s not expanded: %s", FuncKey(obj), why))
					continue
				}
				src := getSrc(path)
				if src == nil {
					continue
				}
				helpers[obj] = &helper{fn: obj, decl: fd, pkg: pk, file: f, src: src}
			}
		}
	}
	if len(helpers) == 0 {
		return nil, notes
	}
	// uses
	for _, pk := range pkgs {
		if pk.TypesInfo == nil {
			continue
		}
		for id, o := range pk.TypesInfo.Uses {
			if f, ok := o.(*types.Func); ok {
				if h := helpers[f.Origin()]; h != nil {
					_ = id
					h.uses++
				}
			}
		}
	}

	files := map[string]*fileEdits{}
	getFile := func(pk *packages.Package, f *ast.File) *fileEdits {
		path := fset.PositionFor(f.Pos(), false).Filename
		if fe, ok := files[path]; ok {
			return fe
		}
		fe := &fileEdits{path: path, src: getSrc(path), imports: map[string]string{}, file: f}
		for _, is := range f.Imports {
			var pn *types.PkgName
			if is.Name != nil {
				pn, _ = pk.TypesInfo.Defs[is.Name].(*types.PkgName)
				if is.Name.Name == "." {
					fe.dot = true
				}
			} else {
				pn, _ = pk.TypesInfo.Implicits[is].(*types.PkgName)
			}
			if pn != nil && pn.Name() != "_" && pn.Name() != "." {
				fe.imports[pn.Imported().Path()] = pn.Name()
			}
		}
		files[path] = fe
		return fe
	}

	seq := 0
	// 2. sites
	for _, pk := range pkgs {
		if pk.TypesInfo == nil {
			continue
		}
		info := pk.TypesInfo
		for _, f := range pk.Syntax {
			path := fset.PositionFor(f.Pos(), false).Filename
			if strings.HasSuffix(path, "_test.go") || strings.HasSuffix(path, ".pb.go") {
				continue
			}
			for _, d := range f.Decls {
				fd, ok := d.(*ast.FuncDecl)
				if !ok || fd.Body == nil {
					continue
				}
				if pureCache == nil {
					pureCache = map[*helper]bool{}
				}
				if obj, _ := info.Defs[fd.Name].(*types.Func); obj != nil && helpers[obj] != nil {
					continue // expanded after it has been expanded into its callers
				}
				fe := getFile(pk, f)
				if fe.src == nil || fe.dot {
					continue
				}
				x := &expander{fset: fset, pk: pk, info: info, fe: fe, helpers: helpers, off: off, round: round, seq: &seq, notes: &notes, enclosing: fd, pure: pureCache}
				x.walkBlock(fd.Body)
			}
		}
	}
	// 3. drop helper declarations that are no longer referenced
	for _, h := range helpers {
		if h.uses > 0 && h.done == h.uses {
			// the declaration stays (its imports stay used) under a name nothing refers to; the analysis skips functions
			// carrying this suffix
			fe := getFile(h.pkg, h.file)
			s, e := off(h.decl.Name.Pos()), off(h.decl.Name.End())
			fe.edits = append(fe.edits, edit{s, e, h.decl.Name.Name + ExpandedSuffix})
		}
	}
	out := map[string][]byte{}
	for path, fe := range files {
		if len(fe.edits) == 0 {
			continue
		}
		sort.SliceStable(fe.edits, func(i, j int) bool {
			if fe.edits[i].start != fe.edits[j].start {
				return fe.edits[i].start < fe.edits[j].start
			}
			return fe.edits[i].end < fe.edits[j].end
		})
		overlap := false
		at := 0
		var nb bytes.Buffer
		for _, e := range fe.edits {
			if e.start < at || e.end < e.start || e.end > len(fe.src) {
				overlap = true
				break
			}
			nb.Write(fe.src[at:e.start])
			nb.WriteString(e.text)
			at = e.end
		}
		if overlap {
			notes = append(notes, fmt.Sprintf("expansion abandoned for %s: overlapping edits", shortPath(path)))
			continue
		}
		nb.Write(fe.src[at:])
		b := nb.Bytes()
		if len(fe.added) > 0 {
			// new import declarations right after the package clause (which precedes every edit)
			pend := off(fe.file.Name.End())
			adj := fset.PositionFor(fe.file.Name.End(), true)
			eol := bytes.IndexByte(b[pend:], '\n')
			if eol < 0 {
				eol = len(b) - pend
			}
			ins := "\n" + strings.Join(fe.added, "\n") + fmt.Sprintf("\n//line %s:%d", adj.Filename, adj.Line+1)
			pos := pend + eol
			b = append(b[:pos:pos], append([]byte(ins), b[pos:]...)...)
		}
		out[path] = b
	}
	return out, notes
}

func ineligible(fd *ast.FuncDecl, obj *types.Func, info *types.Info) string {
	sig := obj.Type().(*types.Signature)
	// generic helpers are expanded only where they are instantiated with the caller's own type parameters of the same
	// names (the usual result of extracting code from a generic function): decided per call site
	if sig.Variadic() {
		return "variadic"
	}
	why := ""
	depth := 0
	var stack []ast.Node
	ast.Inspect(fd.Body, func(n ast.Node) bool {
		if n == nil {
			top := stack[len(stack)-1]
			stack = stack[:len(stack)-1]
			if _, ok := top.(*ast.FuncLit); ok {
				depth--
			}
			return true
		}
		stack = append(stack, n)
		switch x := n.(type) {
		case *ast.FuncLit:
			depth++
		case *ast.DeferStmt:
			if depth == 0 {
				// only as a direct statement of the body
				direct := false
				for _, s := range fd.Body.List {
					if s == ast.Stmt(x) {
						direct = true
					}
				}
				if !direct {
					why = "defer inside a nested block"
				} else if len(x.Call.Args) != 0 {
					why = "deferred call with arguments"
				} else if _, isLit := x.Call.Fun.(*ast.FuncLit); isLit {
					why = "deferred function literal"
				}
			}
		case *ast.Ident:
			if x.Name == "recover" {
				if _, ok := info.Uses[x].(*types.Builtin); ok {
					why = "uses recover"
				}
			}
			if o, ok := info.Uses[x].(*types.Func); ok && o == obj {
				why = "recursive"
			}
		case *ast.BranchStmt:
			if x.Tok == token.GOTO {
				why = "goto"
			}
		}
		return true
	})
	return why
}

var pureCache map[*helper]bool

type expander struct {
	fset        *token.FileSet
	pk          *packages.Package
	info        *types.Info
	fe          *fileEdits
	helpers     map[*types.Func]*helper
	off         func(token.Pos) int
	round       int
	seq         *int
	notes       *[]string
	enclosing   *ast.FuncDecl
	pure        map[*helper]bool
	unstable    map[*types.Var]bool
	unstableFor *ast.FuncDecl
	instSig     map[*ast.CallExpr]*types.Signature
	instArgs    map[*ast.CallExpr]*types.TypeList
}

func (x *expander) fresh(base string) string {
	return fmt.Sprintf("%s_inl%d_%d", base, x.round, *x.seq)
}

// walkBlock visits every statement list below n.
func (x *expander) walkBlock(n ast.Node) {
	ast.Inspect(n, func(m ast.Node) bool {
		switch b := m.(type) {
		case *ast.BlockStmt:
			x.list(b.List)
		case *ast.CaseClause:
			x.list(b.Body)
		case *ast.CommClause:
			x.list(b.Body)
		}
		return true
	})
	// function values of helpers anywhere in the body (not in call position)
	x.funcValues(n)
}

func (x *expander) list(stmts []ast.Stmt) {
	for _, s := range stmts {
		x.stmt(s)
	}
}

// headerExprs returns the expressions a statement evaluates itself (not its nested bodies), in
// lexical order, or nil if the statement kind is not supported.
func headerExprs(s ast.Stmt) (exprs []ast.Expr, ok bool) {
	switch t := s.(type) {
	case *ast.LabeledStmt:
		return headerExprs(t.Stmt)
	case *ast.ExprStmt:
		return []ast.Expr{t.X}, true
	case *ast.AssignStmt:
		return append(append([]ast.Expr{}, t.Lhs...), t.Rhs...), true
	case *ast.ReturnStmt:
		return t.Results, true
	case *ast.SendStmt:
		return []ast.Expr{t.Chan, t.Value}, true
	case *ast.DeclStmt:
		gd, isG := t.Decl.(*ast.GenDecl)
		if !isG || gd.Tok != token.VAR {
			return nil, false
		}
		for _, sp := range gd.Specs {
			if vs, isV := sp.(*ast.ValueSpec); isV {
				exprs = append(exprs, vs.Values...)
			}
		}
		return exprs, true
	case *ast.IfStmt:
		if t.Init != nil {
			return headerExprs(t.Init)
		}
		return []ast.Expr{t.Cond}, true
	case *ast.SwitchStmt:
		if t.Init != nil {
			return headerExprs(t.Init)
		}
		if t.Tag != nil {
			return []ast.Expr{t.Tag}, true
		}
		// tagless switch: the first expression of the first clause is evaluated unconditionally, first
		if len(t.Body.List) > 0 {
			if cc, isCC := t.Body.List[0].(*ast.CaseClause); isCC && len(cc.List) > 0 {
				return []ast.Expr{cc.List[0]}, true
			}
		}
		return nil, false
	case *ast.RangeStmt:
		return []ast.Expr{t.X}, true
	case *ast.ForStmt:
		if t.Init != nil {
			return headerExprs(t.Init)
		}
		return nil, false
	case *ast.GoStmt:
		return append([]ast.Expr{funOperand(t.Call)}, t.Call.Args...), true
	case *ast.DeferStmt:
		return append([]ast.Expr{funOperand(t.Call)}, t.Call.Args...), true
	}
	return nil, false
}

// funOperand: the part of a call's Fun that is evaluated before the call (the receiver expression).
func funOperand(c *ast.CallExpr) ast.Expr {
	if se, ok := ast.Unparen(c.Fun).(*ast.SelectorExpr); ok {
		return se.X
	}
	return &ast.Ident{Name: "_"}
}

type callInfo struct {
	call        *ast.CallExpr
	conditional bool
}

// callsInOrder lists the real calls (not conversions, not builtins) of e in evaluation order.
func (x *expander) callsInOrder(e ast.Expr, cond bool, out *[]callInfo) {
	if e == nil {
		return
	}
	switch t := e.(type) {
	case *ast.FuncLit:
		return
	case *ast.BinaryExpr:
		x.callsInOrder(t.X, cond, out)
		if t.Op == token.LAND || t.Op == token.LOR {
			x.callsInOrder(t.Y, true, out)
		} else {
			x.callsInOrder(t.Y, cond, out)
		}
		return
	case *ast.CallExpr:
		x.callsInOrder(t.Fun, cond, out)
		for _, a := range t.Args {
			x.callsInOrder(a, cond, out)
		}
		if tv, ok := x.info.Types[t.Fun]; ok && tv.IsType() {
			return
		}
		if id, ok := ast.Unparen(t.Fun).(*ast.Ident); ok {
			if _, isB := x.info.Uses[id].(*types.Builtin); isB {
				return
			}
		}
		*out = append(*out, callInfo{t, cond})
		return
	case *ast.UnaryExpr:
		if t.Op == token.ARROW {
			x.callsInOrder(t.X, cond, out)
			*out = append(*out, callInfo{nil, cond}) // a receive orders like a call
			return
		}
	}
	// generic: children in lexical order
	var kids []ast.Expr
	ast.Inspect(e, func(n ast.Node) bool {
		if n == nil || n == ast.Node(e) {
			return true
		}
		if ce, ok := n.(ast.Expr); ok {
			kids = append(kids, ce)
			return false
		}
		return true
	})
	for _, k := range kids {
		x.callsInOrder(k, cond, out)
	}
}

func (x *expander) calleeOf(call *ast.CallExpr) (*helper, ast.Expr, *types.Selection) {
	fun := ast.Unparen(call.Fun)
	if ie, ok := fun.(*ast.IndexExpr); ok { // explicit instantiation f[T](...)
		fun = ie.X
	}
	if ie, ok := fun.(*ast.IndexListExpr); ok {
		fun = ie.X
	}
	switch f := fun.(type) {
	case *ast.Ident:
		if o, ok := x.info.Uses[f].(*types.Func); ok {
			o = o.Origin()
			if h := x.helpers[o]; h != nil && o.Type().(*types.Signature).Recv() == nil {
				if tps := o.Type().(*types.Signature).TypeParams(); tps != nil {
					inst, has := x.info.Instances[f]
					if !has || inst.TypeArgs.Len() != tps.Len() {
						return nil, nil, nil
					}
					sameParams := true
					for i := 0; i < tps.Len(); i++ {
						tp, isTP := inst.TypeArgs.At(i).(*types.TypeParam)
						if !isTP || tp.Obj().Name() != tps.At(i).Obj().Name() {
							sameParams = false
						}
					}
					if !sameParams {
						// concrete instantiation: fine when the body never spells a type parameter (the parameters and
						// results are then declared with the instantiated types)
						// concrete instantiation: parameters and results are declared with the instantiated types, and
						// the type parameters named in the body are replaced by the type arguments
						isig, isSig := inst.Type.(*types.Signature)
						if !isSig {
							return nil, nil, nil
						}
						if x.instSig == nil {
							x.instSig = map[*ast.CallExpr]*types.Signature{}
							x.instArgs = map[*ast.CallExpr]*types.TypeList{}
						}
						x.instSig[call] = isig
						x.instArgs[call] = inst.TypeArgs
					}
				}
				return h, nil, nil
			}
		}
	case *ast.SelectorExpr:
		if sel := x.info.Selections[f]; sel != nil && sel.Kind() == types.MethodVal {
			if o, ok := sel.Obj().(*types.Func); ok {
				o = o.Origin()
				if h := x.helpers[o]; h != nil {
					if rtps := o.Type().(*types.Signature).RecvTypeParams(); rtps != nil {
						// the receiver operand must be the generic type instantiated with type parameters of the same names
						t := sel.Recv()
						if p, isP := t.(*types.Pointer); isP {
							t = p.Elem()
						}
						n, isN := t.(*types.Named)
						if !isN || n.TypeArgs() == nil || n.TypeArgs().Len() != rtps.Len() || len(sel.Index()) != 1 {
							return nil, nil, nil
						}
						for i := 0; i < rtps.Len(); i++ {
							tp, isTP := n.TypeArgs().At(i).(*types.TypeParam)
							if !isTP || tp.Obj().Name() != rtps.At(i).Obj().Name() {
								return nil, nil, nil
							}
						}
					}
					return h, f.X, sel
				}
			}
		}
	}
	return nil, nil, nil
}

// bodyNamesTypeParams: does the helper's body mention one of its type parameters?
func (x *expander) bodyNamesTypeParams(h *helper) bool {
	found := false
	ast.Inspect(h.decl.Body, func(n ast.Node) bool {
		if id, ok := n.(*ast.Ident); ok {
			if tn, isTN := h.pkg.TypesInfo.Uses[id].(*types.TypeName); isTN {
				if _, isTP := tn.Type().(*types.TypeParam); isTP {
					found = true
				}
			}
		}
		return !found
	})
	return found
}

func (x *expander) text(n ast.Node) string {
	return string(x.fe.src[x.off(n.Pos()):x.off(n.End())])
}

func (x *expander) qual(p *types.Package) string {
	if p == x.pk.Types {
		return ""
	}
	if n, ok := x.fe.imports[p.Path()]; ok {
		return n
	}
	alias := fmt.Sprintf("inlimp%d_%d", x.round, len(x.fe.added))
	x.fe.imports[p.Path()] = alias
	x.fe.added = append(x.fe.added, fmt.Sprintf("import %s %q", alias, p.Path()))
	return alias
}

func (x *expander) typeStr(t types.Type) string { return types.TypeString(t, x.qual) }

func (x *expander) stmt(s ast.Stmt) {
	// eta expansion of go/defer on a helper
	switch t := s.(type) {
	case *ast.GoStmt:
		if x.eta(s, t.Call, "go") {
			return
		}
	case *ast.DeferStmt:
		if x.eta(s, t.Call, "defer") {
			return
		}
	}
	exprs, ok := headerExprs(s)
	if !ok {
		return
	}
	var calls []callInfo
	for _, e := range exprs {
		x.callsInOrder(e, false, &calls)
	}
	// the helper call must be the first call the statement evaluates, not counting the calls nested in its own
	// receiver and arguments (the expansion evaluates those first, in the same order)
	var call *ast.CallExpr
	var h *helper
	var recvExpr ast.Expr
	var sel *types.Selection
	for k, ci := range calls {
		if ci.call == nil || ci.conditional {
			break
		}
		hh, re, sl := x.calleeOf(ci.call)
		if hh == nil {
			continue
		}
		nested := true
		for _, prev := range calls[:k] {
			if prev.call == nil || prev.call.Pos() < ci.call.Pos() || prev.call.End() > ci.call.End() {
				nested = false
			}
		}
		if nested {
			call, h, recvExpr, sel = ci.call, hh, re, sl
		}
		break
	}
	hoisted := false
	if h == nil {
		// a pure, total helper over stable arguments may be evaluated ahead of the statement wherever it occurs in it
		for _, ci := range calls {
			if ci.call == nil {
				continue
			}
			if hh, re, _ := x.calleeOf(ci.call); hh != nil && re == nil && x.pureTotal(hh) && x.stableArgs(ci.call) {
				call, h, hoisted = ci.call, hh, true
				break
			}
		}
	}
	if h == nil {
		return
	}
	sig := h.fn.Type().(*types.Signature)
	nres := sig.Results().Len()
	// context checks for the replacement of the call expression
	inner := s
	if ls, isL := s.(*ast.LabeledStmt); isL {
		inner = ls.Stmt
	}
	dropStmt := false
	if es, isE := inner.(*ast.ExprStmt); isE && ast.Unparen(es.X) == ast.Expr(call) {
		dropStmt = true // results (if any) are discarded
	}
	if nres == 0 && !dropStmt {
		return
	}
	if nres >= 2 && !dropStmt {
		okCtx := false
		switch t := inner.(type) {
		case *ast.AssignStmt:
			okCtx = len(t.Rhs) == 1 && ast.Unparen(t.Rhs[0]) == ast.Expr(call)
		case *ast.ReturnStmt:
			okCtx = len(t.Results) == 1 && ast.Unparen(t.Results[0]) == ast.Expr(call)
		case *ast.DeclStmt:
			if gd, isG := t.Decl.(*ast.GenDecl); isG && len(gd.Specs) == 1 {
				if vs, isV := gd.Specs[0].(*ast.ValueSpec); isV && len(vs.Values) == 1 && ast.Unparen(vs.Values[0]) == ast.Expr(call) {
					okCtx = true
				}
			}
		case *ast.IfStmt:
			if as, isA := t.Init.(*ast.AssignStmt); isA {
				okCtx = len(as.Rhs) == 1 && ast.Unparen(as.Rhs[0]) == ast.Expr(call)
			}
		case *ast.SwitchStmt:
			if as, isA := t.Init.(*ast.AssignStmt); isA {
				okCtx = len(as.Rhs) == 1 && ast.Unparen(as.Rhs[0]) == ast.Expr(call)
			}
		}
		if !okCtx {
			return
		}
	}
	if nres == 1 {
		// `x := f()` inside the init of an if with `:=` is fine; a call used as a statement with its result dropped too
	}
	// the same statement must not already carry an edit (one expansion per statement and round)
	ss, se := x.off(s.Pos()), x.off(s.End())
	for _, e := range x.fe.edits {
		if e.start < se && ss < e.end || e.start == ss {
			return
		}
	}
	*x.seq++
	// tail call: `return helper(args)` forwarding all results (no deferred calls, no named results in the helper that a
	// bare return would read, results assignable as they are): the helper's returns become the caller's returns
	tail := false
	if rs, isRet := inner.(*ast.ReturnStmt); isRet && len(rs.Results) == 1 && ast.Unparen(rs.Results[0]) == ast.Expr(call) {
		tail = tailOK(h, x.enclosing, x.info, call)
	}
	body, resNames, prelude, ok2 := x.expand(h, call, recvExpr, sel, tail)
	if !ok2 {
		return
	}
	_ = body
	if tail {
		adj := x.fset.PositionFor(s.End(), true)
		x.fe.edits = append(x.fe.edits, edit{ss, se, prelude + fmt.Sprintf("\n//line %s:%d\n", adj.Filename, adj.Line)})
		h.done++
		pos := x.fset.PositionFor(call.Pos(), true)
		*x.notes = append(*x.notes, fmt.Sprintf("helper %s expanded (tail call) at %s:%d", FuncKey(h.fn), shortPath(pos.Filename), pos.Line))
		return
	}
	// replacement of the call expression
	cs, ce := x.off(call.Pos()), x.off(call.End())
	adj := x.fset.PositionFor(s.Pos(), true)
	lineBack := fmt.Sprintf("\n//line %s:%d\n", adj.Filename, adj.Line)
	if dropStmt {
		// drop the statement, keep a label if any
		keep := ""
		if ls, isL := s.(*ast.LabeledStmt); isL {
			keep = ls.Label.Name + ":\n"
			// label must precede the expansion to keep `continue L` etc. legal only for loops; an ExprStmt label can only be a goto/break target
		}
		x.fe.edits = append(x.fe.edits, edit{ss, se, keep + prelude + lineBack})
	} else {
		x.fe.edits = append(x.fe.edits, edit{ss, ss, prelude + lineBack})
		x.fe.edits = append(x.fe.edits, edit{cs, ce, strings.Join(resNames, ", ")})
	}
	h.done++
	pos := x.fset.PositionFor(call.Pos(), true)
	how := ""
	if hoisted {
		how = " (pure predicate, evaluated ahead of its statement)"
	}
	*x.notes = append(*x.notes, fmt.Sprintf("helper %s expanded%s at %s:%d", FuncKey(h.fn), how, shortPath(pos.Filename), pos.Line))
}

func shortPath(p string) string {
	if i := strings.Index(p, "/core/"); i >= 0 {
		return p[i+1:]
	}
	parts := strings.Split(p, "/")
	if len(parts) > 3 {
		return strings.Join(parts[len(parts)-3:], "/")
	}
	return p
}

// expand builds the prelude text for one call.
func (x *expander) expand(h *helper, call *ast.CallExpr, recvExpr ast.Expr, sel *types.Selection, tail bool) (body string, resNames []string, prelude string, ok bool) {
	sig := h.fn.Type().(*types.Signature)
	hinfo := h.pkg.TypesInfo
	hoff := func(p token.Pos) int { return x.fset.PositionFor(p, false).Offset }
	rename := map[types.Object]string{}
	if is := x.instSig[call]; is != nil {
		// a generic helper instantiated with concrete types
		if tps, targs := sig.TypeParams(), x.instArgs[call]; tps != nil && targs != nil && tps.Len() == targs.Len() {
			for i := 0; i < tps.Len(); i++ {
				rename[tps.At(i).Obj()] = x.typeStr(targs.At(i))
			}
		}
		sig = is
	}
	var binds []string
	// receiver
	if sig.Recv() != nil {
		if recvExpr == nil || sel == nil {
			return "", nil, "", false
		}
		rt := sig.Recv().Type()
		xt := x.info.TypeOf(recvExpr)
		if xt == nil {
			return "", nil, "", false
		}
		embedded := ""
		if idx := sel.Index(); len(idx) > 1 {
			// method promoted through embedded fields: spell the path out
			t := xt
			for _, fi := range idx[:len(idx)-1] {
				if pt, isP := t.Underlying().(*types.Pointer); isP {
					t = pt.Elem()
				}
				st, isS := t.Underlying().(*types.Struct)
				if !isS || fi >= st.NumFields() {
					return "", nil, "", false
				}
				embedded += "." + st.Field(fi).Name()
				t = st.Field(fi).Type()
			}
			xt = t
		}
		_, rPtr := rt.(*types.Pointer)
		_, xPtr := xt.Underlying().(*types.Pointer)
		if _, isNamedPtr := xt.(*types.Pointer); !isNamedPtr {
			xPtr = false
		}
		ex := x.text(recvExpr)
		if embedded != "" {
			ex = "(" + ex + ")" + embedded
		}
		switch {
		case rPtr && !xPtr:
			ex = "&(" + ex + ")"
		case !rPtr && xPtr:
			ex = "*(" + ex + ")"
		}
		name := x.fresh("recv")
		binds = append(binds, fmt.Sprintf("var %s %s = %s; _ = %s", name, x.typeStr(rt), ex, name))
		if h.decl.Recv != nil && len(h.decl.Recv.List) == 1 && len(h.decl.Recv.List[0].Names) == 1 {
			if o := hinfo.Defs[h.decl.Recv.List[0].Names[0]]; o != nil {
				rename[o] = name
			}
		}
	}
	// parameters
	i := 0
	if h.decl.Type.Params != nil {
		for _, fld := range h.decl.Type.Params.List {
			names := fld.Names
			if len(names) == 0 {
				names = []*ast.Ident{nil}
			}
			for _, nm := range names {
				if i >= len(call.Args) {
					return "", nil, "", false
				}
				name := x.fresh(fmt.Sprintf("p%d", i))
				binds = append(binds, fmt.Sprintf("var %s %s = %s; _ = %s", name, x.typeStr(sig.Params().At(i).Type()), x.text(call.Args[i]), name))
				if nm != nil && nm.Name != "_" {
					if o := hinfo.Defs[nm]; o != nil {
						rename[o] = name
					}
				}
				i++
			}
		}
	}
	if i != len(call.Args) {
		return "", nil, "", false // f(g()) multi-value forwarding
	}
	// results
	var resDecl []string
	if h.decl.Type.Results != nil {
		k := 0
		for _, fld := range h.decl.Type.Results.List {
			names := fld.Names
			if len(names) == 0 {
				names = []*ast.Ident{nil}
			}
			for _, nm := range names {
				name := x.fresh(fmt.Sprintf("r%d", k))
				resNames = append(resNames, name)
				resDecl = append(resDecl, fmt.Sprintf("var %s %s; _ = %s", name, x.typeStr(sig.Results().At(k).Type()), name))
				if nm != nil && nm.Name != "_" {
					if o := hinfo.Defs[nm]; o != nil {
						rename[o] = name
					}
				}
				k++
			}
		}
	}
	label := x.fresh("L")
	// body edits
	var edits []edit
	bs, be := hoff(h.decl.Body.Lbrace)+1, hoff(h.decl.Body.Rbrace)
	labels := map[string]string{}
	depth := 0
	var stack []ast.Node
	var defers []*ast.DeferStmt
	firstReturn := token.Pos(0)
	bad := ""
	helperFile := &fileEdits{imports: map[string]string{}}
	for _, is := range h.file.Imports {
		var pn *types.PkgName
		if is.Name != nil {
			pn, _ = hinfo.Defs[is.Name].(*types.PkgName)
		} else {
			pn, _ = hinfo.Implicits[is].(*types.PkgName)
		}
		if pn != nil {
			helperFile.imports[pn.Name()] = pn.Imported().Path()
		}
	}
	ast.Inspect(h.decl.Body, func(n ast.Node) bool {
		if n == nil {
			top := stack[len(stack)-1]
			stack = stack[:len(stack)-1]
			if _, isLit := top.(*ast.FuncLit); isLit {
				depth--
			}
			return true
		}
		stack = append(stack, n)
		switch t := n.(type) {
		case *ast.FuncLit:
			depth++
		case *ast.LabeledStmt:
			if depth == 0 {
				nl := x.fresh("lbl" + t.Label.Name)
				labels[t.Label.Name] = nl
			}
		case *ast.DeferStmt:
			if depth == 0 {
				defers = append(defers, t)
			}
		case *ast.ReturnStmt:
			if depth != 0 {
				return true
			}
			if firstReturn == 0 || t.Pos() < firstReturn {
				firstReturn = t.Pos()
			}
			if tail {
				return true // the helper's returns are the caller's returns
			}
			var repl string
			switch {
			case len(t.Results) == 0:
				repl = "break " + label
			default:
				// the result expressions keep their own (renamed) text: they are edited separately, so only wrap
				rs := hoff(t.Results[0].Pos())
				re := hoff(t.Results[len(t.Results)-1].End())
				edits = append(edits, edit{hoff(t.Pos()), rs, "{ " + strings.Join(resNames, ", ") + " = "})
				edits = append(edits, edit{re, re, "; break " + label + " }"})
				return true
			}
			edits = append(edits, edit{hoff(t.Pos()), hoff(t.End()), repl})
		case *ast.SelectorExpr:
			if id, isId := t.X.(*ast.Ident); isId {
				if pn, isPkg := hinfo.Uses[id].(*types.PkgName); isPkg {
					want := x.qual(pn.Imported())
					if want != id.Name {
						edits = append(edits, edit{hoff(id.Pos()), hoff(id.End()), want})
					}
				}
			}
		case *ast.Ident:
			var o types.Object
			if u := hinfo.Uses[t]; u != nil {
				o = u
			} else if d := hinfo.Defs[t]; d != nil {
				o = d
			}
			if o == nil {
				return true
			}
			if nn, ok := rename[o]; ok {
				edits = append(edits, edit{hoff(t.Pos()), hoff(t.End()), nn})
				return true
			}
			// package-level / universe objects must mean the same thing at the call site
			if o.Parent() == h.pkg.Types.Scope() || o.Parent() == types.Universe {
				if sc := x.pk.Types.Scope().Innermost(call.Pos()); sc != nil {
					if _, o2 := sc.LookupParent(t.Name, call.Pos()); o2 != o {
						bad = "identifier " + t.Name + " is shadowed at the call site"
					}
				}
			}
		}
		return true
	})
	if bad != "" {
		*x.notes = append(*x.notes, fmt.Sprintf("helper %s not expanded at one site: %s", FuncKey(h.fn), bad))
		return "", nil, "", false
	}
	// labels
	if len(labels) > 0 {
		ast.Inspect(h.decl.Body, func(n ast.Node) bool {
			switch t := n.(type) {
			case *ast.LabeledStmt:
				if nl, ok := labels[t.Label.Name]; ok {
					edits = append(edits, edit{hoff(t.Label.Pos()), hoff(t.Label.End()), nl})
				}
			case *ast.BranchStmt:
				if t.Label != nil {
					if nl, ok := labels[t.Label.Name]; ok {
						edits = append(edits, edit{hoff(t.Label.Pos()), hoff(t.Label.End()), nl})
					}
				}
			}
			return true
		})
	}
	// deferred calls: run after the body; guarded by a flag when a return can precede the defer statement
	var tailStmts []string
	var flagDecl []string
	for k := len(defers) - 1; k >= 0; k-- {
		d := defers[k]
		callTxt := "" // text of the call with renames applied: build through a sub-edit pass below
		ds, de := hoff(d.Pos()), hoff(d.End())
		cs, ce := hoff(d.Call.Pos()), hoff(d.Call.End())
		callTxt = applyEdits(h.src, cs, ce, edits)
		if firstReturn != 0 && firstReturn < d.Pos() {
			flag := x.fresh(fmt.Sprintf("d%d", k))
			flagDecl = append(flagDecl, fmt.Sprintf("var %s bool; _ = %s", flag, flag))
			edits = append(edits, edit{ds, de, flag + " = true"})
			tailStmts = append(tailStmts, fmt.Sprintf("if %s { %s }", flag, callTxt))
		} else {
			edits = append(edits, edit{ds, de, ""})
			tailStmts = append(tailStmts, callTxt)
		}
	}
	// drop edits nested inside a replaced defer statement
	var final []edit
	for _, e := range edits {
		inside := false
		for _, d := range defers {
			ds, de := hoff(d.Pos()), hoff(d.End())
			if e.start >= ds && e.end <= de && !(e.start == ds && e.end == de) {
				inside = true
			}
		}
		if !inside {
			final = append(final, e)
		}
	}
	body = applyEdits(h.src, bs, be, final)
	hp := x.fset.PositionFor(h.decl.Body.Lbrace, true)
	var sb strings.Builder
	for _, r := range resDecl {
		sb.WriteString(r + "\n")
	}
	sb.WriteString("{\n")
	for _, b := range binds {
		sb.WriteString(b + "\n")
	}
	for _, f := range flagDecl {
		sb.WriteString(f + "\n")
	}
	if tail {
		sb.WriteString(fmt.Sprintf("\n//line %s:%d\n", hp.Filename, hp.Line))
		sb.WriteString(body)
		sb.WriteString("\n}\n")
		return body, resNames, sb.String(), true
	}
	sb.WriteString(label + ":\nfor {")
	sb.WriteString(fmt.Sprintf("\n//line %s:%d\n", hp.Filename, hp.Line))
	sb.WriteString(body)
	sb.WriteString("\nbreak " + label + "\n}\n")
	for _, t := range tailStmts {
		sb.WriteString(t + "\n")
	}
	sb.WriteString("}\n")
	return body, resNames, sb.String(), true
}

// applyEdits returns src[start:end] with the edits that fall inside applied.
func applyEdits(src []byte, start, end int, edits []edit) string {
	var in []edit
	for _, e := range edits {
		if e.start >= start && e.end <= end {
			in = append(in, e)
		}
	}
	sort.SliceStable(in, func(i, j int) bool {
		if in[i].start != in[j].start {
			return in[i].start < in[j].start
		}
		return in[i].end < in[j].end
	})
	var sb strings.Builder
	at := start
	for _, e := range in {
		if e.start < at {
			continue // overlapping (nested) edit: the outer one wins
		}
		sb.Write(src[at:e.start])
		sb.WriteString(e.text)
		at = e.end
	}
	sb.Write(src[at:end])
	return sb.String()
}

// eta rewrites `go h(a, b)` into `go func(p0 P0, p1 P1) { h(p0, p1) }(a, b)` so that the next round can
// expand the call inside the literal.
func (x *expander) eta(s ast.Stmt, call *ast.CallExpr, kw string) bool {
	h, recvExpr, sel := x.calleeOf(call)
	if h == nil {
		return false
	}
	sig := h.fn.Type().(*types.Signature)
	if sig.Results().Len() != 0 && kw == "go" {
		// results are discarded by go/defer anyway
	}
	ss, se := x.off(s.Pos()), x.off(s.End())
	for _, e := range x.fe.edits {
		if e.start < se && ss < e.end {
			return true
		}
	}
	*x.seq++
	var params, args, pass []string
	callee := ""
	if sig.Recv() != nil {
		if recvExpr == nil || sel == nil || len(sel.Index()) != 1 {
			return false
		}
		xt := x.info.TypeOf(recvExpr)
		if xt == nil {
			return false
		}
		rn := x.fresh("recv")
		params = append(params, rn+" "+x.typeStr(xt))
		args = append(args, x.text(recvExpr))
		callee = rn + "." + h.fn.Name()
	} else {
		callee = h.fn.Name()
	}
	for i, a := range call.Args {
		if i >= sig.Params().Len() {
			return false
		}
		pn := x.fresh(fmt.Sprintf("p%d", i))
		params = append(params, pn+" "+x.typeStr(sig.Params().At(i).Type()))
		args = append(args, x.text(a))
		pass = append(pass, pn)
	}
	if len(call.Args) != sig.Params().Len() {
		return false
	}
	txt := fmt.Sprintf("%s func(%s) { %s(%s) }(%s)", kw, strings.Join(params, ", "), callee, strings.Join(pass, ", "), strings.Join(args, ", "))
	x.fe.edits = append(x.fe.edits, edit{ss, se, txt})
	h.done++ // the reference moves into the literal; counted again next round
	h.done--
	pos := x.fset.PositionFor(call.Pos(), true)
	*x.notes = append(*x.notes, fmt.Sprintf("%s of helper %s wrapped in a literal at %s:%d", kw, FuncKey(h.fn), shortPath(pos.Filename), pos.Line))
	return true
}

// funcValues eta-expands uses of helpers as values: `store(h)` becomes `store(func(a A) R { return h(a) })`,
// and a method value `x.h` on a parameter that is never assigned likewise.
func (x *expander) funcValues(root ast.Node) {
	callFun := map[ast.Expr]bool{}
	ast.Inspect(root, func(n ast.Node) bool {
		if c, ok := n.(*ast.CallExpr); ok {
			callFun[ast.Unparen(c.Fun)] = true
			// an explicitly instantiated generic callee (`f[T](..)`): the function name inside the index expression is part
			// of the call, not a function value
			switch ix := ast.Unparen(c.Fun).(type) {
			case *ast.IndexExpr:
				callFun[ast.Unparen(ix.X)] = true
			case *ast.IndexListExpr:
				callFun[ast.Unparen(ix.X)] = true
			}
		}
		return true
	})
	assigned := map[types.Object]bool{}
	ast.Inspect(x.enclosing, func(n ast.Node) bool {
		switch t := n.(type) {
		case *ast.AssignStmt:
			if t.Tok != token.DEFINE {
				for _, l := range t.Lhs {
					if id, ok := ast.Unparen(l).(*ast.Ident); ok {
						if o := x.info.Uses[id]; o != nil {
							assigned[o] = true
						}
					}
				}
			}
		case *ast.UnaryExpr:
			if t.Op == token.AND {
				if id, ok := ast.Unparen(t.X).(*ast.Ident); ok {
					if o := x.info.Uses[id]; o != nil {
						assigned[o] = true
					}
				}
			}
		case *ast.IncDecStmt:
			if id, ok := ast.Unparen(t.X).(*ast.Ident); ok {
				if o := x.info.Uses[id]; o != nil {
					assigned[o] = true
				}
			}
		}
		return true
	})
	var skip []ast.Node
	ast.Inspect(root, func(n ast.Node) bool {
		e, ok := n.(ast.Expr)
		if !ok || callFun[e] {
			if se, isSel := n.(*ast.SelectorExpr); isSel && callFun[e] {
				_ = se
			}
			return true
		}
		for _, s := range skip {
			if n.Pos() >= s.Pos() && n.End() <= s.End() {
				return false
			}
		}
		var h *helper
		prefix := ""
		switch t := e.(type) {
		case *ast.Ident:
			if o, isF := x.info.Uses[t].(*types.Func); isF {
				if hh := x.helpers[o]; hh != nil && o.Type().(*types.Signature).Recv() == nil {
					h = hh
					prefix = t.Name
				}
			}
		case *ast.SelectorExpr:
			if sel := x.info.Selections[t]; sel != nil && sel.Kind() == types.MethodVal && len(sel.Index()) == 1 {
				if o, isF := sel.Obj().(*types.Func); isF {
					if hh := x.helpers[o]; hh != nil {
						// the receiver operand is re-evaluated when the literal runs: only accept operands whose value cannot
						// change (parameters / locals never assigned again, composite literals and selectors over them)
						stable := true
						ast.Inspect(t.X, func(n ast.Node) bool {
							switch y := n.(type) {
							case *ast.CallExpr, *ast.FuncLit:
								stable = false
							case *ast.UnaryExpr:
								if y.Op == token.ARROW {
									stable = false
								}
							case *ast.Ident:
								if v, isV := x.info.Uses[y].(*types.Var); isV {
									if assigned[v] || (!v.IsField() && v.Parent() == x.pk.Types.Scope()) {
										stable = false
									}
								}
							}
							return stable
						})
						if stable {
							h = hh
							prefix = "(" + x.text(t.X) + ")." + t.Sel.Name
						}
					}
				}
			}
		}
		if h == nil {
			return true
		}
		// must not be the Sel part of a call's selector (handled as call) - callFun covers the whole Fun expr
		sig := h.fn.Type().(*types.Signature)
		es, ee := x.off(e.Pos()), x.off(e.End())
		for _, ed := range x.fe.edits {
			if ed.start < ee && es < ed.end {
				return false
			}
		}
		*x.seq++
		var params, pass, res []string
		for i := 0; i < sig.Params().Len(); i++ {
			pn := x.fresh(fmt.Sprintf("p%d", i))
			params = append(params, pn+" "+x.typeStr(sig.Params().At(i).Type()))
			pass = append(pass, pn)
		}
		for i := 0; i < sig.Results().Len(); i++ {
			res = append(res, x.typeStr(sig.Results().At(i).Type()))
		}
		ret := ""
		if len(res) > 0 {
			ret = "return "
		}
		rs := ""
		if len(res) == 1 {
			rs = " " + res[0]
		} else if len(res) > 1 {
			rs = " (" + strings.Join(res, ", ") + ")"
		}
		txt := fmt.Sprintf("func(%s)%s { %s%s(%s) }", strings.Join(params, ", "), rs, ret, prefix, strings.Join(pass, ", "))
		x.fe.edits = append(x.fe.edits, edit{es, ee, txt})
		skip = append(skip, e)
		pos := x.fset.PositionFor(e.Pos(), true)
		*x.notes = append(*x.notes, fmt.Sprintf("helper value %s wrapped in a literal at %s:%d", FuncKey(h.fn), shortPath(pos.Filename), pos.Line))
		return false
	})
}

// tailOK: the call `return h(...)` can be replaced by h's body with its return statements kept: h has no deferred calls
// and no named results, every return of h lists its results explicitly, and the return is not inside a function literal
// of the caller whose result types differ (checked by identical result types).
func tailOK(h *helper, enclosing *ast.FuncDecl, info *types.Info, call *ast.CallExpr) bool {
	if h.decl.Type.Results != nil {
		for _, f := range h.decl.Type.Results.List {
			if len(f.Names) > 0 {
				return false
			}
		}
	}
	ok := true
	depth := 0
	var stack []ast.Node
	ast.Inspect(h.decl.Body, func(n ast.Node) bool {
		if n == nil {
			top := stack[len(stack)-1]
			stack = stack[:len(stack)-1]
			if _, isLit := top.(*ast.FuncLit); isLit {
				depth--
			}
			return true
		}
		stack = append(stack, n)
		switch n.(type) {
		case *ast.FuncLit:
			depth++
		case *ast.DeferStmt:
			if depth == 0 {
				ok = false
			}
		}
		return true
	})
	if !ok {
		return false
	}
	// the function (declaration or literal) that directly contains the call must have the helper's result types
	var sigT *types.Signature
	var best ast.Node
	ast.Inspect(enclosing, func(n ast.Node) bool {
		if n == nil {
			return true
		}
		if n.Pos() <= call.Pos() && call.End() <= n.End() {
			switch t := n.(type) {
			case *ast.FuncLit:
				best = t
			case *ast.FuncDecl:
				best = t
			}
		}
		return true
	})
	switch t := best.(type) {
	case *ast.FuncLit:
		sigT, _ = info.TypeOf(t).(*types.Signature)
	case *ast.FuncDecl:
		if o, _ := info.Defs[t.Name].(*types.Func); o != nil {
			sigT, _ = o.Type().(*types.Signature)
		}
		// named results of the caller: a return with explicit values assigns them, fine
	}
	hs := h.fn.Type().(*types.Signature)
	if sigT == nil || sigT.Results().Len() != hs.Results().Len() {
		return false
	}
	for i := 0; i < hs.Results().Len(); i++ {
		if !types.Identical(sigT.Results().At(i).Type(), hs.Results().At(i).Type()) {
			return false
		}
	}
	return true
}

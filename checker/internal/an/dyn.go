package an

import (
	"sort"
	"sync"

	"golang.org/x/tools/go/callgraph"
	"golang.org/x/tools/go/callgraph/cha"
	"golang.org/x/tools/go/callgraph/vta"
	"golang.org/x/tools/go/ssa"
	"golang.org/x/tools/go/ssa/ssautil"
)

// Thorough tier only: a VTA call graph (seeded with CHA) of the whole program, built once per
// process, used to close the who-may-call rules over calls made through interfaces and function
// values. go/pointer is not available in x/tools v0.29.0; VTA is the most precise graph in reach.

var (
	vtaOnce  sync.Once
	vtaGraph *callgraph.Graph
	vtaProg  *ssa.Program
)

func (c *Ctx) VTA() *callgraph.Graph {
	vtaOnce.Do(func() {
		vtaProg = c.Prog
		vtaGraph = vta.CallGraph(ssautil.AllFunctions(c.Prog), cha.CallGraph(c.Prog))
	})
	if vtaProg != c.Prog {
		return nil
	}
	return vtaGraph
}

// DynRoute is a call edge that the static scan of SitesOf cannot see: the call instruction has
// no static callee (function value, bound method, interface invoke on another interface) but VTA
// resolves it to a callee the rule protects.
type DynRoute struct {
	Fn     *ssa.Function
	Call   ssa.CallInstruction
	Callee *ssa.Function
}

// DynRoutes lists the dynamic edges from module functions to callees whose name satisfies pred.
func (c *Ctx) DynRoutes(pred func(name string) bool) []DynRoute {
	g := c.VTA()
	if g == nil {
		return nil
	}
	var out []DynRoute
	for _, f := range c.ModuleFuncs() {
		n := g.Nodes[f]
		if n == nil {
			continue
		}
		for _, e := range n.Out {
			if e.Site == nil || e.Callee == nil || e.Callee.Func == nil {
				continue
			}
			if pred(CalleeName(e.Site.Common())) {
				continue // the static scan already has this site
			}
			cal := e.Callee.Func
			if cal.Origin() != nil {
				cal = cal.Origin()
			}
			// synthetic wrappers ($bound, $thunk) forward to the declared method
			name := short(cal.String())
			if cal.Synthetic != "" {
				continue
			}
			if pred(name) {
				out = append(out, DynRoute{f, e.Site, cal})
			}
		}
	}
	sort.Slice(out, func(i, j int) bool { return out[i].Call.Pos() < out[j].Call.Pos() })
	return out
}

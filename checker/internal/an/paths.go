package an

import (
	"go/constant"
	"go/token"

	"golang.org/x/tools/go/ssa"
)

// ---------------------------------------------------------------------------------------------
// Guards as a disjunction of conjunctions: a condition that tests a phi (a boolean or an error
// that was assigned on several paths, e.g. the result variable of an expanded helper) is replaced
// by the alternatives of its incoming edges.

const maxAlts = 48

// AtomAlts returns alternatives A1..An (each a conjunction of atoms) such that on every path
// reaching b at least one Ai holds. A single alternative equal to Atoms(b) is the fallback.
func AtomAlts(b *ssa.BasicBlock) [][]Atom { return atomAlts(b, 0) }

var altCache = map[*ssa.BasicBlock][][]Atom{}

func atomAlts(b *ssa.BasicBlock, depth int) [][]Atom {
	if depth == 0 {
		if c, ok := altCache[b]; ok {
			return c
		}
	}
	out := atomAltsUncached(b, depth)
	if depth == 0 {
		altCache[b] = out
	}
	return out
}

// atomAltsUncached walks the forward CFG backwards from b: one predecessor => the alternatives of that edge; a join
// => the union over its forward predecessors (bounded); beyond the bound, or when the alternatives explode, the
// dominator based conjunction (Atoms) is the single alternative.
func atomAltsUncached(b *ssa.BasicBlock, depth int) [][]Atom {
	var fw []*ssa.BasicBlock
	for _, p := range b.Preds {
		if !b.Dominates(p) {
			fw = append(fw, p)
		}
	}
	if len(fw) == 0 {
		return [][]Atom{{}}
	}
	if depth > 6 {
		return domAlts(b, depth)
	}
	var out [][]Atom
	for _, p := range fw {
		d := depth
		if len(fw) > 1 {
			d = depth + 1
		}
		out = append(out, edgeAlts(p, b, d)...)
		if len(out) > maxAlts {
			return domAlts(b, depth)
		}
	}
	return out
}

// domAlts: the alternatives obtained from the dominator chain only (conditions whose one successor dominates b).
func domAlts(b *ssa.BasicBlock, depth int) [][]Atom {
	alts := [][]Atom{{}}
	for _, g := range Guards(b) {
		if g.LoopExit || g.LoopHeader {
			continue
		}
		ga := condAlts(g.V, g.Val, depth+1)
		alts = crossAlts(alts, ga)
		if len(alts) > maxAlts {
			return [][]Atom{Atoms(b)}
		}
	}
	return alts
}

func crossAlts(a, b [][]Atom) [][]Atom {
	var out [][]Atom
	for _, x := range a {
		for _, y := range b {
			n := make([]Atom, 0, len(x)+len(y))
			n = append(append(n, x...), y...)
			if consistent(n) {
				out = append(out, n)
			}
		}
	}
	return out
}

// consistent: the conjunction does not contain a fact together with its negation (such an alternative describes no path).
func consistent(alt []Atom) bool {
	for i, a := range alt {
		for _, b := range alt[i+1:] {
			if a.X != b.X {
				continue
			}
			if a.Y == nil && b.Y == nil && a.Op == token.ILLEGAL && b.Op == token.ILLEGAL && a.Val != b.Val {
				return false
			}
			if a.Y != nil && b.Y != nil && sameOperand(a.Y, b.Y) && negate(a.Op) == b.Op {
				return false
			}
		}
	}
	return true
}

func sameOperand(a, b ssa.Value) bool {
	if a == b {
		return true
	}
	ca, okA := a.(*ssa.Const)
	cb, okB := b.(*ssa.Const)
	if okA && okB {
		if ca.Value == nil || cb.Value == nil {
			return ca.Value == nil && cb.Value == nil
		}
		return constant.Compare(ca.Value, token.EQL, cb.Value)
	}
	return false
}

// EdgeAlts: guard alternatives known when control flows along the edge from->to.
func EdgeAlts(from, to *ssa.BasicBlock) [][]Atom { return edgeAlts(from, to, 0) }

func edgeAlts(from, to *ssa.BasicBlock, depth int) [][]Atom {
	out := atomAlts(from, depth)
	if isLoopHeader(from) {
		return out // loop control is not a fact about the iteration
	}
	if ifi, ok := from.Instrs[len(from.Instrs)-1].(*ssa.If); ok {
		if from.Succs[0] == to && from.Succs[1] != to {
			out = crossAlts(out, condAlts(ifi.Cond, true, depth))
		} else if from.Succs[1] == to && from.Succs[0] != to {
			out = crossAlts(out, condAlts(ifi.Cond, false, depth))
		}
	}
	return out
}

func condAlts(v ssa.Value, val bool, depth int) [][]Atom {
	if depth > 3 {
		return [][]Atom{condAtoms(v, val)}
	}
	switch x := v.(type) {
	case *ssa.UnOp:
		if x.Op == token.NOT {
			return condAlts(x.X, !val, depth)
		}
	case *ssa.Phi:
		if x.Type().String() != "bool" {
			break
		}
		var out [][]Atom
		for i, e := range x.Edges {
			p := x.Block().Preds[i]
			if c, isC := e.(*ssa.Const); isC && c.Value != nil && c.Value.Kind() == constant.Bool {
				if constant.BoolVal(c.Value) != val {
					continue
				}
				out = append(out, edgeAlts(p, x.Block(), depth+1)...)
				continue
			}
			out = append(out, crossAlts(edgeAlts(p, x.Block(), depth+1), condAlts(e, val, depth+1))...)
		}
		if len(out) == 0 || len(out) > maxAlts {
			return [][]Atom{condAtoms(v, val)}
		}
		return out
	case *ssa.BinOp:
		if x.Op != token.EQL && x.Op != token.NEQ {
			break
		}
		for _, pair := range [][2]ssa.Value{{x.X, x.Y}, {x.Y, x.X}} {
			phi, isPhi := pair[0].(*ssa.Phi)
			cst, isC := pair[1].(*ssa.Const)
			if !isPhi || !isC {
				continue
			}
			wantEq := (x.Op == token.EQL) == val // the alternative must make phi == cst (true) or phi != cst (false)
			var out [][]Atom
			for i, e := range phi.Edges {
				p := phi.Block().Preds[i]
				eq, known := constEq(e, cst)
				if known {
					if eq != wantEq {
						continue
					}
					out = append(out, edgeAlts(p, phi.Block(), depth+1)...)
					continue
				}
				op := token.NEQ
				if wantEq {
					op = token.EQL
				}
				out = append(out, crossAlts(edgeAlts(p, phi.Block(), depth+1), [][]Atom{{{Op: op, X: e, Y: cst}}})...)
			}
			if len(out) == 0 || len(out) > maxAlts {
				return [][]Atom{condAtoms(v, val)}
			}
			return out
		}
	}
	return [][]Atom{condAtoms(v, val)}
}

// constEq: is value e known to be equal / different to constant c?
func constEq(e ssa.Value, c *ssa.Const) (eq bool, known bool) {
	if c.Value == nil { // nil
		if IsNilConst(e) {
			return true, true
		}
		if NonNil(e) {
			return false, true
		}
		return false, false
	}
	if ec, ok := e.(*ssa.Const); ok && ec.Value != nil {
		return constant.Compare(ec.Value, token.EQL, c.Value), true
	}
	return false, false
}

// GuardedByAll reports whether, on every path reaching b, some atom satisfying pred is known.
func GuardedByAll(b *ssa.BasicBlock, pred func(Atom) bool) bool {
	for _, alt := range AtomAlts(b) {
		found := false
		for _, a := range alt {
			if pred(a) {
				found = true
				break
			}
		}
		if !found {
			return false
		}
	}
	return true
}

// AnyAtom reports whether some alternative of b's guards contains an atom satisfying pred.
func AnyAtom(b *ssa.BasicBlock, pred func(Atom) bool) bool {
	for _, alt := range AtomAlts(b) {
		for _, a := range alt {
			if pred(a) {
				return true
			}
		}
	}
	return false
}

// ---------------------------------------------------------------------------------------------
// Flow: forward reachability from a block that is sensitive to the nil-ness / truth of phis
// (optimistic, SCCP style): an edge is followed only if its condition is not known false given
// the edges already known to be live.

type flowEdge struct {
	b *ssa.BasicBlock
	i int
}

type Flow struct {
	fn      *ssa.Function
	start   *ssa.BasicBlock
	Reached map[*ssa.BasicBlock]bool
	live    map[flowEdge]bool
	cut     func(*ssa.BasicBlock, int) bool
	assume  func(ssa.Value) (bool, bool)
	nonNil  map[ssa.Value]bool
	// startPred/startSucc: when the flow starts on an edge (the successor of a branch), phis of the start block take the
	// value of that edge
	startPred *ssa.BasicBlock
	startSucc int
}

// FlowFromEdge starts the flow on the edge from -> from.Succs[succ] (e.g. the taken side of a test): if the successor is a
// join block, its phis have the values carried by that edge. nonNil lists values known non-nil on that edge.
func FlowFromEdge(from *ssa.BasicBlock, succ int, cut func(*ssa.BasicBlock, int) bool, nonNil ...ssa.Value) *Flow {
	m := map[ssa.Value]bool{}
	for _, v := range nonNil {
		m[v] = true
	}
	return flowFromEdge(from, succ, cut, nil, m)
}

// FlowFromFacts is FlowFrom with values known to be non-nil on entry to start (e.g. the error whose `!= nil` edge
// leads to start).
func FlowFromFacts(start *ssa.BasicBlock, cut func(*ssa.BasicBlock, int) bool, nonNil ...ssa.Value) *Flow {
	m := map[ssa.Value]bool{}
	for _, v := range nonNil {
		m[v] = true
	}
	return flowFromFacts(start, cut, nil, m)
}

// FlowAssume is FlowFrom under an assumption about boolean values: assume(v) = (truth, known). The assumption is
// applied wherever the value is tested - directly by an If, or after having travelled through a phi (a boolean result
// variable) to a later If.
func FlowAssume(start *ssa.BasicBlock, assume func(ssa.Value) (bool, bool)) *Flow {
	return flowFrom(start, nil, assume)
}

// FlowFrom computes the blocks reachable from start (its first instruction) without using an
// edge for which cut returns true, pruning branches whose condition is decided by what is known
// about phis of constants / nil / non-nil values on the live edges.
func FlowFrom(start *ssa.BasicBlock, cut func(*ssa.BasicBlock, int) bool) *Flow {
	return flowFrom(start, cut, nil)
}

func flowFrom(start *ssa.BasicBlock, cut func(*ssa.BasicBlock, int) bool, assume func(ssa.Value) (bool, bool)) *Flow {
	return flowFromFacts(start, cut, assume, nil)
}

func flowFromFacts(start *ssa.BasicBlock, cut func(*ssa.BasicBlock, int) bool, assume func(ssa.Value) (bool, bool), nonNil map[ssa.Value]bool) *Flow {
	f := &Flow{fn: start.Parent(), start: start, Reached: map[*ssa.BasicBlock]bool{start: true}, live: map[flowEdge]bool{}, cut: cut, assume: assume, nonNil: nonNil}
	return f.run()
}

func flowFromEdge(from *ssa.BasicBlock, succ int, cut func(*ssa.BasicBlock, int) bool, assume func(ssa.Value) (bool, bool), nonNil map[ssa.Value]bool) *Flow {
	start := from.Succs[succ]
	f := &Flow{fn: start.Parent(), start: start, Reached: map[*ssa.BasicBlock]bool{start: true}, live: map[flowEdge]bool{}, cut: cut, assume: assume, nonNil: nonNil,
		startPred: from, startSucc: succ}
	return f.run()
}

func (f *Flow) run() *Flow {
	cut := f.cut
	for changed := true; changed; {
		changed = false
		for _, b := range f.fn.Blocks {
			if !f.Reached[b] {
				continue
			}
			for i, s := range b.Succs {
				if f.live[flowEdge{b, i}] {
					continue
				}
				if cut != nil && cut(b, i) {
					continue
				}
				if len(b.Succs) == 2 {
					if ifi, ok := b.Instrs[len(b.Instrs)-1].(*ssa.If); ok {
						if v, known := f.truth(ifi.Cond, map[ssa.Value]bool{}); known && v != (i == 0) {
							continue
						}
					}
				}
				f.live[flowEdge{b, i}] = true
				changed = true
				if !f.Reached[s] {
					f.Reached[s] = true
				}
			}
		}
	}
	return f
}

// liveInto: is the i-th predecessor edge of block b live? The start block's predecessors are not.
func (f *Flow) liveInto(b *ssa.BasicBlock, i int) bool {
	p := b.Preds[i]
	if b == f.start && f.startPred != nil && p == f.startPred {
		// the edge the flow was started on (when the branch has both successors equal, either index)
		return true
	}
	if !f.Reached[p] {
		return false
	}
	for si, s := range p.Succs {
		if s == b && f.live[flowEdge{p, si}] {
			return true
		}
	}
	return false
}

// Nilness: +1 known non-nil, -1 known nil, 0 unknown (given the live edges).
func (f *Flow) Nilness(v ssa.Value) int { return f.nilness(v, map[ssa.Value]bool{}) }

func (f *Flow) nilness(v ssa.Value, seen map[ssa.Value]bool) int {
	if v == nil {
		return 0
	}
	if IsNilConst(v) {
		return -1 // before the cycle check: one constant object may arrive on several edges
	}
	if seen[v] {
		return 0
	}
	seen[v] = true
	if f.nonNil[v] {
		return 1
	}
	switch x := v.(type) {
	case *ssa.Call:
		// an error wrapping a known non-nil error, or built by a constructor, is non-nil (NonNil below); other calls unknown
		// errors.Join(a, b, ...) is non-nil as soon as one operand is, nil when all are
		if cal := x.Call.StaticCallee(); cal != nil && cal.Pkg != nil && cal.Pkg.Pkg.Path() == "errors" && cal.Name() == "Join" && len(x.Call.Args) == 1 {
			if sl, ok := x.Call.Args[0].(*ssa.Slice); ok {
				if al, isAl := sl.X.(*ssa.Alloc); isAl && al.Referrers() != nil {
					allNil, n := true, 0
					for _, r := range *al.Referrers() {
						ia, isIA := r.(*ssa.IndexAddr)
						if !isIA || ia.Referrers() == nil {
							continue
						}
						for _, rr := range *ia.Referrers() {
							if st, isSt := rr.(*ssa.Store); isSt && st.Addr == ssa.Value(ia) {
								n++
								switch f.nilness(st.Val, seen) {
								case 1:
									return 1
								case 0:
									allNil = false
								}
							}
						}
					}
					if allNil && n > 0 {
						return -1
					}
				}
			}
		}
	case *ssa.Phi:
		res, n := 0, 0
		for i, e := range x.Edges {
			if !f.liveInto(x.Block(), i) {
				if x.Block() == f.start && f.startPred == nil {
					// started on a block, not on an edge: values flowing into it from outside are unknown
					return 0
				}
				continue
			}
			k := f.nilness(e, seen)
			if k == 0 && KnownNonNil(x.Block().Preds[i], e) {
				k = 1 // the edge comes from a block only reached with e != nil established
			}
			if k == 0 {
				return 0
			}
			if n > 0 && k != res {
				return 0
			}
			res = k
			n++
		}
		return res
	case *ssa.MakeInterface:
		return 1
	case *ssa.ChangeInterface:
		return f.nilness(x.X, seen)
	case *ssa.UnOp:
		// load of a local cell (a variable captured by a closure or with its address taken): the stores reaching the load
		if al, ok := x.X.(*ssa.Alloc); ok && x.Op == token.MUL {
			_ = al
			res, n := 0, 0
			for _, st := range ReachingStores(x) {
				if !f.Reached[st.Block()] && !st.Block().Dominates(f.start) {
					continue // a store on a path that does not lead through the start of this flow
				}
				k := f.nilness(st.Val, seen)
				if k == 0 || (n > 0 && k != res) {
					return 0
				}
				res = k
				n++
			}
			return res
		}
	}
	if NonNil(v) {
		return 1
	}
	return 0
}

// truth evaluates a branch condition: (value, known).
func (f *Flow) truth(v ssa.Value, seen map[ssa.Value]bool) (bool, bool) {
	t, k, _ := f.truth3(v, seen)
	return t, k
}

// truth3 is truth with a third answer, cyc: v is a phi already being evaluated (a loop-carried variable reaching
// itself). Such an edge contributes no value of its own - the variable's values come from its other inputs - so the
// enclosing phi skips it (the optimistic treatment of phi cycles in constant propagation).
func (f *Flow) truth3(v ssa.Value, seen map[ssa.Value]bool) (val bool, known bool, cyc bool) {
	if _, isPhi := v.(*ssa.Phi); isPhi {
		// only phis can form cycles; a constant (one shared object) may legitimately arrive on several edges
		if seen[v] {
			return false, false, true
		}
		seen[v] = true
	}
	if f.assume != nil {
		if t, k := f.assume(v); k {
			return t, true, false
		}
	}
	switch x := v.(type) {
	case *ssa.Const:
		if x.Value != nil && x.Value.Kind() == constant.Bool {
			return constant.BoolVal(x.Value), true, false
		}
	case *ssa.UnOp:
		if x.Op == token.NOT {
			t, k, cy := f.truth3(x.X, seen)
			return !t, k, cy
		}
	case *ssa.Phi:
		if x.Type().String() != "bool" {
			return false, false, false
		}
		res, n := false, 0
		for i, e := range x.Edges {
			if !f.liveInto(x.Block(), i) {
				if x.Block() == f.start && f.startPred == nil {
					return false, false, false
				}
				continue
			}
			t, k, cy := f.truth3(e, seen)
			if cy {
				continue
			}
			if !k || (n > 0 && t != res) {
				return false, false, false
			}
			res = t
			n++
		}
		if n == 0 {
			return false, false, true
		}
		return res, true, false
	case *ssa.BinOp:
		if x.Op == token.EQL || x.Op == token.NEQ {
			for _, pair := range [][2]ssa.Value{{x.X, x.Y}, {x.Y, x.X}} {
				if IsNilConst(pair[1]) {
					switch f.Nilness(pair[0]) {
					case 1:
						return x.Op == token.NEQ, true, false
					case -1:
						return x.Op == token.EQL, true, false
					}
					return false, false, false
				}
			}
		}
	}
	return false, false, false
}

// Reaches reports whether instruction in lies in a reached block.
func (f *Flow) Reaches(in ssa.Instruction) bool { return in != nil && f.Reached[in.Block()] }

// ReachedReturns lists the return instructions in reached blocks.
func (f *Flow) ReachedReturns() []*ssa.Return {
	var out []*ssa.Return
	for _, b := range f.fn.Blocks {
		if !f.Reached[b] {
			continue
		}
		if r, ok := b.Instrs[len(b.Instrs)-1].(*ssa.Return); ok {
			out = append(out, r)
		}
	}
	return out
}

// ---------------------------------------------------------------------------------------------
// Control dependence: the branch conditions that decide whether a block executes at all (unlike the
// path alternatives above, conditions of earlier branches that have re-joined are not included).

var pdomCache = map[*ssa.Function]map[*ssa.BasicBlock]map[*ssa.BasicBlock]bool{}

func postDominators(fn *ssa.Function) map[*ssa.BasicBlock]map[*ssa.BasicBlock]bool {
	if c, ok := pdomCache[fn]; ok {
		return c
	}
	all := map[*ssa.BasicBlock]bool{}
	for _, b := range fn.Blocks {
		all[b] = true
	}
	pd := map[*ssa.BasicBlock]map[*ssa.BasicBlock]bool{}
	for _, b := range fn.Blocks {
		if len(b.Succs) == 0 {
			pd[b] = map[*ssa.BasicBlock]bool{b: true}
		} else {
			m := map[*ssa.BasicBlock]bool{}
			for k := range all {
				m[k] = true
			}
			pd[b] = m
		}
	}
	for changed := true; changed; {
		changed = false
		for i := len(fn.Blocks) - 1; i >= 0; i-- {
			b := fn.Blocks[i]
			if len(b.Succs) == 0 {
				continue
			}
			n := map[*ssa.BasicBlock]bool{}
			first := true
			for _, s := range b.Succs {
				if first {
					for k := range pd[s] {
						n[k] = true
					}
					first = false
				} else {
					for k := range n {
						if !pd[s][k] {
							delete(n, k)
						}
					}
				}
			}
			n[b] = true
			if len(n) != len(pd[b]) {
				pd[b] = n
				changed = true
			}
		}
	}
	pdomCache[fn] = pd
	return pd
}

// ControlConds returns the conditions b is (transitively) control dependent on, with the polarity that leads towards
// b. When such a condition tests a phi (a boolean or error variable assigned on several paths), the conditions that
// select among the phi's incoming edges are included as well.
func ControlConds(b *ssa.BasicBlock) []Cond {
	fn := b.Parent()
	pd := postDominators(fn)
	type key struct {
		a *ssa.BasicBlock
		i int
	}
	seen := map[key]bool{}
	seenBlk := map[*ssa.BasicBlock]bool{}
	var out []Cond
	var visit func(x *ssa.BasicBlock, depth int)
	var viaPhi func(v ssa.Value, depth int)
	visit = func(x *ssa.BasicBlock, depth int) {
		if seenBlk[x] || depth > 12 {
			return
		}
		seenBlk[x] = true
		for _, a := range fn.Blocks {
			if len(a.Succs) < 2 {
				continue
			}
			ifi, ok := a.Instrs[len(a.Instrs)-1].(*ssa.If)
			if !ok {
				continue
			}
			for i, s := range a.Succs {
				if !(s == x || pd[s][x]) {
					continue
				}
				if a != x && pd[a][x] {
					continue // x executes whichever way a branches
				}
				if seen[key{a, i}] {
					continue
				}
				seen[key{a, i}] = true
				out = append(out, Cond{V: ifi.Cond, Val: i == 0, If: ifi, LoopHeader: isLoopHeader(a)})
				viaPhi(ifi.Cond, depth+1)
				visit(a, depth+1)
			}
		}
	}
	seenVal := map[ssa.Value]bool{}
	viaPhi = func(v ssa.Value, depth int) {
		if v == nil || seenVal[v] || depth > 12 {
			return
		}
		seenVal[v] = true
		switch t := v.(type) {
		case *ssa.UnOp:
			viaPhi(t.X, depth)
		case *ssa.BinOp:
			viaPhi(t.X, depth)
			viaPhi(t.Y, depth)
		case *ssa.Phi:
			for i, e := range t.Edges {
				p := t.Block().Preds[i]
				// the edge p -> phi block itself
				if ifi, ok := p.Instrs[len(p.Instrs)-1].(*ssa.If); ok && len(p.Succs) == 2 && p.Succs[0] != p.Succs[1] {
					for si, s := range p.Succs {
						if s == t.Block() && !seen[key{p, si}] {
							seen[key{p, si}] = true
							out = append(out, Cond{V: ifi.Cond, Val: si == 0, If: ifi, LoopHeader: isLoopHeader(p)})
							viaPhi(ifi.Cond, depth+1)
						}
					}
				}
				visit(p, depth+1)
				if _, isC := e.(*ssa.Const); !isC {
					viaPhi(e, depth+1)
				}
			}
		}
	}
	visit(b, 0)
	return out
}

// Resolve follows phis whose live incoming edges all carry one and the same value.
func (f *Flow) Resolve(v ssa.Value) ssa.Value {
	for depth := 0; depth < 8; depth++ {
		p, ok := v.(*ssa.Phi)
		if !ok {
			return v
		}
		var only ssa.Value
		n := 0
		for i, e := range p.Edges {
			if !f.liveInto(p.Block(), i) {
				continue
			}
			if n == 0 || e != only {
				if n > 0 && e != only {
					return v
				}
				only = e
			}
			n++
		}
		if n == 0 || only == nil {
			return v
		}
		v = only
	}
	return v
}

// NilCanReach reports whether, within this flow, the returned value rv of ret can be the constant nil: a live phi edge
// carries nil, or (for a result held in a local cell) a store of nil that lies in the flow can reach the return. Used
// with a flow started where an error is known non-nil: "can that error have been cleared by the time we return?".
// origin is the instruction the flow logically starts at (stores that cannot be reached from it are ignored).
func (f *Flow) NilCanReach(rv ssa.Value, ret *ssa.Return, origin ssa.Instruction) bool {
	seen := map[ssa.Value]bool{}
	var walk func(v ssa.Value, depth int) bool
	walk = func(v ssa.Value, depth int) bool {
		if v == nil || seen[v] || depth > 8 {
			return false
		}
		seen[v] = true
		if IsNilConst(v) {
			return true
		}
		switch x := v.(type) {
		case *ssa.Phi:
			if !f.Reached[x.Block()] {
				return false
			}
			for i, e := range x.Edges {
				if f.liveInto(x.Block(), i) && walk(e, depth+1) {
					return true
				}
			}
		case *ssa.UnOp:
			if al, ok := x.X.(*ssa.Alloc); ok && x.Op == token.MUL && al.Referrers() != nil {
				for _, r := range *al.Referrers() {
					st, isSt := r.(*ssa.Store)
					if !isSt || st.Addr != ssa.Value(al) || !f.Reached[st.Block()] {
						continue
					}
					if origin != nil && !CanReach(origin, st) {
						continue
					}
					if !CanReach(st, ret) {
						continue
					}
					if walk(st.Val, depth+1) {
						return true
					}
				}
			}
		}
		return false
	}
	return walk(rv, 0)
}

// PossibleValues lists the values rv can hold at ret within this flow: through live phi edges and, for a result kept
// in a local cell, the stores of the flow that lie between origin and the return (flow-insensitive among those).
func (f *Flow) PossibleValues(rv ssa.Value, ret *ssa.Return, origin ssa.Instruction) []ssa.Value {
	var out []ssa.Value
	seen := map[ssa.Value]bool{}
	var walk func(v ssa.Value, depth int)
	walk = func(v ssa.Value, depth int) {
		if v == nil || seen[v] || depth > 8 {
			return
		}
		seen[v] = true
		switch x := v.(type) {
		case *ssa.Phi:
			if f.Reached[x.Block()] {
				for i, e := range x.Edges {
					if f.liveInto(x.Block(), i) {
						walk(e, depth+1)
					}
				}
				return
			}
		case *ssa.UnOp:
			if al, ok := x.X.(*ssa.Alloc); ok && x.Op == token.MUL && al.Referrers() != nil {
				for _, r := range *al.Referrers() {
					st, isSt := r.(*ssa.Store)
					if !isSt || st.Addr != ssa.Value(al) || !f.Reached[st.Block()] {
						continue
					}
					if origin != nil && !CanReach(origin, st) {
						continue
					}
					if !CanReach(st, ret) {
						continue
					}
					walk(st.Val, depth+1)
				}
				return
			}
		}
		out = append(out, v)
	}
	walk(rv, 0)
	return out
}

// Package an holds the shared analysis primitives and the obligation bookkeeping.
package an

import (
	"fmt"
	"go/token"
	"go/types"
	"path/filepath"
	"sort"
	"strings"

	"verifchk/internal/load"

	"golang.org/x/tools/go/packages"
	"golang.org/x/tools/go/ssa"
)

// Obligation is one decided instance of a rule on one construct.
type Obligation struct {
	Rule      string `json:"rule"`
	Construct string `json:"construct"`
	Pos       string `json:"pos"`
	OK        bool   `json:"ok"`
	Msg       string `json:"msg"`
	Known     bool   `json:"known,omitempty"`
}

func (o *Obligation) Key() string { return o.Rule + "|" + o.Construct }

type RuleInfo struct {
	ID       string `json:"id"`
	Doc      string `json:"doc"`
	Subjects int    `json:"subjects"`
	Min      int    `json:"min_instances"`
}

type Ctx struct {
	P     *load.Program
	Prog  *ssa.Program
	Fset  *token.FileSet
	Tier  string
	Obs   []*Obligation
	Rules map[string]*RuleInfo
	order []string

	FuncsAnalysed map[*ssa.Function]bool
	CallSites     int
	Assumptions   []string
	Allow         []string

	curRule string
	alias   map[string]string
	seen    map[string]int
	allFns  map[*ssa.Function]bool
}

func NewCtx(p *load.Program, tier string) *Ctx {
	return &Ctx{P: p, Prog: p.SSA, Fset: p.Fset, Tier: tier, Rules: map[string]*RuleInfo{},
		FuncsAnalysed: map[*ssa.Function]bool{}, seen: map[string]int{}}
}

func (c *Ctx) Thorough() bool { return c.Tier == "thorough" }

// Rule starts a rule; min is the minimal number of subjects (Subject calls) expected.
func (c *Ctx) Rule(id, doc string, min int) {
	if a, ok := c.alias[id]; ok {
		id = a
	}
	c.curRule = id
	if _, ok := c.Rules[id]; !ok {
		c.Rules[id] = &RuleInfo{ID: id, Doc: doc, Min: min}
		c.order = append(c.order, id)
	}
}

// As runs f with the rules it starts renamed: a rule that is a necessary condition of several properties is run
// under each of them with an id of that property (alias maps the rule's own id to the id used here).
func (c *Ctx) As(alias map[string]string, f func()) {
	old := c.alias
	c.alias = alias
	f()
	c.alias = old
}

func (c *Ctx) RuleList() []*RuleInfo {
	var out []*RuleInfo
	for _, id := range c.order {
		out = append(out, c.Rules[id])
	}
	return out
}

// Subject counts one resolved subject of the current rule.
func (c *Ctx) Subject() { c.Rules[c.curRule].Subjects++ }

func (c *Ctx) Assume(s string) {
	for _, a := range c.Assumptions {
		if a == s {
			return
		}
	}
	c.Assumptions = append(c.Assumptions, s)
}
func (c *Ctx) Allowed(s string) { c.Allow = append(c.Allow, s) }

func (c *Ctx) PosStr(p token.Pos) string {
	if !p.IsValid() {
		return "-"
	}
	pp := c.Fset.Position(p)
	rel, err := filepath.Rel(c.P.Repo, pp.Filename)
	if err != nil || strings.HasPrefix(rel, "..") {
		rel = pp.Filename
		if i := strings.Index(rel, "/pkg/mod/"); i >= 0 {
			rel = rel[i+9:]
		}
	}
	return fmt.Sprintf("%s:%d", rel, pp.Line)
}

// Ob records an obligation for the current rule. construct must be position independent.
func (c *Ctx) Ob(construct string, pos token.Pos, ok bool, format string, args ...any) {
	construct = strings.ReplaceAll(construct, " ", "_")
	key := c.curRule + "|" + construct
	c.seen[key]++
	if n := c.seen[key]; n > 1 {
		construct = fmt.Sprintf("%s#%d", construct, n)
	}
	c.Obs = append(c.Obs, &Obligation{Rule: c.curRule, Construct: construct, Pos: c.PosStr(pos), OK: ok,
		Msg: fmt.Sprintf(format, args...)})
}

// Lost records a lost anchor (a subject that could not be resolved) as a violated obligation.
func (c *Ctx) Lost(what string) {
	c.Ob("anchor:"+what, token.NoPos, false, "anchor lost: %s cannot be resolved in the current tree (rule cannot decide)", what)
}

// Finish adds floor obligations: a rule with fewer subjects than its floor fails.
func (c *Ctx) Finish() {
	for _, id := range c.order {
		r := c.Rules[id]
		if r.Subjects < r.Min {
			c.curRule = id
			c.Ob("floor", token.NoPos, false, "rule matched %d subjects, fewer than the %d confirmed by hand (anchor lost; rule would pass vacuously)", r.Subjects, r.Min)
		}
	}
}

// ---------------------------------------------------------------------------------------------
// lookup

func (c *Ctx) PkgPath(rel string) string {
	if rel == "" {
		return load.ModulePath
	}
	if strings.Contains(strings.SplitN(rel, "/", 2)[0], ".") {
		return rel // absolute import path of a dependency
	}
	return load.ModulePath + "/" + rel
}

func (c *Ctx) Pkg(rel string) *ssa.Package {
	pk := c.P.ByPath[c.PkgPath(rel)]
	if pk == nil || pk.Types == nil {
		return nil
	}
	return c.Prog.Package(pk.Types)
}

func (c *Ctx) TPkg(rel string) *packages.Package { return c.P.ByPath[c.PkgPath(rel)] }

// Fn finds a package-level function or a method: "newEnvironment", "Environment.TryTransition"
// (method on T or *T). Returns nil if absent.
func (c *Ctx) Fn(rel, name string) *ssa.Function {
	if f := c.fnExact(rel, name); f != nil {
		return f
	}
	// the function may have been turned into a method, moved to another receiver type of the same package, or a method
	// into a plain function: accept a declaration of the same bare name if it is unique in the package
	p := c.Pkg(rel)
	if p == nil {
		return nil
	}
	bare := name
	if i := strings.Index(name, "."); i >= 0 {
		bare = name[i+1:]
	}
	var cands []*ssa.Function
	if f := p.Func(bare); f != nil && f.Blocks != nil {
		cands = append(cands, f)
	}
	for _, m := range p.Members {
		t, ok := m.(*ssa.Type)
		if !ok {
			continue
		}
		if named, isN := t.Type().(*types.Named); isN && named.TypeParams().Len() > 0 {
			continue
		}
		seen := map[*ssa.Function]bool{}
		for _, ty := range []types.Type{t.Type(), types.NewPointer(t.Type())} {
			ms := c.Prog.MethodSets.MethodSet(ty)
			for i := 0; i < ms.Len(); i++ {
				sel := ms.At(i)
				if sel.Obj().Name() != bare || sel.Obj().Pkg() != p.Pkg {
					continue
				}
				if f := c.Prog.MethodValue(sel); f != nil && f.Synthetic == "" && f.Blocks != nil && !seen[f] {
					seen[f] = true
					cands = append(cands, f)
				}
			}
		}
	}
	uniq := map[*ssa.Function]bool{}
	for _, f := range cands {
		uniq[f] = true
	}
	if len(uniq) == 1 {
		for f := range uniq {
			c.Assume(fmt.Sprintf("anchor %s.%s resolved by its bare name to %s (moved between function and method forms)", rel, name, c.RelName(f)))
			return c.mark(f)
		}
	}
	return nil
}

func (c *Ctx) fnExact(rel, name string) *ssa.Function {
	p := c.Pkg(rel)
	if p == nil {
		return nil
	}
	if i := strings.Index(name, "."); i >= 0 {
		tn, mn := name[:i], name[i+1:]
		obj := p.Pkg.Scope().Lookup(tn)
		if obj == nil {
			return nil
		}
		t, ok := obj.(*types.TypeName)
		if !ok {
			return nil
		}
		if named, ok := t.Type().(*types.Named); ok && named.TypeParams().Len() > 0 {
			// generic type: use the generic origin's body
			for i := 0; i < named.NumMethods(); i++ {
				if m := named.Method(i); m.Name() == mn {
					return c.mark(c.Prog.FuncValue(m))
				}
			}
			return nil
		}
		for _, ty := range []types.Type{t.Type(), types.NewPointer(t.Type())} {
			ms := c.Prog.MethodSets.MethodSet(ty)
			for i := 0; i < ms.Len(); i++ {
				sel := ms.At(i)
				if sel.Obj().Name() == mn && sel.Obj().Pkg() == p.Pkg {
					if f := c.Prog.MethodValue(sel); f != nil {
						// skip promoted wrappers: want declared method
						if f.Synthetic == "" {
							return c.mark(f)
						}
					}
				}
			}
		}
		return nil
	}
	return c.mark(p.Func(name))
}

// MustFn is Fn that records a lost anchor under the current rule when missing.
func (c *Ctx) MustFn(rel, name string) *ssa.Function {
	f := c.Fn(rel, name)
	if f == nil {
		c.Lost(rel + "." + name)
	}
	return f
}

func (c *Ctx) mark(f *ssa.Function) *ssa.Function {
	if f != nil {
		c.FuncsAnalysed[f] = true
	}
	return f
}

func (c *Ctx) Mark(f *ssa.Function) { c.mark(f) }

// NamedType returns the named type rel.name.
func (c *Ctx) NamedType(rel, name string) *types.Named {
	pk := c.TPkg(rel)
	if pk == nil || pk.Types == nil {
		return nil
	}
	obj := pk.Types.Scope().Lookup(name)
	if obj == nil {
		return nil
	}
	n, _ := obj.Type().(*types.Named)
	return n
}

// Field returns the *types.Var of a struct field.
func (c *Ctx) Field(rel, typ, field string) *types.Var {
	n := c.NamedType(rel, typ)
	if n == nil {
		return nil
	}
	st, ok := n.Underlying().(*types.Struct)
	if !ok {
		return nil
	}
	for i := 0; i < st.NumFields(); i++ {
		if st.Field(i).Name() == field {
			return st.Field(i)
		}
	}
	return nil
}

// ModuleFuncs returns every source function (incl. anonymous ones and methods) of the module's
// non-generated, non-test code, sorted by position.
func (c *Ctx) ModuleFuncs() []*ssa.Function {
	if c.allFns == nil {
		c.allFns = map[*ssa.Function]bool{}
		for _, ip := range c.P.Init {
			if ip.Types == nil {
				continue
			}
			sp := c.Prog.Package(ip.Types)
			if sp == nil {
				continue
			}
			for _, m := range sp.Members {
				switch m := m.(type) {
				case *ssa.Function:
					c.addFn(m)
				case *ssa.Type:
					for _, ty := range []types.Type{m.Type(), types.NewPointer(m.Type())} {
						ms := c.Prog.MethodSets.MethodSet(ty)
						for i := 0; i < ms.Len(); i++ {
							if f := c.Prog.MethodValue(ms.At(i)); f != nil && f.Synthetic == "" {
								c.addFn(f)
							}
						}
					}
				}
			}
		}
	}
	out := make([]*ssa.Function, 0, len(c.allFns))
	for f := range c.allFns {
		out = append(out, f)
	}
	sort.Slice(out, func(i, j int) bool {
		if out[i].Pos() != out[j].Pos() {
			return out[i].Pos() < out[j].Pos()
		}
		return out[i].String() < out[j].String()
	})
	return out
}

func (c *Ctx) addFn(f *ssa.Function) {
	if f == nil || c.allFns[f] || f.Blocks == nil {
		return
	}
	if f.Pkg == nil || !strings.HasPrefix(f.Pkg.Pkg.Path(), load.ModulePath) {
		return
	}
	if c.Generated(f) {
		return
	}
	if strings.HasSuffix(f.Name(), "_inlexpanded") {
		return // a helper whose every use was expanded in place (internal/inl): its body lives on in its callers
	}
	c.allFns[f] = true
	for _, a := range f.AnonFuncs {
		c.addFn(a)
	}
}

// Generated reports whether f lives in a *.pb.go / generated file.
func (c *Ctx) Generated(f *ssa.Function) bool {
	p := f.Pos()
	if !p.IsValid() {
		if f.Parent() != nil {
			return c.Generated(f.Parent())
		}
		return f.Synthetic != ""
	}
	fn := c.Fset.Position(p).Filename
	return strings.HasSuffix(fn, ".pb.go") || strings.HasSuffix(fn, "_string.go") || strings.HasSuffix(fn, ".pb.gw.go")
}

// RelName is the repository-relative display name of a function: core/environment.(*Environment).TryTransition
func (c *Ctx) RelName(f *ssa.Function) string {
	if f == nil {
		return "<nil>"
	}
	s := f.String()
	s = strings.ReplaceAll(s, load.ModulePath+"/", "")
	return s
}

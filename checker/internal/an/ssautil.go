package an

import (
	"fmt"
	"go/constant"
	"go/token"
	"go/types"
	"sort"
	"strings"

	"verifchk/internal/load"

	"golang.org/x/tools/go/ssa"
)

// ---------------------------------------------------------------------------------------------
// instructions and calls

// Instrs calls f for every instruction of fn (not of nested closures).
func Instrs(fn *ssa.Function, f func(ssa.Instruction)) {
	for _, b := range fn.Blocks {
		for _, in := range b.Instrs {
			f(in)
		}
	}
}

// WithAnon returns fn and all (transitively) nested anonymous functions.
func WithAnon(fn *ssa.Function) []*ssa.Function {
	out := []*ssa.Function{fn}
	for _, a := range fn.AnonFuncs {
		out = append(out, WithAnon(a)...)
	}
	return out
}

// CalleeName names the callee of a call: static callee full name with the module prefix
// stripped, e.g. "(*core/environment.Environment).TryTransition", "(*github.com/looplab/fsm.FSM).Event";
// for interface invokes "(iface pkg.T).Method"; "" for dynamic calls of function values.
func CalleeName(cc *ssa.CallCommon) string {
	if cc.IsInvoke() {
		return "(iface " + short(types.TypeString(cc.Value.Type(), nil)) + ")." + cc.Method.Name()
	}
	if f := cc.StaticCallee(); f != nil {
		if f.Origin() != nil {
			f = f.Origin()
		}
		return short(f.String())
	}
	if b, ok := cc.Value.(*ssa.Builtin); ok {
		return "builtin." + b.Name()
	}
	return ""
}

func short(s string) string { return strings.ReplaceAll(s, load.ModulePath+"/", "") }

// Short strips the module prefix.
func Short(s string) string { return short(s) }

// MethodName returns the bare method/function name of the callee ("" for dynamic).
func MethodName(cc *ssa.CallCommon) string {
	if cc.IsInvoke() {
		return cc.Method.Name()
	}
	if f := cc.StaticCallee(); f != nil {
		if f.Origin() != nil {
			f = f.Origin()
		}
		return f.Name()
	}
	if b, ok := cc.Value.(*ssa.Builtin); ok {
		return b.Name()
	}
	return ""
}

// Calls returns every call instruction (call, go, defer) in fn whose callee name satisfies pred.
func Calls(fn *ssa.Function, pred func(name string, ci ssa.CallInstruction) bool) []ssa.CallInstruction {
	var out []ssa.CallInstruction
	Instrs(fn, func(in ssa.Instruction) {
		if ci, ok := in.(ssa.CallInstruction); ok {
			if pred(CalleeName(ci.Common()), ci) {
				out = append(out, ci)
			}
		}
	})
	return out
}

// CallsNamed returns the calls in fn whose callee name equals one of names.
func CallsNamed(fn *ssa.Function, names ...string) []ssa.CallInstruction {
	return Calls(fn, func(n string, _ ssa.CallInstruction) bool {
		for _, x := range names {
			if n == x {
				return true
			}
		}
		return false
	})
}

// CallsSuffix returns calls whose callee name ends in suffix (e.g. ").Cancel").
func CallsSuffix(fn *ssa.Function, suffix string) []ssa.CallInstruction {
	return Calls(fn, func(n string, _ ssa.CallInstruction) bool { return strings.HasSuffix(n, suffix) })
}

// Args returns the argument list including the receiver as element 0 for method calls (both
// static methods and interface invokes).
func Args(cc *ssa.CallCommon) []ssa.Value {
	if cc.IsInvoke() {
		return append([]ssa.Value{cc.Value}, cc.Args...)
	}
	return cc.Args
}

// ConstString returns the constant string value of v (through conversions / MakeInterface).
func ConstString(v ssa.Value) (string, bool) {
	v = Strip(v)
	if c, ok := v.(*ssa.Const); ok && c.Value != nil && c.Value.Kind() == constant.String {
		return constant.StringVal(c.Value), true
	}
	return "", false
}

// ConstInt returns the constant integer value of v.
func ConstInt(v ssa.Value) (int64, bool) {
	v = Strip(v)
	if c, ok := v.(*ssa.Const); ok && c.Value != nil && c.Value.Kind() == constant.Int {
		i, ok := constant.Int64Val(c.Value)
		return i, ok
	}
	return 0, false
}

// Int64Of converts a constant value to int64 if it is an integer constant (constant.Int64Val panics on other kinds).
func Int64Of(v constant.Value) (int64, bool) {
	if v == nil || v.Kind() != constant.Int {
		return 0, false
	}
	return constant.Int64Val(v)
}

// IsNilConst reports whether v is the nil constant.
func IsNilConst(v ssa.Value) bool {
	c, ok := v.(*ssa.Const)
	return ok && c.Value == nil
}

// Strip removes value-preserving wrappers.
func Strip(v ssa.Value) ssa.Value {
	for {
		switch x := v.(type) {
		case *ssa.ChangeType:
			v = x.X
		case *ssa.MakeInterface:
			v = x.X
		case *ssa.ChangeInterface:
			v = x.X
		case *ssa.Convert:
			v = x.X
		default:
			return v
		}
	}
}

// ---------------------------------------------------------------------------------------------
// order within a function

func idx(in ssa.Instruction) int {
	for i, x := range in.Block().Instrs {
		if x == in {
			return i
		}
	}
	return -1
}

// Dominates reports whether instruction a dominates instruction b (same function).
func Dominates(a, b ssa.Instruction) bool {
	if a.Block() == b.Block() {
		return idx(a) < idx(b)
	}
	return a.Block().Dominates(b.Block())
}

// reachableBlocks returns the set of blocks reachable from b by ≥1 edge, not passing through
// any block in stop (stop blocks themselves are not entered).
func reachableBlocks(b *ssa.BasicBlock, stop map[*ssa.BasicBlock]bool) map[*ssa.BasicBlock]bool {
	seen := map[*ssa.BasicBlock]bool{}
	var walk func(x *ssa.BasicBlock)
	walk = func(x *ssa.BasicBlock) {
		for _, s := range x.Succs {
			if seen[s] || stop[s] {
				continue
			}
			seen[s] = true
			walk(s)
		}
	}
	walk(b)
	return seen
}

// CanReach reports whether control can flow from just after a to b.
func CanReach(a, b ssa.Instruction) bool {
	if a.Block() == b.Block() && idx(a) < idx(b) {
		return true
	}
	return reachableBlocks(a.Block(), nil)[b.Block()]
}

// CanReachAvoiding reports whether control can flow from just after a to b without executing
// any instruction of avoid.
func CanReachAvoiding(a, b ssa.Instruction, avoid []ssa.Instruction) bool {
	return pathExists(a, func(in ssa.Instruction) bool { return in == b }, avoid)
}

// pathExists: is there a path starting just after `from` that reaches an instruction satisfying
// target without first executing an instruction in avoid?
func pathExists(from ssa.Instruction, target func(ssa.Instruction) bool, avoid []ssa.Instruction) bool {
	av := map[ssa.Instruction]bool{}
	for _, x := range avoid {
		av[x] = true
	}
	// scan rest of from's block
	scan := func(b *ssa.BasicBlock, start int) (found bool, blocked bool) {
		for i := start; i < len(b.Instrs); i++ {
			in := b.Instrs[i]
			if target(in) {
				return true, false
			}
			if av[in] {
				return false, true
			}
		}
		return false, false
	}
	if f, bl := scan(from.Block(), idx(from)+1); f {
		return true
	} else if bl {
		return false
	}
	seen := map[*ssa.BasicBlock]bool{}
	var walk func(b *ssa.BasicBlock) bool
	walk = func(b *ssa.BasicBlock) bool {
		for _, s := range b.Succs {
			if seen[s] {
				continue
			}
			seen[s] = true
			f, bl := scan(s, 0)
			if f {
				return true
			}
			if bl {
				continue
			}
			if walk(s) {
				return true
			}
		}
		return false
	}
	return walk(from.Block())
}

// PathFromEntryAvoiding reports whether some path from function entry reaches an instruction
// satisfying target without executing any of avoid.
func PathFromEntryAvoiding(fn *ssa.Function, target func(ssa.Instruction) bool, avoid []ssa.Instruction) bool {
	if len(fn.Blocks) == 0 {
		return false
	}
	av := map[ssa.Instruction]bool{}
	for _, x := range avoid {
		av[x] = true
	}
	seen := map[*ssa.BasicBlock]bool{}
	var walk func(b *ssa.BasicBlock) bool
	walk = func(b *ssa.BasicBlock) bool {
		if seen[b] {
			return false
		}
		seen[b] = true
		for _, in := range b.Instrs {
			if target(in) {
				return true
			}
			if av[in] {
				return false
			}
		}
		for _, s := range b.Succs {
			if walk(s) {
				return true
			}
		}
		return false
	}
	return walk(fn.Blocks[0])
}

// IsExit reports whether in is a normal function exit (Return). Panics are not normal exits.
func IsExit(in ssa.Instruction) bool {
	_, ok := in.(*ssa.Return)
	return ok
}

// MustPassBeforeExit reports whether every path from just after `from` to a normal exit executes
// one of `through`. (Paths ending in panic are ignored.)
func MustPassBeforeExit(from ssa.Instruction, through []ssa.Instruction) bool {
	return !pathExists(from, IsExit, through)
}

// FirstExitAvoiding returns a Return reachable from `from` avoiding `through` (for diagnostics).
func FirstExitAvoiding(from ssa.Instruction, through []ssa.Instruction) ssa.Instruction {
	var hit ssa.Instruction
	pathExists(from, func(in ssa.Instruction) bool {
		if IsExit(in) {
			hit = in
			return true
		}
		return false
	}, through)
	return hit
}

// ---------------------------------------------------------------------------------------------
// guards

// Cond is a branch condition known to hold (Val==true) or not hold at some point.
type Cond struct {
	V   ssa.Value
	Val bool
	If  *ssa.If
	// LoopExit: the condition is the exit test of a loop (the If sits on a cycle and the taken
	// successor leaves that cycle). Such conditions say "the loop ran to completion".
	LoopExit bool
	// LoopHeader: the If is the condition of a loop header block (for.loop, range*.loop): either
	// polarity is loop control ("another element exists" / "the loop ran to completion").
	LoopHeader bool
}

// Guards returns the branch conditions that are known on entry to block b: for every If whose
// one successor dominates b while the other does not reach... we use the standard approximation:
// walk up the dominator tree; for each idom d ending in If, if exactly one successor s of d
// dominates b (and s has d as single predecessor) the condition has that polarity.
func Guards(b *ssa.BasicBlock) []Cond {
	var out []Cond
	for x := b; x != nil; x = x.Idom() {
		d := x.Idom()
		if d == nil {
			break
		}
		ifi, ok := d.Instrs[len(d.Instrs)-1].(*ssa.If)
		if !ok {
			continue
		}
		t, f := d.Succs[0], d.Succs[1]
		td := t.Dominates(b) && len(t.Preds) == 1
		fd := f.Dominates(b) && len(f.Preds) == 1
		if td && !fd {
			out = append(out, Cond{ifi.Cond, true, ifi, isLoopHeader(d) && !BlockReaches(t, d), isLoopHeader(d)})
		} else if fd && !td {
			out = append(out, Cond{ifi.Cond, false, ifi, isLoopHeader(d) && !BlockReaches(f, d), isLoopHeader(d)})
		}
	}
	return out
}

// isLoopHeader: d has a back-edge predecessor (a predecessor it dominates).
func isLoopHeader(d *ssa.BasicBlock) bool {
	// only the loop's own condition block (for.loop, rangeindex.loop, rangeiter.loop, ...): an
	// early `if c { return }` at the top of a `for { }` body is an ordinary guard.
	if !strings.HasSuffix(d.Comment, ".loop") {
		return false
	}
	for _, p := range d.Preds {
		if d.Dominates(p) {
			return true
		}
	}
	return false
}

// Atom is a primitive fact derived from a condition: the expression X op Y holds.
type Atom struct {
	Op   token.Token // EQL, NEQ, LSS, ... or ILLEGAL for plain boolean value
	X, Y ssa.Value   // Y nil for plain boolean
	Val  bool        // for plain boolean: value of X
}

// Atoms decomposes the known guards of b into atoms: handles !x, x&&y (true side), x||y (false
// side) as lowered by go/ssa into phis of constants is NOT handled (ssa lowers && into
// control flow, so they appear as nested Ifs naturally).
func Atoms(b *ssa.BasicBlock) []Atom {
	var out []Atom
	for _, g := range Guards(b) {
		if g.LoopExit || g.LoopHeader {
			continue
		}
		out = append(out, condAtoms(g.V, g.Val)...)
	}
	return out
}

// CondAtoms decomposes one branch condition known to have value val into atoms.
func CondAtoms(v ssa.Value, val bool) []Atom { return condAtoms(v, val) }

func condAtoms(v ssa.Value, val bool) []Atom {
	switch x := v.(type) {
	case *ssa.Phi:
		// value-context short circuit: `a && b` is phi[false (from a's block), b]; known true => a and b true.
		// `a || b` is phi[true, b]; known false => a and b false.
		if (x.Comment == "&&" && val) || (x.Comment == "||" && !val) {
			var out []Atom
			for i, e := range x.Edges {
				if c, isC := e.(*ssa.Const); isC && c.Value != nil {
					// the short-circuiting operand: the If condition of that predecessor
					p := x.Block().Preds[i]
					if ifi, ok := p.Instrs[len(p.Instrs)-1].(*ssa.If); ok {
						out = append(out, condAtoms(ifi.Cond, val)...)
					}
					continue
				}
				out = append(out, condAtoms(e, val)...)
			}
			return out
		}
	case *ssa.UnOp:
		if x.Op == token.NOT {
			return condAtoms(x.X, !val)
		}
	case *ssa.BinOp:
		op := x.Op
		if !val {
			op = negate(op)
		}
		if op != token.ILLEGAL {
			return []Atom{{Op: op, X: x.X, Y: x.Y}}
		}
	}
	return []Atom{{Op: token.ILLEGAL, X: v, Val: val}}
}

func negate(op token.Token) token.Token {
	switch op {
	case token.EQL:
		return token.NEQ
	case token.NEQ:
		return token.EQL
	case token.LSS:
		return token.GEQ
	case token.GEQ:
		return token.LSS
	case token.GTR:
		return token.LEQ
	case token.LEQ:
		return token.GTR
	}
	return token.ILLEGAL
}

// EdgeAtoms returns the atoms known when control flows along the edge from->to, including the
// guards of from.
func EdgeAtoms(from, to *ssa.BasicBlock) []Atom {
	out := Atoms(from)
	if ifi, ok := from.Instrs[len(from.Instrs)-1].(*ssa.If); ok {
		if from.Succs[0] == to && from.Succs[1] != to {
			out = append(out, condAtoms(ifi.Cond, true)...)
		} else if from.Succs[1] == to && from.Succs[0] != to {
			out = append(out, condAtoms(ifi.Cond, false)...)
		}
	}
	return out
}

// KnownNonNil reports whether at block b value v is known != nil by a dominating guard.
func KnownNonNil(b *ssa.BasicBlock, v ssa.Value) bool {
	for _, a := range Atoms(b) {
		if a.Op == token.NEQ && ((SameValue(a.X, v) && IsNilConst(a.Y)) || (SameValue(a.Y, v) && IsNilConst(a.X))) {
			return true
		}
	}
	return false
}

// SameValue: identical SSA value, or two loads/field reads that are syntactically the same
// access path on the same roots with no intervening analysis (used for guards on fields, where
// go/ssa emits a fresh load per read). It is deliberately conservative.
func SameValue(a, b ssa.Value) bool {
	if a == b {
		return true
	}
	pa, oka := AccessPath(a)
	pb, okb := AccessPath(b)
	return oka && okb && pa == pb
}

// AccessPath renders v as root.field.field / *root when it is a pure chain of field reads,
// derefs of allocs/params/freevars; ok=false otherwise.
func AccessPath(v ssa.Value) (string, bool) {
	switch x := v.(type) {
	case *ssa.Parameter:
		return "param:" + x.Name(), true
	case *ssa.FreeVar:
		return "free:" + x.Name(), true
	case *ssa.Alloc:
		return "alloc:" + x.Name() + "@" + x.Comment, true
	case *ssa.Global:
		return "global:" + x.String(), true
	case *ssa.UnOp:
		if x.Op == token.MUL {
			p, ok := AccessPath(x.X)
			return "*" + p, ok
		}
	case *ssa.FieldAddr:
		p, ok := AccessPath(x.X)
		return p + ".&" + fieldName(x.X.Type(), x.Field), ok
	case *ssa.Field:
		p, ok := AccessPath(x.X)
		return p + "." + fieldName(x.X.Type(), x.Field), ok
	case *ssa.Const:
		return "const:" + x.String(), true
	case *ssa.ChangeType:
		return AccessPath(x.X)
	}
	return "", false
}

func fieldName(t types.Type, i int) string {
	if p, ok := t.Underlying().(*types.Pointer); ok {
		t = p.Elem()
	}
	if st, ok := t.Underlying().(*types.Struct); ok && i < st.NumFields() {
		return st.Field(i).Name()
	}
	return "?"
}

// FieldOf returns the struct field variable addressed/read by v (FieldAddr, Field, or a load of
// a FieldAddr), or nil.
func FieldOf(v ssa.Value) *types.Var {
	switch x := v.(type) {
	case *ssa.UnOp:
		if x.Op == token.MUL {
			return FieldOf(x.X)
		}
	case *ssa.FieldAddr:
		return structField(x.X.Type(), x.Field)
	case *ssa.Field:
		return structField(x.X.Type(), x.Field)
	}
	return nil
}

func structField(t types.Type, i int) *types.Var {
	if p, ok := t.Underlying().(*types.Pointer); ok {
		t = p.Elem()
	}
	if st, ok := t.Underlying().(*types.Struct); ok && i < st.NumFields() {
		return st.Field(i)
	}
	return nil
}

// FieldBase returns the struct value/pointer whose field v reads.
func FieldBase(v ssa.Value) ssa.Value {
	switch x := v.(type) {
	case *ssa.UnOp:
		if x.Op == token.MUL {
			return FieldBase(x.X)
		}
	case *ssa.FieldAddr:
		return x.X
	case *ssa.Field:
		return x.X
	}
	return nil
}

// ---------------------------------------------------------------------------------------------
// closures

// ClosureFn returns the function of a MakeClosure value or a plain *ssa.Function value.
func ClosureFn(v ssa.Value) *ssa.Function {
	switch x := v.(type) {
	case *ssa.MakeClosure:
		return x.Fn.(*ssa.Function)
	case *ssa.Function:
		return x
	case *ssa.ChangeType:
		return ClosureFn(x.X)
	}
	return nil
}

// GoClosures returns (go-instruction, closure body) for every `go func(){..}()` / `go f()` in fn.
func GoClosures(fn *ssa.Function) (out []struct {
	Go *ssa.Go
	Fn *ssa.Function
}) {
	Instrs(fn, func(in ssa.Instruction) {
		if g, ok := in.(*ssa.Go); ok {
			var f *ssa.Function
			if g.Call.IsInvoke() {
				return
			}
			f = ClosureFn(g.Call.Value)
			if f == nil {
				f = g.Call.StaticCallee()
			}
			if f != nil {
				out = append(out, struct {
					Go *ssa.Go
					Fn *ssa.Function
				}{g, f})
			}
		}
	})
	return
}

// MapLiteralClosures finds closures stored with constant string keys into a map of the named
// type (e.g. fsm.Callbacks) inside fn: key -> closure function.
func MapLiteralClosures(fn *ssa.Function, mapTypeSuffix string) map[string]*ssa.Function {
	out := map[string]*ssa.Function{}
	Instrs(fn, func(in ssa.Instruction) {
		mu, ok := in.(*ssa.MapUpdate)
		if !ok {
			return
		}
		if !strings.HasSuffix(mu.Map.Type().String(), mapTypeSuffix) {
			return
		}
		k, ok := ConstString(mu.Key)
		if !ok {
			return
		}
		if f := ClosureFn(mu.Value); f != nil {
			out[k] = f
		}
	})
	return out
}

// BlockReaches reports whether b is reachable from a by >=1 edge.
func BlockReaches(a, b *ssa.BasicBlock) bool { return reachableBlocks(a, nil)[b] }

// InLoop reports whether block b lies on a cycle of the CFG.
func InLoop(b *ssa.BasicBlock) bool {
	return reachableBlocks(b, nil)[b]
}

// Returns lists the return instructions of fn.
func Returns(fn *ssa.Function) []*ssa.Return {
	var out []*ssa.Return
	Instrs(fn, func(in ssa.Instruction) {
		if r, ok := in.(*ssa.Return); ok {
			if fn.Recover != nil && r.Block() == fn.Recover {
				return // the synthetic exit taken after a recovered panic (functions with defer): not a path of the source
			}
			out = append(out, r)
		}
	})
	return out
}

// Site is a call site inside a module function.
type Site struct {
	Fn   *ssa.Function
	Call ssa.CallInstruction
}

// SitesOf returns every call site in the module's source functions whose callee name satisfies
// pred (static callees and interface invokes).
func (c *Ctx) SitesOf(pred func(name string) bool) []Site {
	var out []Site
	names := map[string]bool{}
	for _, f := range c.ModuleFuncs() {
		for _, ci := range Calls(f, func(n string, _ ssa.CallInstruction) bool { return pred(n) }) {
			out = append(out, Site{f, ci})
			names[CalleeName(ci.Common())] = true
			c.CallSites++
		}
	}
	if c.Thorough() && c.curRule != "" {
		// who-may-call closure: no call through a function value / bound method / other interface
		// may reach the protected callee behind the rule's back
		routes := c.DynRoutes(pred)
		for _, r := range routes {
			c.CallSites++
			c.Ob("dynamic-call|"+short(r.Callee.String())+"|"+c.RelName(OutermostParent(r.Fn)), r.Call.Pos(), false,
				"%s can be invoked from here through a function value or interface (VTA call graph); the rule only checks statically resolved call sites, so this call is undecided", short(r.Callee.String()))
		}
		if len(routes) == 0 {
			var ns []string
			for n := range names {
				ns = append(ns, n)
			}
			sort.Strings(ns)
			for _, n := range ns {
				c.Ob("no-dynamic-route|"+n, token.NoPos, true, "VTA call graph: no call through a function value or interface reaches %s from module code; the statically resolved sites are all its callers", n)
			}
		}
	}
	return out
}

// SitesNamed returns call sites of callees with exactly one of the given names.
func (c *Ctx) SitesNamed(names ...string) []Site {
	return c.SitesOf(func(n string) bool {
		for _, x := range names {
			if n == x {
				return true
			}
		}
		return false
	})
}

// KnownTrue reports whether value v (a bool) is known true on entry to block b.
func KnownTrue(b *ssa.BasicBlock, v ssa.Value) bool { return knownBool(b, v, true) }

// KnownFalse reports whether value v (a bool) is known false on entry to block b.
func KnownFalse(b *ssa.BasicBlock, v ssa.Value) bool { return knownBool(b, v, false) }

func knownBool(b *ssa.BasicBlock, v ssa.Value, want bool) bool {
	for _, a := range Atoms(b) {
		if a.Op == token.ILLEGAL && a.X == v && a.Val == want {
			return true
		}
	}
	return false
}

// SameVar: a and b denote the same program variable at their respective points: identical SSA
// value, loads of the same cell, or equal pure access paths.
func SameVar(a, b ssa.Value) bool {
	a, b = Strip(a), Strip(b)
	if a == b {
		return true
	}
	ua, oka := a.(*ssa.UnOp)
	ub, okb := b.(*ssa.UnOp)
	if oka && okb && ua.Op == token.MUL && ub.Op == token.MUL && ua.X == ub.X {
		return true
	}
	// &x vs load x
	if oka && ua.Op == token.MUL && ua.X == b {
		return true
	}
	if okb && ub.Op == token.MUL && ub.X == a {
		return true
	}
	return SameValue(a, b)
}

// EnclosingName renders the function with its outermost named parent: "core/task.(*schedulerState).resourceOffers$1$2" -> keeps as is.
func OutermostParent(f *ssa.Function) *ssa.Function {
	for f.Parent() != nil {
		f = f.Parent()
	}
	return f
}

// ErrTests returns the If instructions that test value v against nil, where the tested operand
// is v itself or a load of a local cell whose reaching store (same block, latest before the
// load) stored v. For each, NonNilSucc is the successor taken when v != nil.
type ErrTest struct {
	If         *ssa.If
	NonNilSucc *ssa.BasicBlock
	NilSucc    *ssa.BasicBlock
}

func ErrTests(v ssa.Value) []ErrTest {
	fn := v.(ssa.Instruction).Parent()
	var out []ErrTest
	Instrs(fn, func(in ssa.Instruction) {
		ifi, ok := in.(*ssa.If)
		if !ok {
			return
		}
		bo, ok := ifi.Cond.(*ssa.BinOp)
		if !ok || (bo.Op != token.NEQ && bo.Op != token.EQL) {
			return
		}
		var x ssa.Value
		switch {
		case IsNilConst(bo.Y):
			x = bo.X
		case IsNilConst(bo.X):
			x = bo.Y
		default:
			return
		}
		if !carries(x, v) {
			return
		}
		t := ErrTest{If: ifi}
		if bo.Op == token.NEQ {
			t.NonNilSucc, t.NilSucc = ifi.Block().Succs[0], ifi.Block().Succs[1]
		} else {
			t.NonNilSucc, t.NilSucc = ifi.Block().Succs[1], ifi.Block().Succs[0]
		}
		out = append(out, t)
	})
	return out
}

// carries: x is v, or x is a load of a cell whose latest preceding store in the same block (or in
// the unique chain of single-predecessor blocks) stored v.
func carries(x, v ssa.Value) bool {
	if Strip(x) == v {
		return true
	}
	u, ok := x.(*ssa.UnOp)
	if !ok || u.Op != token.MUL {
		return false
	}
	cell := u.X
	b := u.Block()
	i := idx(u) - 1
	for hops := 0; hops < 4; hops++ {
		for ; i >= 0; i-- {
			if st, ok := b.Instrs[i].(*ssa.Store); ok && st.Addr == cell {
				return Strip(st.Val) == v
			}
		}
		if len(b.Preds) != 1 {
			return false
		}
		b = b.Preds[0]
		i = len(b.Instrs) - 1
	}
	return false
}

// AllPathsReturnAvoiding reports whether every path from the start of block b reaches a Return
// without executing any instruction of avoid and without entering a cycle forever (cycles are
// allowed as long as no avoid instruction is on them).
func AllPathsReturnAvoiding(b *ssa.BasicBlock, avoid []ssa.Instruction) bool {
	av := map[ssa.Instruction]bool{}
	for _, x := range avoid {
		av[x] = true
	}
	seen := map[*ssa.BasicBlock]bool{}
	ok := true
	var walk func(x *ssa.BasicBlock)
	walk = func(x *ssa.BasicBlock) {
		if seen[x] || !ok {
			return
		}
		seen[x] = true
		for _, in := range x.Instrs {
			if av[in] {
				ok = false
				return
			}
		}
		for _, s := range x.Succs {
			walk(s)
		}
	}
	walk(b)
	return ok
}

// ReachableCut reports whether target is reachable from fn's entry when the CFG edges for which
// cut(from, succIndex) is true are removed.
func ReachableCut(fn *ssa.Function, target ssa.Instruction, cut func(from *ssa.BasicBlock, succ int) bool) bool {
	if len(fn.Blocks) == 0 {
		return false
	}
	seen := map[*ssa.BasicBlock]bool{}
	var walk func(b *ssa.BasicBlock) bool
	walk = func(b *ssa.BasicBlock) bool {
		if seen[b] {
			return false
		}
		seen[b] = true
		if b == target.Block() {
			return true
		}
		for i, s := range b.Succs {
			if cut(b, i) {
				continue
			}
			if walk(s) {
				return true
			}
		}
		return false
	}
	return walk(fn.Blocks[0])
}

// CondEdge describes, for an If block whose condition is (a possibly negated) `pred(v)`, which
// successor index is taken when pred holds.
// BoolCondEdge: cond is call/value v or !v; returns (v, succIndexWhenTrue, ok).
func BoolCondEdge(b *ssa.BasicBlock) (ssa.Value, int, bool) {
	if len(b.Instrs) == 0 {
		return nil, 0, false
	}
	ifi, ok := b.Instrs[len(b.Instrs)-1].(*ssa.If)
	if !ok {
		return nil, 0, false
	}
	v := ifi.Cond
	idx := 0
	for {
		if u, ok := v.(*ssa.UnOp); ok && u.Op == token.NOT {
			v = u.X
			idx = 1 - idx
			continue
		}
		break
	}
	return v, idx, true
}

// NilCondEdge: cond is `x == nil` or `x != nil`; returns (x, succIndexWhenNil, ok).
func NilCondEdge(b *ssa.BasicBlock) (ssa.Value, int, bool) {
	v, idx, ok := BoolCondEdge(b)
	if !ok {
		return nil, 0, false
	}
	bo, ok := v.(*ssa.BinOp)
	if !ok || (bo.Op != token.EQL && bo.Op != token.NEQ) {
		return nil, 0, false
	}
	var x ssa.Value
	switch {
	case IsNilConst(bo.Y):
		x = bo.X
	case IsNilConst(bo.X):
		x = bo.Y
	default:
		return nil, 0, false
	}
	if bo.Op == token.NEQ {
		idx = 1 - idx
	}
	return x, idx, true
}

// TruthOnlyIf checks a predicate function (e.g. a roster filter closure) : can it return a
// possibly-true value on a path on which property P does NOT hold?  isP(v) says whether branch
// condition v (negations already stripped) decides P and with which truth value P holds.
// direct(v) says that returning v itself is equivalent to P (e.g. `return !t.IsLocked()`).
// Returns the offending return instructions (empty = the function is true only if P).
func TruthOnlyIf(fn *ssa.Function, isP func(v ssa.Value) (decides bool, holdsWhen bool), direct func(v ssa.Value) bool) []ssa.Instruction {
	type edge struct {
		b *ssa.BasicBlock
		i int
	}
	cut := map[edge]bool{}
	for _, b := range fn.Blocks {
		if v, trueIdx, ok := BoolCondEdge(b); ok {
			if dec, when := isP(v); dec {
				if when {
					cut[edge{b, trueIdx}] = true
				} else {
					cut[edge{b, 1 - trueIdx}] = true
				}
			}
		}
	}
	// reachable blocks and the edges used
	reach := map[*ssa.BasicBlock]bool{}
	live := map[edge]bool{}
	var walk func(b *ssa.BasicBlock)
	walk = func(b *ssa.BasicBlock) {
		if reach[b] {
			return
		}
		reach[b] = true
		for i, s := range b.Succs {
			if cut[edge{b, i}] {
				continue
			}
			live[edge{b, i}] = true
			walk(s)
		}
	}
	if len(fn.Blocks) > 0 {
		walk(fn.Blocks[0])
	}
	var bad []ssa.Instruction
	var possiblyTrue func(v ssa.Value, seen map[ssa.Value]bool) bool
	possiblyTrue = func(v ssa.Value, seen map[ssa.Value]bool) bool {
		if seen[v] {
			return false
		}
		seen[v] = true
		if direct != nil && direct(v) {
			return false
		}
		switch x := v.(type) {
		case *ssa.Const:
			return x.Value != nil && x.Value.String() == "true"
		case *ssa.Phi:
			for i, e := range x.Edges {
				pred := x.Block().Preds[i]
				// is the edge pred->block live?
				isLive := false
				for si, s := range pred.Succs {
					if s == x.Block() && reach[pred] && live[edge{pred, si}] {
						isLive = true
					}
				}
				if isLive && possiblyTrue(e, seen) {
					return true
				}
			}
			return false
		case *ssa.UnOp:
			if x.Op == token.MUL {
				// load of a named-result cell: follow stores in reachable blocks
				if al, ok := x.X.(*ssa.Alloc); ok && al.Referrers() != nil {
					for _, r := range *al.Referrers() {
						if st, ok := r.(*ssa.Store); ok && st.Addr == ssa.Value(al) && reach[st.Block()] {
							if possiblyTrue(st.Val, seen) {
								return true
							}
						}
					}
					return false
				}
			}
		}
		return true // unknown value: assume it can be true
	}
	for _, b := range fn.Blocks {
		if !reach[b] {
			continue
		}
		if r, ok := b.Instrs[len(b.Instrs)-1].(*ssa.Return); ok && len(r.Results) >= 1 {
			if possiblyTrue(r.Results[0], map[ssa.Value]bool{}) {
				bad = append(bad, r)
			}
		}
	}
	return bad
}

// RetVal returns the i-th result of ret, resolving the "defer spill" go/ssa emits in functions
// with defers (`*cell = v; rundefers; t = *cell; return t`): the value stored into the spill cell
// in the same block is returned instead of the reload (named results modified by deferred
// closures are out of scope of this resolution and yield the load itself).
func RetVal(ret *ssa.Return, i int) ssa.Value {
	if i >= len(ret.Results) {
		return nil
	}
	v := ret.Results[i]
	u, ok := v.(*ssa.UnOp)
	if !ok || u.Op != token.MUL || u.Block() != ret.Block() {
		return v
	}
	al, ok := u.X.(*ssa.Alloc)
	if !ok {
		return v
	}
	b := ret.Block()
	for k := idx(u) - 1; k >= 0; k-- {
		if st, ok := b.Instrs[k].(*ssa.Store); ok && st.Addr == ssa.Value(al) {
			return st.Val
		}
	}
	return v
}

// ReachingStores returns the stores to the cell read by load that can reach it (flow sensitive,
// walking the CFG backwards; a store kills earlier stores on its path).
func ReachingStores(load *ssa.UnOp) []*ssa.Store {
	cell := load.X
	var out []*ssa.Store
	seen := map[*ssa.BasicBlock]bool{}
	var scan func(b *ssa.BasicBlock, from int)
	scan = func(b *ssa.BasicBlock, from int) {
		for i := from; i >= 0; i-- {
			if st, ok := b.Instrs[i].(*ssa.Store); ok && st.Addr == cell {
				out = append(out, st)
				return
			}
		}
		for _, p := range b.Preds {
			if seen[p] {
				continue
			}
			seen[p] = true
			scan(p, len(p.Instrs)-1)
		}
	}
	scan(load.Block(), idx(load)-1)
	return out
}

// StoreBetween reports whether some store to cell can execute after `from` and before `to`.
func StoreBetween(cell ssa.Value, from, to ssa.Instruction) bool {
	if cell.Referrers() == nil {
		return false
	}
	for _, r := range *cell.Referrers() {
		if st, ok := r.(*ssa.Store); ok && st.Addr == cell {
			if CanReach(from, st) && CanReach(st, to) {
				return true
			}
		}
	}
	return false
}

// ReachingStoresCut is ReachingStores on the CFG with the edges selected by cut removed.
// entry reports whether the function entry reaches the load without passing any store.
func ReachingStoresCut(load *ssa.UnOp, cut func(from *ssa.BasicBlock, succ int) bool) (stores []*ssa.Store, entry bool) {
	cell := load.X
	seen := map[*ssa.BasicBlock]bool{}
	var scan func(b *ssa.BasicBlock, from int)
	scan = func(b *ssa.BasicBlock, from int) {
		for i := from; i >= 0; i-- {
			if st, ok := b.Instrs[i].(*ssa.Store); ok && st.Addr == cell {
				stores = append(stores, st)
				return
			}
		}
		if len(b.Preds) == 0 {
			entry = true
		}
		for _, p := range b.Preds {
			// is the edge p->b cut?
			allCut := true
			for si, s := range p.Succs {
				if s == b && !cut(p, si) {
					allCut = false
				}
			}
			if allCut || seen[p] {
				continue
			}
			seen[p] = true
			scan(p, len(p.Instrs)-1)
		}
	}
	scan(load.Block(), idx(load)-1)
	return
}

// PathCount computes the minimum and maximum number of instructions satisfying isTarget executed
// on any path that starts just after `start` (or at function entry when start is nil) and ends
// at an instruction satisfying isEnd (typically a Return) — the end instruction itself is not
// counted. max == -1 means unbounded (a target lies on a cycle that does not pass an end).
// ok=false when no path reaches an end. Target-free cycles are traversed once.
func PathCount(fn *ssa.Function, start ssa.Instruction, isTarget, isEnd func(ssa.Instruction) bool) (min, max int, ok bool) {
	const inf = 1 << 30
	type res struct {
		min, max int
		ok       bool
	}
	entryCount := map[*ssa.BasicBlock]int{} // cumulative count when the block was entered (while in progress)
	inProg := map[*ssa.BasicBlock]bool{}
	unbounded := false
	budget := 200000
	var blk func(b *ssa.BasicBlock, from int, cum int) res
	blk = func(b *ssa.BasicBlock, from int, cum int) res {
		budget--
		if budget < 0 {
			unbounded = true
			return res{ok: false}
		}
		if from == 0 {
			if inProg[b] {
				if cum > entryCount[b] {
					unbounded = true
				}
				return res{ok: false}
			}
			inProg[b] = true
			entryCount[b] = cum
			defer func() { inProg[b] = false }()
		}
		cnt := 0
		for i := from; i < len(b.Instrs); i++ {
			in := b.Instrs[i]
			if isEnd(in) {
				return res{cnt, cnt, true}
			}
			if isTarget(in) {
				cnt++
			}
		}
		out := res{inf, -inf, false}
		for _, s := range b.Succs {
			r := blk(s, 0, cum+cnt)
			if !r.ok {
				continue
			}
			out.ok = true
			if r.min+cnt < out.min {
				out.min = r.min + cnt
			}
			if r.max+cnt > out.max {
				out.max = r.max + cnt
			}
		}
		return out
	}
	var r res
	if start == nil {
		if len(fn.Blocks) == 0 {
			return 0, 0, false
		}
		r = blk(fn.Blocks[0], 0, 0)
	} else {
		r = blk(start.Block(), idx(start)+1, 0)
	}
	if !r.ok {
		return 0, 0, false
	}
	if unbounded {
		return r.min, -1, true
	}
	return r.min, r.max, true
}

// AllPathsReturnAvoidingNot reports whether every path from the start of block b to a Return
// executes `through` (i.e. no Return is reachable while avoiding it).
func AllPathsReturnAvoidingNot(b *ssa.BasicBlock, through ssa.Instruction) bool {
	seen := map[*ssa.BasicBlock]bool{}
	var walk func(x *ssa.BasicBlock) bool // true if a Return is reachable avoiding through
	walk = func(x *ssa.BasicBlock) bool {
		if seen[x] {
			return false
		}
		seen[x] = true
		for _, in := range x.Instrs {
			if in == through {
				return false
			}
			if IsExit(in) {
				return true
			}
		}
		for _, s := range x.Succs {
			if walk(s) {
				return true
			}
		}
		return false
	}
	return !walk(b)
}

// PathFromEntryAvoidingTo reports whether target can be reached from fn's entry without
// executing avoid.
func PathFromEntryAvoidingTo(fn *ssa.Function, target, avoid ssa.Instruction) bool {
	return PathFromEntryAvoiding(fn, func(in ssa.Instruction) bool { return in == target }, []ssa.Instruction{avoid})
}

// ExprKey renders a value as a structural expression so that two separately computed but
// syntactically identical accesses (m[k][j], *x.f) compare equal: field loads by access path,
// lookups by map+index, extracts/calls by identity of the producing instruction.
func ExprKey(v ssa.Value) string {
	switch x := v.(type) {
	case nil:
		return "<nil>"
	case *ssa.Lookup:
		return ExprKey(x.X) + "[" + ExprKey(x.Index) + "]"
	case *ssa.Extract:
		if lk, ok := x.Tuple.(*ssa.Lookup); ok && x.Index == 0 {
			return ExprKey(lk.X) + "[" + ExprKey(lk.Index) + "]"
		}
		return fmt.Sprintf("extract#%d(%p)", x.Index, x.Tuple)
	case *ssa.Const:
		return "const:" + x.String()
	case *ssa.ChangeType:
		return ExprKey(x.X)
	case *ssa.MakeInterface:
		return ExprKey(x.X)
	case *ssa.Call:
		// side-effect free getters (protobuf style Get*, String): two calls with equal operands denote the same value
		if n := MethodName(&x.Call); (strings.HasPrefix(n, "Get") || n == "String") && x.Call.StaticCallee() != nil {
			parts := []string{}
			for _, a := range Args(&x.Call) {
				parts = append(parts, ExprKey(a))
			}
			return "call:" + CalleeName(&x.Call) + "(" + strings.Join(parts, ",") + ")"
		}
	}
	if p, ok := AccessPath(v); ok {
		return p
	}
	return fmt.Sprintf("%T(%p)", v, v)
}

// ReachableAssuming reports whether target is reachable from fn's entry on a path that is
// feasible when value `v` equals constant k: at every If whose condition compares (a value equal
// to) v with a constant only the consistent successor is followed; all other conditions are
// unconstrained (both successors).
func ReachableAssuming(fn *ssa.Function, v ssa.Value, k constant.Value, target ssa.Instruction) bool {
	if len(fn.Blocks) == 0 {
		return false
	}
	key := ExprKey(Strip(v))
	assume := func(x ssa.Value) (bool, bool) {
		// membership in a literal list of constants: slices.Contains([]T{k1, k2, ...}, v)
		if el, set, isSet := ConstSetContains(x); isSet {
			o := Strip(el)
			if SameValue(o, Strip(v)) || (key != "" && ExprKey(o) == key) {
				for _, m := range set {
					if constant.Compare(k, token.EQL, m) {
						return true, true
					}
				}
				return false, true
			}
		}
		bo, ok := x.(*ssa.BinOp)
		if !ok || (bo.Op != token.EQL && bo.Op != token.NEQ) {
			return false, false
		}
		var c *ssa.Const
		var other ssa.Value
		if cc, ok := bo.Y.(*ssa.Const); ok {
			c, other = cc, bo.X
		} else if cc, ok := bo.X.(*ssa.Const); ok {
			c, other = cc, bo.Y
		}
		if c == nil || c.Value == nil {
			return false, false
		}
		o := Strip(other)
		if SameValue(o, Strip(v)) || (key != "" && ExprKey(o) == key) {
			return constant.Compare(k, bo.Op, c.Value), true
		}
		return false, false
	}
	return FlowAssume(fn.Blocks[0], assume).Reaches(target)
}

// ConstSetContains recognises `slices.Contains(list, el)` where list is a slice literal whose elements are all
// constants: it returns the element operand and the constants.
func ConstSetContains(x ssa.Value) (el ssa.Value, set []constant.Value, ok bool) {
	call, isCall := x.(*ssa.Call)
	if !isCall || len(call.Call.Args) != 2 {
		return nil, nil, false
	}
	cal := call.Call.StaticCallee()
	if cal == nil {
		return nil, nil, false
	}
	name := cal.Name()
	pk := cal.Pkg
	if o := cal.Origin(); o != nil {
		name, pk = o.Name(), o.Pkg
	}
	if pk == nil || pk.Pkg.Path() != "slices" || name != "Contains" {
		return nil, nil, false
	}
	sl, isSl := Strip(call.Call.Args[0]).(*ssa.Slice)
	if !isSl {
		return nil, nil, false
	}
	al, isAl := sl.X.(*ssa.Alloc)
	if !isAl || al.Referrers() == nil {
		return nil, nil, false
	}
	for _, r := range *al.Referrers() {
		switch y := r.(type) {
		case *ssa.IndexAddr:
			if y.Referrers() == nil {
				return nil, nil, false
			}
			for _, rr := range *y.Referrers() {
				st, isSt := rr.(*ssa.Store)
				if !isSt {
					return nil, nil, false
				}
				k, isK := st.Val.(*ssa.Const)
				if !isK || k.Value == nil {
					return nil, nil, false
				}
				set = append(set, k.Value)
			}
		case *ssa.Slice:
		default:
			return nil, nil, false
		}
	}
	return call.Call.Args[1], set, len(set) > 0
}

// DerivesFrom reports whether target is among the values root is computed from, walking backwards
// through phis, conversions, interface boxing, loads of local cells (reaching stores), extracts of
// the same tuple, and the arguments of calls (a wrapped error derives from the error it wraps).
func DerivesFrom(root, target ssa.Value) bool {
	seen := map[ssa.Value]bool{}
	var walk func(v ssa.Value) bool
	walk = func(v ssa.Value) bool {
		if v == nil || seen[v] {
			return false
		}
		seen[v] = true
		if v == target {
			return true
		}
		switch x := v.(type) {
		case *ssa.Phi:
			for _, e := range x.Edges {
				if walk(e) {
					return true
				}
			}
		case *ssa.MakeInterface:
			return walk(x.X)
		case *ssa.ChangeType:
			return walk(x.X)
		case *ssa.ChangeInterface:
			return walk(x.X)
		case *ssa.Convert:
			return walk(x.X)
		case *ssa.TypeAssert:
			return walk(x.X)
		case *ssa.Extract:
			if te, ok := target.(*ssa.Extract); ok && te.Tuple == x.Tuple && te.Index == x.Index {
				return true
			}
			return walk(x.Tuple)
		case *ssa.Call:
			for _, a := range Args(&x.Call) {
				if walk(a) {
					return true
				}
			}
		case *ssa.UnOp:
			if x.Op == token.MUL {
				if _, ok := x.X.(*ssa.Alloc); ok {
					for _, st := range ReachingStores(x) {
						if walk(st.Val) {
							return true
						}
					}
					return false
				}
				return walk(x.X) // copy of the object a derived pointer points to
			}
		case *ssa.FieldAddr:
			return walk(x.X)
		case *ssa.Slice:
			return walk(x.X)
		case *ssa.Alloc:
			// the packed operands of a variadic call (new [n]T filled element by element), or a local aggregate
			if x.Referrers() != nil {
				for _, r := range *x.Referrers() {
					switch a := r.(type) {
					case *ssa.IndexAddr:
						if a.Referrers() != nil {
							for _, rr := range *a.Referrers() {
								if st, ok := rr.(*ssa.Store); ok && st.Addr == ssa.Value(a) && walk(st.Val) {
									return true
								}
							}
						}
					case *ssa.Store:
						if a.Addr == ssa.Value(x) && walk(a.Val) {
							return true
						}
					}
				}
			}
		}
		return false
	}
	return walk(root)
}

// SitesOfFn returns the call sites (call, go, defer) in module functions whose static callee is target.
func (c *Ctx) SitesOfFn(target *ssa.Function) []Site {
	if target == nil {
		return nil
	}
	var out []Site
	for _, f := range c.ModuleFuncs() {
		for _, ci := range CallsTo(f, target) {
			out = append(out, Site{f, ci})
			c.CallSites++
		}
	}
	return out
}

// CallsTo returns the calls in fn whose static callee is target (generic instances match their origin).
func CallsTo(fn, target *ssa.Function) []ssa.CallInstruction {
	return Calls(fn, func(_ string, ci ssa.CallInstruction) bool {
		cal := ci.Common().StaticCallee()
		if cal == nil {
			return false
		}
		if cal.Origin() != nil {
			cal = cal.Origin()
		}
		return cal == target
	})
}

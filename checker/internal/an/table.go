package an

import (
	"go/ast"
	"go/constant"
	"go/token"
	"go/types"
)

// FuncDecl finds the AST declaration of a function or method ("T.m") in package rel.
func (c *Ctx) FuncDecl(rel, name string) (*ast.FuncDecl, *types.Info) {
	pk := c.TPkg(rel)
	if pk == nil {
		return nil, nil
	}
	recv, fn := "", name
	for i := 0; i < len(name); i++ {
		if name[i] == '.' {
			recv, fn = name[:i], name[i+1:]
		}
	}
	for _, f := range pk.Syntax {
		for _, d := range f.Decls {
			fd, ok := d.(*ast.FuncDecl)
			if !ok || fd.Name.Name != fn {
				continue
			}
			if recv == "" && fd.Recv == nil {
				return fd, pk.TypesInfo
			}
			if recv != "" && fd.Recv != nil && len(fd.Recv.List) == 1 {
				t := fd.Recv.List[0].Type
				if s, ok := t.(*ast.StarExpr); ok {
					t = s.X
				}
				if ix, ok := t.(*ast.IndexExpr); ok {
					t = ix.X
				}
				if id, ok := t.(*ast.Ident); ok && id.Name == recv {
					return fd, pk.TypesInfo
				}
			}
		}
	}
	return nil, nil
}

// KV is one constant entry of a composite literal.
type KV struct {
	K, V constant.Value
	Pos  token.Pos
}

// ConstMapLiterals returns, for every map composite literal inside node whose keys and values
// are all compile-time constants, its entries.
func ConstMapLiterals(node ast.Node, info *types.Info) [][]KV {
	var out [][]KV
	ast.Inspect(node, func(n ast.Node) bool {
		cl, ok := n.(*ast.CompositeLit)
		if !ok {
			return true
		}
		tv, ok := info.Types[cl]
		if !ok {
			return true
		}
		if _, isMap := tv.Type.Underlying().(*types.Map); !isMap {
			return true
		}
		var kvs []KV
		for _, e := range cl.Elts {
			kv, ok := e.(*ast.KeyValueExpr)
			if !ok {
				return true
			}
			k, v := info.Types[kv.Key].Value, info.Types[kv.Value].Value
			if k == nil || v == nil {
				return true
			}
			kvs = append(kvs, KV{k, v, kv.Pos()})
		}
		if len(kvs) > 0 {
			out = append(out, kvs)
		}
		return true
	})
	return out
}

package an

import (
	"go/token"
	"go/types"
	"strings"

	"golang.org/x/tools/go/ssa"
)

// ---------------------------------------------------------------------------------------------
// P7 (simplified): which mutexes are held at an instruction

var lockMethods = map[string]string{
	"(*sync.Mutex).Lock": "x", "(*sync.RWMutex).Lock": "x", "(*sync.RWMutex).RLock": "r", "(iface sync.Locker).Lock": "x",
}
var unlockMethods = map[string]string{
	"(*sync.Mutex).Unlock": "x", "(*sync.RWMutex).Unlock": "x", "(*sync.RWMutex).RUnlock": "r", "(iface sync.Locker).Unlock": "x",
}

func lockOperand(c *ssa.Call) ssa.Value {
	if c.Call.IsInvoke() {
		return c.Call.Value
	}
	return c.Call.Args[0]
}

// Held is a mutex known to be held.
type Held struct {
	Path string // access path of the mutex (type based when possible)
	Mode string // "x" exclusive, "r" shared
	At   ssa.Instruction
}

// LockPath names the mutex operand of a Lock/Unlock call.
func LockPath(v ssa.Value) string {
	if p, ok := TypePath(v); ok {
		return p
	}
	if p, ok := AccessPath(v); ok {
		return p
	}
	return v.Name()
}

// HeldAt returns the mutexes held on every path reaching `at` within its function: a Lock call
// that dominates `at` with no non-deferred Unlock of the same mutex on a path Lock -> Unlock -> at.
// The repository idiom `if !m.TryLock() { m.Lock() }` is recognised: at the join both branches
// hold m.
func HeldAt(at ssa.Instruction) []Held {
	fn := at.Parent()
	var out []Held
	var locks, unlocks []*ssa.Call
	Instrs(fn, func(in ssa.Instruction) {
		c, ok := in.(*ssa.Call)
		if !ok {
			return
		}
		n := CalleeName(&c.Call)
		if _, ok := lockMethods[n]; ok {
			locks = append(locks, c)
		}
		if _, ok := unlockMethods[n]; ok {
			unlocks = append(unlocks, c)
		}
	})
	consider := func(l *ssa.Call, from ssa.Instruction, mode string) {
		p := LockPath(lockOperand(l))
		for _, u := range unlocks {
			if LockPath(lockOperand(u)) != p {
				continue
			}
			if CanReach(from, u) && CanReach(u, at) {
				// possibly released before `at` ... unless re-locked: be conservative
				return
			}
		}
		out = append(out, Held{p, mode, l})
	}
	for _, l := range locks {
		mode := lockMethods[CalleeName(&l.Call)]
		if Dominates(l, at) {
			consider(l, l, mode)
			continue
		}
		// TryLock idiom: block B: t = m.TryLock(); if t goto J else L ; L: m.Lock(); jump J
		b := l.Block()
		if len(b.Preds) == 1 && len(b.Succs) == 1 {
			pb := b.Preds[0]
			if ifi, ok := pb.Instrs[len(pb.Instrs)-1].(*ssa.If); ok {
				if tc, ok := ifi.Cond.(*ssa.Call); ok && strings.HasSuffix(CalleeName(&tc.Call), ").TryLock") &&
					LockPath(tc.Call.Args[0]) == LockPath(lockOperand(l)) && pb.Succs[0] == b.Succs[0] && pb.Succs[1] == b {
					j := b.Succs[0]
					if j == at.Block() || j.Dominates(at.Block()) {
						consider(l, j.Instrs[0], mode)
					}
				}
			}
		}
	}
	return out
}

// HoldsExclusive reports whether a mutex whose path ends with suffix is held exclusively at `at`.
func HoldsExclusive(at ssa.Instruction, suffix string) bool {
	for _, h := range HeldAt(at) {
		if h.Mode == "x" && strings.HasSuffix(h.Path, suffix) {
			return true
		}
	}
	return false
}

// ---------------------------------------------------------------------------------------------
// P8: writes of a goroutine closure to state shared with its spawner / siblings

// SharedWrite is a write performed by a closure through one of its free variables.
type SharedWrite struct {
	Instr  ssa.Instruction
	Free   *ssa.FreeVar
	Kind   string    // "assign" (captured variable itself), "mapupdate", "mapdelete", "slot" (captured slice element), "field" (field of captured object)
	Index  ssa.Value // for slot
	Value  ssa.Value // stored value (nil for delete)
	Locked []Held
}

// ClosureWrites enumerates writes through the free variables of closure fn (its own body only:
// callees and nested closures are not followed - stated bound).
func ClosureWrites(fn *ssa.Function) []SharedWrite {
	var out []SharedWrite
	for _, fv := range fn.FreeVars {
		if fv.Referrers() == nil {
			continue
		}
		for _, r := range *fv.Referrers() {
			switch r := r.(type) {
			case *ssa.Store:
				if r.Addr == ssa.Value(fv) {
					out = append(out, SharedWrite{Instr: r, Free: fv, Kind: "assign", Value: r.Val})
				}
			case *ssa.UnOp:
				if r.Op != token.MUL || r.Referrers() == nil {
					continue
				}
				for _, rr := range *r.Referrers() {
					switch rr := rr.(type) {
					case *ssa.MapUpdate:
						if rr.Map == ssa.Value(r) {
							out = append(out, SharedWrite{Instr: rr, Free: fv, Kind: "mapupdate", Value: rr.Value})
						}
					case *ssa.Call:
						if CalleeName(&rr.Call) == "builtin.delete" && rr.Call.Args[0] == ssa.Value(r) {
							out = append(out, SharedWrite{Instr: rr, Free: fv, Kind: "mapdelete"})
						}
					case *ssa.IndexAddr:
						if rr.X == ssa.Value(r) && rr.Referrers() != nil {
							for _, s := range *rr.Referrers() {
								if st, ok := s.(*ssa.Store); ok && st.Addr == ssa.Value(rr) {
									out = append(out, SharedWrite{Instr: st, Free: fv, Kind: "slot", Index: rr.Index, Value: st.Val})
								}
							}
						}
					case *ssa.FieldAddr:
						if rr.X == ssa.Value(r) && rr.Referrers() != nil {
							for _, s := range *rr.Referrers() {
								if st, ok := s.(*ssa.Store); ok && st.Addr == ssa.Value(rr) {
									out = append(out, SharedWrite{Instr: st, Free: fv, Kind: "field", Value: st.Val})
								}
							}
						}
					}
				}
			}
		}
	}
	for i := range out {
		out[i].Locked = HeldAt(out[i].Instr)
	}
	return out
}

// OwnIndex reports whether v (an index used inside goroutine closure fn) is private to this
// goroutine instance: derived only from the closure's parameters and constants.
func OwnIndex(fn *ssa.Function, v ssa.Value) bool {
	ok := true
	for _, l := range BackSlice(v, SliceOpts{}) {
		switch l.Kind {
		case "param":
			if p, isP := l.Val.(*ssa.Parameter); !isP || p.Parent() != fn {
				ok = false
			}
		case "const":
		default:
			ok = false
		}
	}
	return ok
}

// Binding returns the spawner-side value bound to free variable fv of the closure created by mc.
func Binding(mc *ssa.MakeClosure, fv *ssa.FreeVar) ssa.Value {
	f := mc.Fn.(*ssa.Function)
	for i, x := range f.FreeVars {
		if x == fv && i < len(mc.Bindings) {
			return mc.Bindings[i]
		}
	}
	return nil
}

// IsMapType / IsErrorType helpers.
func IsMapType(t types.Type) bool {
	_, ok := t.Underlying().(*types.Map)
	return ok
}

// NonNil reports whether v is certainly a non-nil value by construction: result of fmt.Errorf,
// errors.New, multierror.Append, &T{}, new(T), or a MakeInterface of those.
func NonNil(v ssa.Value) bool {
	v = Strip(v)
	switch x := v.(type) {
	case *ssa.Alloc:
		return true
	case *ssa.Call:
		n := CalleeName(&x.Call)
		switch {
		case n == "fmt.Errorf", n == "errors.New", strings.HasSuffix(n, "go-multierror.Append"):
			return true
		}
	case *ssa.Phi:
		for _, e := range x.Edges {
			if e == ssa.Value(x) {
				continue
			}
			if !NonNil(e) {
				return false
			}
		}
		return true
	}
	return false
}

// OriginInSpawner maps a value used inside the body of a spawned function literal back to the
// spawner: a parameter is the matching argument of the go/call instruction; a captured variable (or
// a load of it) is the bound cell. Returns nil when v is neither.
func OriginInSpawner(cc *ssa.CallCommon, fn *ssa.Function, v ssa.Value) ssa.Value {
	for {
		switch x := v.(type) {
		case *ssa.ChangeType:
			v = x.X
			continue
		case *ssa.MakeInterface:
			v = x.X
			continue
		case *ssa.UnOp:
			if x.Op == token.MUL {
				if _, isFV := x.X.(*ssa.FreeVar); isFV {
					v = x.X
					continue
				}
			}
		}
		break
	}
	switch x := v.(type) {
	case *ssa.Parameter:
		for i, p := range fn.Params {
			if p == x && i < len(cc.Args) {
				return cc.Args[i]
			}
		}
	case *ssa.FreeVar:
		if mc, ok := cc.Value.(*ssa.MakeClosure); ok {
			if b := Binding(mc, x); b != nil {
				if al, isAl := b.(*ssa.Alloc); isAl {
					return &ssa.UnOp{Op: token.MUL, X: al}
				}
				return b
			}
		}
	}
	return nil
}

// CellHolds reports whether value v (possibly a synthetic load of a local cell, see OriginInSpawner)
// is target or a cell into which target is stored.
func CellHolds(v, target ssa.Value) bool {
	if v == nil {
		return false
	}
	v = Strip(v)
	if v == target {
		return true
	}
	if u, ok := v.(*ssa.UnOp); ok && u.Op == token.MUL {
		if al, ok := u.X.(*ssa.Alloc); ok && al.Referrers() != nil {
			for _, r := range *al.Referrers() {
				if st, ok := r.(*ssa.Store); ok && st.Addr == ssa.Value(al) && Strip(st.Val) == target {
					return true
				}
			}
		}
	}
	if ct, ok := v.(*ssa.ChangeType); ok {
		return CellHolds(ct.X, target)
	}
	return false
}

// ParamWrite is a write a spawned function performs through one of its pointer/map parameters: the
// object is shared with the spawner and with sibling goroutines that were handed the same argument.
type ParamWrite struct {
	Instr  ssa.Instruction
	Param  *ssa.Parameter
	Kind   string // "mapupdate", "mapdelete", "field", "slot"
	Locked []Held
}

// ParamWrites enumerates map updates / deletes, field stores and element stores reached from the
// parameters of fn through field selections and loads (the function body only).
func ParamWrites(fn *ssa.Function) []ParamWrite {
	var out []ParamWrite
	for _, p := range fn.Params {
		switch p.Type().Underlying().(type) {
		case *types.Pointer, *types.Map, *types.Slice:
		default:
			continue
		}
		seen := map[ssa.Value]bool{}
		var walk func(v ssa.Value, isAddr bool)
		walk = func(v ssa.Value, isAddr bool) {
			if seen[v] || v.Referrers() == nil {
				return
			}
			seen[v] = true
			for _, r := range *v.Referrers() {
				switch x := r.(type) {
				case *ssa.FieldAddr:
					if x.X == v {
						walk(x, true)
					}
				case *ssa.IndexAddr:
					if x.X == v {
						walk(x, true)
					}
				case *ssa.UnOp:
					if x.Op == token.MUL && x.X == v {
						walk(x, false)
					}
				case *ssa.Store:
					if x.Addr == v && isAddr {
						k := "field"
						if _, isIdx := v.(*ssa.IndexAddr); isIdx {
							k = "slot"
						}
						out = append(out, ParamWrite{Instr: x, Param: p, Kind: k})
					}
				case *ssa.MapUpdate:
					if x.Map == v {
						out = append(out, ParamWrite{Instr: x, Param: p, Kind: "mapupdate"})
					}
				case *ssa.Call:
					if CalleeName(&x.Call) == "builtin.delete" && len(x.Call.Args) > 0 && x.Call.Args[0] == v {
						out = append(out, ParamWrite{Instr: x, Param: p, Kind: "mapdelete"})
					}
				case *ssa.Phi:
					walk(x, isAddr)
				}
			}
		}
		walk(p, false)
	}
	for i := range out {
		out[i].Locked = HeldAt(out[i].Instr)
	}
	return out
}

// SlotLeak is a path on which a token taken from a channel used as a counting semaphore is not given back.
type SlotLeak struct {
	Acquire ssa.Instruction // the send that takes the slot
	Exit    ssa.Instruction // the return reached without the matching receive
}

// SemaphoreLeaks finds, in fn, channels of zero-size elements that fn both sends to and receives from (the
// acquire/release idiom `sem <- struct{}{} ... <-sem`) and returns every path from a send to a return that
// passes no receive on the same channel. A deferred function literal that receives from the channel releases on
// every exit.
func SemaphoreLeaks(fn *ssa.Function) []SlotLeak {
	type use struct {
		in  ssa.Instruction
		key string
	}
	var sends, recvs []use
	zero := func(t types.Type) bool {
		ch, ok := t.Underlying().(*types.Chan)
		if !ok {
			return false
		}
		st, isSt := ch.Elem().Underlying().(*types.Struct)
		return isSt && st.NumFields() == 0
	}
	collect := func(f *ssa.Function, s, r *[]use) {
		Instrs(f, func(in ssa.Instruction) {
			switch x := in.(type) {
			case *ssa.Send:
				if zero(x.Chan.Type()) {
					*s = append(*s, use{in, ExprKey(x.Chan)})
				}
			case *ssa.UnOp:
				if x.Op == token.ARROW && zero(x.X.Type()) {
					*r = append(*r, use{in, ExprKey(x.X)})
				}
			}
		})
	}
	collect(fn, &sends, &recvs)
	if len(sends) == 0 || len(recvs) == 0 {
		return nil
	}
	// deferred literals that release
	deferred := map[string]bool{}
	Instrs(fn, func(in ssa.Instruction) {
		d, ok := in.(*ssa.Defer)
		if !ok {
			return
		}
		var lit *ssa.Function
		var binds []ssa.Value
		if mc, isMC := d.Call.Value.(*ssa.MakeClosure); isMC {
			lit, _ = mc.Fn.(*ssa.Function)
			binds = mc.Bindings
		}
		if lit == nil {
			return
		}
		var s2, r2 []use
		collect(lit, &s2, &r2)
		for _, r := range r2 {
			// the literal's free variable stands for the binding of the enclosing function
			rx := r.in.(*ssa.UnOp).X
			if fv, isFV := rx.(*ssa.FreeVar); isFV {
				for i, f := range lit.FreeVars {
					if f == fv && i < len(binds) {
						deferred[ExprKey(binds[i])] = true
						if ld, isLd := binds[i].(*ssa.Alloc); isLd {
							_ = ld
						}
					}
				}
			}
			if u, isU := rx.(*ssa.UnOp); isU && u.Op == token.MUL {
				if fv, isFV := u.X.(*ssa.FreeVar); isFV {
					for i, f := range lit.FreeVars {
						if f == fv && i < len(binds) {
							deferred["*"+ExprKey(binds[i])] = true
						}
					}
				}
			}
		}
	})
	var out []SlotLeak
	for _, s := range sends {
		paired := false
		for _, r := range recvs {
			if r.key == s.key {
				paired = true
			}
		}
		if !paired || deferred[s.key] {
			continue
		}
		if u, isU := s.in.(*ssa.Send).Chan.(*ssa.UnOp); isU && u.Op == token.MUL && deferred["*"+ExprKey(u.X)] {
			continue
		}
		seen := map[*ssa.BasicBlock]bool{}
		var walk func(b *ssa.BasicBlock, from int)
		walk = func(b *ssa.BasicBlock, from int) {
			for i := from; i < len(b.Instrs); i++ {
				switch x := b.Instrs[i].(type) {
				case *ssa.UnOp:
					if x.Op == token.ARROW && ExprKey(x.X) == s.key {
						return
					}
				case *ssa.Return:
					if b != fn.Recover {
						out = append(out, SlotLeak{s.in, x})
					}
					return
				}
			}
			for _, nx := range b.Succs {
				if !seen[nx] {
					seen[nx] = true
					walk(nx, 0)
				}
			}
		}
		walk(s.in.Block(), idx(s.in)+1)
	}
	return out
}

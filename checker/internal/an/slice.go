package an

import (
	"go/token"
	"go/types"
	"sort"
	"strings"

	"golang.org/x/tools/go/ssa"
)

// Leaf is a root of a backward slice.
type Leaf struct {
	Kind string    // "param", "free", "global", "field", "call", "const", "alloc", "make", "other"
	Path string    // type-based access path for fields: "task.Wants.Cpu", "task.Wants.StaticPorts[].Begin"
	Val  ssa.Value // the SSA value at the leaf
}

// SliceOpts configures BackSlice.
type SliceOpts struct {
	// LeafCall: when it returns true the call is a leaf (not traversed into its arguments).
	LeafCall func(name string, call *ssa.Call) bool
	// ThroughCall: when non-nil and returns false, the call's arguments are not followed and the
	// call is a leaf. Default: all arguments (and receiver) of every call flow into its result.
	MaxNodes int
}

// TypePath renders a pure field/index chain by types: "task.Wants.StaticPorts[].Begin".
// ok=false if v is not such a chain rooted at a parameter, free variable, global or load thereof.
func TypePath(v ssa.Value) (string, bool) {
	switch x := v.(type) {
	case *ssa.UnOp:
		if x.Op == token.MUL {
			return TypePath(x.X)
		}
	case *ssa.FieldAddr:
		return fieldPath(x.X, x.Field)
	case *ssa.Field:
		return fieldPath(x.X, x.Field)
	case *ssa.IndexAddr:
		p, ok := TypePath(x.X)
		return p + "[]", ok
	case *ssa.Index:
		p, ok := TypePath(x.X)
		return p + "[]", ok
	case *ssa.Lookup:
		p, ok := TypePath(x.X)
		return p + "[]", ok
	}
	return "", false
}

func fieldPath(base ssa.Value, field int) (string, bool) {
	fn := fieldName(base.Type(), field)
	if p, ok := TypePath(base); ok {
		return p + "." + fn, true
	}
	// base is a root: name it by its type
	t := base.Type()
	if pt, ok := t.Underlying().(*types.Pointer); ok {
		t = pt.Elem()
	}
	return typeShort(t) + "." + fn, true
}

func typeShort(t types.Type) string {
	s := types.TypeString(t, func(p *types.Package) string { return p.Name() })
	return s
}

// TypeShort renders a type with package names only.
func TypeShort(t types.Type) string { return typeShort(t) }

// BackSlice computes the leaves of the backward data slice of v inside its function: through
// phis, conversions, arithmetic, loads of locals (all stores to the local, flow-insensitively),
// field and element reads, map lookups (all updates of a locally made map), range iteration,
// and calls (all operands flow to the result, unless LeafCall says the call is a leaf).
func BackSlice(v ssa.Value, opts SliceOpts) []Leaf {
	s := &slicer{opts: opts, seen: map[ssa.Value]bool{}}
	s.visit(v)
	sort.Slice(s.out, func(i, j int) bool {
		if s.out[i].Kind != s.out[j].Kind {
			return s.out[i].Kind < s.out[j].Kind
		}
		if s.out[i].Path != s.out[j].Path {
			return s.out[i].Path < s.out[j].Path
		}
		return s.out[i].Val.Pos() < s.out[j].Val.Pos()
	})
	return s.out
}

type slicer struct {
	opts SliceOpts
	seen map[ssa.Value]bool
	out  []Leaf
}

func (s *slicer) leaf(kind, path string, v ssa.Value) {
	s.out = append(s.out, Leaf{kind, path, v})
}

func (s *slicer) visit(v ssa.Value) {
	if v == nil || s.seen[v] {
		return
	}
	s.seen[v] = true
	switch x := v.(type) {
	case *ssa.Const:
		s.leaf("const", x.String(), x)
	case *ssa.Parameter:
		// a parameter that is the receiver/arg: report as param by type
		s.leaf("param", typeShort(x.Type()), x)
	case *ssa.FreeVar:
		s.leaf("free", typeShort(x.Type()), x)
	case *ssa.Global:
		s.leaf("global", short(x.String()), x)
	case *ssa.Function:
		s.leaf("func", short(x.String()), x)
	case *ssa.Builtin:
	case *ssa.Phi:
		for _, e := range x.Edges {
			s.visit(e)
		}
	case *ssa.ChangeType:
		s.visit(x.X)
	case *ssa.Convert:
		s.visit(x.X)
	case *ssa.MakeInterface:
		s.visit(x.X)
	case *ssa.ChangeInterface:
		s.visit(x.X)
	case *ssa.SliceToArrayPointer:
		s.visit(x.X)
	case *ssa.TypeAssert:
		s.visit(x.X)
	case *ssa.Extract:
		s.visit(x.Tuple)
	case *ssa.BinOp:
		s.visit(x.X)
		s.visit(x.Y)
	case *ssa.Slice:
		s.visit(x.X)
	case *ssa.Next:
		s.visit(x.Iter)
	case *ssa.Range:
		s.visit(x.X)
	case *ssa.Lookup:
		if p, ok := TypePath(x); ok {
			s.leaf("field", p, x)
			return
		}
		s.visit(x.X)
	case *ssa.Index:
		if p, ok := TypePath(x); ok {
			s.leaf("field", p, x)
			return
		}
		s.visit(x.X)
	case *ssa.IndexAddr:
		if p, ok := TypePath(x); ok {
			s.leaf("field", p, x)
			return
		}
		s.visit(x.X)
	case *ssa.Field:
		if p, ok := TypePath(x); ok && rootIsExternal(x) {
			s.leaf("field", p, x)
			return
		} else if ok {
			s.leaf("via", p, x) // field read on a computed value: reported, and traversal continues
		}
		s.visit(x.X)
	case *ssa.FieldAddr:
		if p, ok := TypePath(x); ok && rootIsExternal(x) {
			s.leaf("field", p, x)
			return
		} else if ok {
			s.leaf("via", p, x)
		}
		s.visit(x.X)
	case *ssa.UnOp:
		if x.Op == token.MUL {
			s.load(x.X)
			return
		}
		s.visit(x.X)
	case *ssa.Alloc:
		s.allocContents(x)
	case *ssa.MakeMap:
		s.mapContents(x)
	case *ssa.MakeSlice:
		s.leaf("make", typeShort(x.Type()), x)
		// contents: copy(x, src), x[i] = v
		if x.Referrers() != nil {
			for _, r := range *x.Referrers() {
				switch r := r.(type) {
				case *ssa.Call:
					if CalleeName(&r.Call) == "builtin.copy" && r.Call.Args[0] == ssa.Value(x) {
						s.visit(r.Call.Args[1])
					}
				case *ssa.IndexAddr:
					for _, rr := range *r.Referrers() {
						if st, ok := rr.(*ssa.Store); ok && st.Addr == ssa.Value(r) {
							s.visit(st.Val)
						}
					}
				}
			}
		}
	case *ssa.MakeChan:
		s.leaf("make", typeShort(x.Type()), x)
	case *ssa.MakeClosure:
		s.leaf("func", short(x.Fn.String()), x)
		for _, b := range x.Bindings {
			s.visit(b)
		}
	case *ssa.Call:
		name := CalleeName(&x.Call)
		if s.opts.LeafCall != nil && s.opts.LeafCall(name, x) {
			s.leaf("call", name, x)
			return
		}
		if x.Call.IsInvoke() {
			s.visit(x.Call.Value)
		} else if x.Call.StaticCallee() == nil {
			s.visit(x.Call.Value)
		}
		for _, a := range x.Call.Args {
			s.visit(a)
		}
	default:
		s.leaf("other", v.String(), v)
	}
}

// rootIsExternal: the chain's root is a parameter, free var, global, or a call result / phi
// (i.e. not a local alloc whose contents we can enumerate).
func rootIsExternal(v ssa.Value) bool {
	for {
		switch x := v.(type) {
		case *ssa.FieldAddr:
			v = x.X
		case *ssa.Field:
			v = x.X
		case *ssa.IndexAddr:
			v = x.X
		case *ssa.Index:
			v = x.X
		case *ssa.Lookup:
			v = x.X
		case *ssa.UnOp:
			if x.Op != token.MUL {
				return false
			}
			v = x.X
		case *ssa.TypeAssert:
			v = x.X
		case *ssa.Extract:
			v = x.Tuple
		case *ssa.Next:
			v = x.Iter
		case *ssa.Range:
			v = x.X
		case *ssa.ChangeType:
			v = x.X
		case *ssa.Parameter, *ssa.FreeVar, *ssa.Global:
			return true
		case *ssa.Alloc:
			return SpilledParam(x) != nil
		default:
			return false
		}
	}
}

// SpilledParam returns the parameter p if a is the stack/heap cell the compiler spilled p to
// (its only direct store is `*a = p`), else nil.
func SpilledParam(a *ssa.Alloc) *ssa.Parameter {
	var p *ssa.Parameter
	if a.Referrers() == nil {
		return nil
	}
	for _, r := range *a.Referrers() {
		if st, ok := r.(*ssa.Store); ok && st.Addr == a {
			q, ok := st.Val.(*ssa.Parameter)
			if !ok || (p != nil && p != q) {
				return nil
			}
			p = q
		}
	}
	return p
}

// load handles *addr.
func (s *slicer) load(addr ssa.Value) {
	switch a := addr.(type) {
	case *ssa.Alloc:
		s.visit(a)
	case *ssa.FieldAddr, *ssa.IndexAddr:
		s.visit(a)
	default:
		s.visit(addr)
	}
}

// allocContents: everything stored into the local (directly, or into its fields/elements), and
// every call the local's address is passed to (it may be written there: all operands flow in).
func (s *slicer) allocContents(a *ssa.Alloc) {
	var refs func(addr ssa.Value)
	seenAddr := map[ssa.Value]bool{}
	refs = func(addr ssa.Value) {
		if seenAddr[addr] {
			return
		}
		seenAddr[addr] = true
		rs := addr.Referrers()
		if rs == nil {
			return
		}
		for _, r := range *rs {
			switch r := r.(type) {
			case *ssa.Store:
				if r.Addr == addr {
					s.visit(r.Val)
				}
			case *ssa.FieldAddr:
				refs(r)
			case *ssa.IndexAddr:
				refs(r)
			case *ssa.Slice:
				// slice of a local array: stores happen via IndexAddr on the array itself
			case *ssa.Call:
				// the address escapes into a call: operands may flow into the local
				for _, arg := range r.Call.Args {
					if arg == addr {
						name := CalleeName(&r.Call)
						if s.opts.LeafCall != nil && s.opts.LeafCall(name, r) {
							s.leaf("call", name, r)
						} else {
							for _, o := range r.Call.Args {
								if o != addr {
									s.visit(o)
								}
							}
						}
					}
				}
			case *ssa.MapUpdate:
			}
		}
	}
	refs(a)
}

func (s *slicer) mapContents(m *ssa.MakeMap) {
	for _, al := range MapAliases(m) {
		rs := al.Referrers()
		if rs == nil {
			continue
		}
		for _, r := range *rs {
			if mu, ok := r.(*ssa.MapUpdate); ok && mu.Map == al {
				s.visit(mu.Value)
			}
		}
	}
}

// MapAliases returns m plus every load of a local cell m is stored into (go/ssa keeps captured
// or address-taken locals in cells, so each use of the map is a fresh load).
func MapAliases(m ssa.Value) []ssa.Value {
	out := []ssa.Value{m}
	if m.Referrers() == nil {
		return out
	}
	for _, r := range *m.Referrers() {
		st, ok := r.(*ssa.Store)
		if !ok || st.Val != m {
			continue
		}
		if al, ok := st.Addr.(*ssa.Alloc); ok {
			for _, rr := range *al.Referrers() {
				if u, ok := rr.(*ssa.UnOp); ok && u.Op == token.MUL && u.X == al {
					out = append(out, u)
				}
			}
		}
	}
	return out
}

// LeafPaths returns the sorted distinct paths of leaves of the given kinds.
func LeafPaths(ls []Leaf, kinds ...string) []string {
	set := map[string]bool{}
	for _, l := range ls {
		for _, k := range kinds {
			if l.Kind == k {
				set[l.Path] = true
			}
		}
	}
	var out []string
	for k := range set {
		out = append(out, k)
	}
	sort.Strings(out)
	return out
}

// HasLeafPath reports whether some leaf has kind and path suffix.
func HasLeafPath(ls []Leaf, kind, pathSuffix string) bool {
	for _, l := range ls {
		if l.Kind == kind && strings.HasSuffix(l.Path, pathSuffix) {
			return true
		}
	}
	return false
}

// VariadicElems returns the element values of a compiler-built variadic slice (new [n]T;
// stores to its IndexAddrs; Slice), or nil if v is not of that shape.
func VariadicElems(v ssa.Value) []ssa.Value {
	sl, ok := v.(*ssa.Slice)
	if !ok {
		return nil
	}
	al, ok := sl.X.(*ssa.Alloc)
	if !ok {
		return nil
	}
	var out []ssa.Value
	for _, r := range *al.Referrers() {
		if ia, ok := r.(*ssa.IndexAddr); ok {
			for _, rr := range *ia.Referrers() {
				if st, ok := rr.(*ssa.Store); ok && st.Addr == ia {
					out = append(out, st.Val)
				}
			}
		}
	}
	return out
}

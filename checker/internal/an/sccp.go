package an

import (
	"go/constant"
	"go/token"

	"golang.org/x/tools/go/ssa"
)

// EvalConst performs conditional constant propagation of fn with every parameter bound to a
// constant (classic SCCP specialised to fully-constant inputs): it follows the unique feasible
// path through the SSA CFG, folding integer/bool/string comparisons and arithmetic, and returns
// the constant results. ok=false as soon as something is not foldable (call, load, ...), so the
// caller reports "undecided" instead of guessing. Nothing is executed: only go/constant folding.
func EvalConst(fn *ssa.Function, args []constant.Value) (results []constant.Value, ok bool) {
	if len(fn.Blocks) == 0 || len(args) != len(fn.Params) {
		return nil, false
	}
	env := map[ssa.Value]constant.Value{}
	for i, p := range fn.Params {
		env[p] = args[i]
	}
	val := func(v ssa.Value) (constant.Value, bool) {
		for {
			switch x := v.(type) {
			case *ssa.ChangeType:
				v = x.X
				continue
			case *ssa.Convert:
				v = x.X
				continue
			}
			break
		}
		if c, ok := v.(*ssa.Const); ok {
			if c.Value == nil {
				return nil, false
			}
			return c.Value, true
		}
		r, ok := env[v]
		return r, ok
	}
	var prev *ssa.BasicBlock
	b := fn.Blocks[0]
	for steps := 0; steps < 10000; steps++ {
		for _, in := range b.Instrs {
			switch x := in.(type) {
			case *ssa.Phi:
				for i, p := range b.Preds {
					if p == prev {
						if c, ok := val(x.Edges[i]); ok {
							env[x] = c
						} else {
							return nil, false
						}
					}
				}
			case *ssa.BinOp:
				l, ok1 := val(x.X)
				r, ok2 := val(x.Y)
				if !ok1 || !ok2 {
					return nil, false
				}
				switch x.Op {
				case token.EQL, token.NEQ, token.LSS, token.LEQ, token.GTR, token.GEQ:
					env[x] = constant.MakeBool(constant.Compare(l, x.Op, r))
				case token.ADD, token.SUB, token.MUL:
					env[x] = constant.BinaryOp(l, x.Op, r)
				case token.LAND, token.LOR:
					env[x] = constant.BinaryOp(l, x.Op, r)
				default:
					return nil, false
				}
			case *ssa.UnOp:
				if x.Op != token.NOT {
					return nil, false
				}
				o, ok := val(x.X)
				if !ok {
					return nil, false
				}
				env[x] = constant.UnaryOp(token.NOT, o, 0)
			case *ssa.ChangeType, *ssa.Convert, *ssa.DebugRef:
			case *ssa.If:
				cnd, ok := val(x.Cond)
				if !ok {
					return nil, false
				}
				prev = b
				if constant.BoolVal(cnd) {
					b = b.Succs[0]
				} else {
					b = b.Succs[1]
				}
				goto next
			case *ssa.Jump:
				prev = b
				b = b.Succs[0]
				goto next
			case *ssa.Return:
				for _, r := range x.Results {
					c, ok := val(r)
					if !ok {
						return nil, false
					}
					results = append(results, c)
				}
				return results, true
			default:
				return nil, false
			}
		}
		return nil, false
	next:
	}
	return nil, false
}

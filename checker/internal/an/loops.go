package an

import (
	"go/token"

	"golang.org/x/tools/go/ssa"
)

// NaturalLoop returns the body of the natural loop(s) headed by h: h plus every block that can
// reach a back-edge source of h without passing through h. Empty if h heads no loop.
func NaturalLoop(h *ssa.BasicBlock) map[*ssa.BasicBlock]bool {
	body := map[*ssa.BasicBlock]bool{}
	var stack []*ssa.BasicBlock
	for _, p := range h.Preds {
		if h.Dominates(p) {
			if !body[p] && p != h {
				body[p] = true
				stack = append(stack, p)
			}
			body[h] = true
		}
	}
	for len(stack) > 0 {
		b := stack[len(stack)-1]
		stack = stack[:len(stack)-1]
		for _, p := range b.Preds {
			if !body[p] {
				body[p] = true
				if p != h {
					stack = append(stack, p)
				}
			}
		}
	}
	return body
}

// EnclosingLoop returns the innermost loop header whose natural loop contains b (nil if none).
func EnclosingLoop(b *ssa.BasicBlock) (*ssa.BasicBlock, map[*ssa.BasicBlock]bool) {
	var best *ssa.BasicBlock
	var bestBody map[*ssa.BasicBlock]bool
	for _, h := range b.Parent().Blocks {
		if !h.Dominates(b) {
			continue
		}
		body := NaturalLoop(h)
		if !body[b] {
			continue
		}
		if best == nil || len(body) < len(bestBody) {
			best, bestBody = h, body
		}
	}
	return best, bestBody
}

// LoopExit is a CFG edge leaving a loop body.
type LoopExit struct {
	From, To *ssa.BasicBlock
}

// EarlyExits lists the edges that leave the loop headed by h from a block other than h itself
// (break, return, goto out of the body). The header's own exit edge (condition false / range
// exhausted) is the regular exit. Edges into blocks that end in panic are ignored.
func EarlyExits(h *ssa.BasicBlock, body map[*ssa.BasicBlock]bool) []LoopExit {
	var out []LoopExit
	for b := range body {
		if b == h {
			continue
		}
		for _, s := range b.Succs {
			if !body[s] {
				if _, isPanic := s.Instrs[len(s.Instrs)-1].(*ssa.Panic); isPanic {
					continue
				}
				out = append(out, LoopExit{b, s})
			}
		}
		if len(b.Succs) == 0 {
			if _, isPanic := b.Instrs[len(b.Instrs)-1].(*ssa.Panic); !isPanic {
				out = append(out, LoopExit{b, nil})
			}
		}
	}
	return out
}

// BoolOnlyIf checks a predicate function: can it return the value `want` on a path on which
// property P does NOT hold?  isP(v) says whether boolean value v is equivalent to P (holdsWhen =
// true) or to not-P (holdsWhen = false); it is consulted both for branch conditions and for
// returned values (negations are stripped before asking). Returns the offending returns.
func BoolOnlyIf(fn *ssa.Function, want bool, isP func(v ssa.Value) (decides bool, holdsWhen bool)) []ssa.Instruction {
	type edge struct {
		b *ssa.BasicBlock
		i int
	}
	// cut the edges on which P holds: the remaining graph is "P does not hold (or unknown)"
	cut := map[edge]bool{}
	for _, b := range fn.Blocks {
		if v, trueIdx, ok := BoolCondEdge(b); ok {
			if dec, when := isP(v); dec {
				if when {
					cut[edge{b, trueIdx}] = true
				} else {
					cut[edge{b, 1 - trueIdx}] = true
				}
			}
		}
	}
	reach := map[*ssa.BasicBlock]bool{}
	live := map[edge]bool{}
	var walk func(b *ssa.BasicBlock)
	walk = func(b *ssa.BasicBlock) {
		if reach[b] {
			return
		}
		reach[b] = true
		for i, s := range b.Succs {
			if cut[edge{b, i}] {
				continue
			}
			live[edge{b, i}] = true
			walk(s)
		}
	}
	if len(fn.Blocks) > 0 {
		walk(fn.Blocks[0])
	}
	type key struct {
		v ssa.Value
		w bool
	}
	var possibly func(v ssa.Value, w bool, seen map[key]bool) bool
	possibly = func(v ssa.Value, w bool, seen map[key]bool) bool {
		if seen[key{v, w}] {
			return false
		}
		seen[key{v, w}] = true
		if dec, when := isP(v); dec {
			// under not-P, v has the value !when
			return w != when
		}
		switch x := v.(type) {
		case *ssa.Const:
			return x.Value != nil && (x.Value.String() == "true") == w
		case *ssa.Phi:
			for i, e := range x.Edges {
				pred := x.Block().Preds[i]
				isLive := false
				for si, s := range pred.Succs {
					if s == x.Block() && reach[pred] && live[edge{pred, si}] {
						isLive = true
					}
				}
				if isLive && possibly(e, w, seen) {
					return true
				}
			}
			return false
		case *ssa.UnOp:
			if x.Op == token.NOT {
				return possibly(x.X, !w, seen)
			}
			if x.Op == token.MUL {
				if al, ok := x.X.(*ssa.Alloc); ok && al.Referrers() != nil {
					for _, r := range *al.Referrers() {
						if st, ok := r.(*ssa.Store); ok && st.Addr == ssa.Value(al) && reach[st.Block()] {
							if possibly(st.Val, w, seen) {
								return true
							}
						}
					}
					return false
				}
			}
		}
		return true
	}
	var bad []ssa.Instruction
	for _, b := range fn.Blocks {
		if !reach[b] {
			continue
		}
		if r, ok := b.Instrs[len(b.Instrs)-1].(*ssa.Return); ok && len(r.Results) >= 1 {
			if possibly(RetVal(r, 0), want, map[key]bool{}) {
				bad = append(bad, r)
			}
		}
	}
	return bad
}

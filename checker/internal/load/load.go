// Package load type-checks /repo's current working tree and builds its SSA form.
package load

import (
	"fmt"
	"go/token"
	"os"
	"sort"
	"strings"

	"golang.org/x/tools/go/packages"
	"golang.org/x/tools/go/ssa"
	"golang.org/x/tools/go/ssa/ssautil"
)

const ModulePath = "github.com/AliceO2Group/Control"

type Program struct {
	Repo   string
	Fset   *token.FileSet
	Init   []*packages.Package
	ByPath map[string]*packages.Package
	SSA    *ssa.Program
	// TypeErrors lists type errors found in module packages (non generated).
	TypeErrors []string
	TotalPkgs  int
	// Notes of the pre-analysis normalisation (helper expansion), if any.
	Normalised []string
	Overlay    map[string][]byte
}

// Load loads every package of the module rooted at repo (what `go build ./...` covers on
// the given GOOS) together with all dependencies from source, and builds SSA for all of them.
func Load(repo string, goos string, extraEnv ...string) (*Program, error) {
	p, err := LoadOverlay(repo, goos, nil, extraEnv...)
	if err != nil || len(p.TypeErrors) > 0 {
		return p, err
	}
	p.BuildSSA()
	return p, nil
}

// BuildSSA builds the SSA form of everything loaded.
func (p *Program) BuildSSA() {
	prog, _ := ssautil.AllPackages(p.Init, ssa.InstantiateGenerics)
	prog.Build()
	p.SSA = prog
}

// LoadOverlay type-checks the module with some files replaced by the given contents; SSA is not built.
func LoadOverlay(repo string, goos string, overlay map[string][]byte, extraEnv ...string) (*Program, error) {
	env := append(os.Environ(),
		"GOFLAGS=-mod=mod", "GOPROXY=off", "GOSUMDB=off", "GOTOOLCHAIN=local", "GOWORK=off", "CGO_ENABLED=0")
	if goos != "" {
		env = append(env, "GOOS="+goos)
	}
	env = append(env, extraEnv...)
	fset := token.NewFileSet()
	cfg := &packages.Config{
		Mode:    packages.LoadAllSyntax,
		Dir:     repo,
		Fset:    fset,
		Tests:   false,
		Env:     env,
		Overlay: overlay,
	}
	pkgs, err := packages.Load(cfg, "./...")
	if err != nil {
		return nil, fmt.Errorf("packages.Load: %w", err)
	}
	p := &Program{Repo: repo, Fset: fset, Init: pkgs, ByPath: map[string]*packages.Package{}, Overlay: overlay}
	packages.Visit(pkgs, nil, func(pk *packages.Package) {
		p.ByPath[pk.PkgPath] = pk
		p.TotalPkgs++
		if strings.HasPrefix(pk.PkgPath, ModulePath) {
			for _, e := range pk.Errors {
				p.TypeErrors = append(p.TypeErrors, e.Error())
			}
		}
	})
	sort.Strings(p.TypeErrors)
	return p, nil
}

package rules

import (
	"fmt"
	"go/token"
	"go/types"
	"sort"
	"strings"

	"golang.org/x/tools/go/ssa"

	"verifchk/internal/an"
	"verifchk/internal/load"
)

// Rules added after held-out seeding round 7 (executor, restart, events, configuration queries).

// R15l: a role is enabled only when its enabled expression evaluated to "true" or "1": IsEnabled answers true on no
// other value (the empty string included).
func r15l(c *an.Ctx) {
	c.Rule("R15l", "roleBase.IsEnabled: true only for the values \"true\" and \"1\"", 1)
	fn := c.MustFn(wfPkg, "roleBase.IsEnabled")
	if fn == nil {
		return
	}
	c.Subject()
	isTruthTest := func(v ssa.Value) bool {
		b, ok := v.(*ssa.BinOp)
		if !ok || b.Op != token.EQL {
			return false
		}
		for _, o := range []ssa.Value{b.X, b.Y} {
			if s, ok := an.ConstString(o); ok && (s == "true" || s == "1") {
				return true
			}
		}
		return false
	}
	isTruthAtom := func(a an.Atom) bool {
		if a.Op != token.EQL || a.Y == nil {
			return false
		}
		for _, o := range []ssa.Value{a.X, a.Y} {
			if s, ok := an.ConstString(o); ok && (s == "true" || s == "1") {
				return true
			}
		}
		return false
	}
	var bad []string
	n := 0
	var check func(v ssa.Value, at *ssa.BasicBlock, from *ssa.BasicBlock, depth int)
	check = func(v ssa.Value, at, from *ssa.BasicBlock, depth int) {
		if depth > 6 {
			bad = append(bad, "too deep")
			return
		}
		switch x := v.(type) {
		case *ssa.Const:
			if x.Value != nil && x.Value.String() == "true" {
				ok := false
				if from != nil {
					alts := an.EdgeAlts(from, at)
					ok = len(alts) > 0
					for _, alt := range alts {
						has := false
						for _, a := range alt {
							has = has || isTruthAtom(a)
						}
						ok = ok && has
					}
				} else {
					ok = an.GuardedByAll(at, isTruthAtom)
				}
				if !ok {
					bad = append(bad, c.PosStr(lastPos(at))+": true without the value having been compared to \"true\"/\"1\"")
				}
			}
		case *ssa.Phi:
			for i, e := range x.Edges {
				check(e, x.Block(), x.Block().Preds[i], depth+1)
			}
		default:
			if !isTruthTest(v) {
				bad = append(bad, c.PosStr(v.Pos())+": the answer is not a comparison with \"true\"/\"1\"")
			}
		}
	}
	for _, r := range an.Returns(fn) {
		if len(r.Results) != 1 {
			continue
		}
		n++
		check(an.RetVal(r, 0), r.Block(), nil, 0)
	}
	if len(an.CallsSuffix(fn, "strings.TrimSpace")) == 0 {
		bad = append(bad, "the value is compared without having been trimmed (IsEnabled is also asked before ProcessTemplates has trimmed the field)")
	}
	sort.Strings(bad)
	c.Ob("(*core/workflow.roleBase).IsEnabled|only-true-or-1", fn.Pos(), len(bad) == 0 && n > 0,
		"IsEnabled can answer true for a value other than \"true\"/\"1\" (%s): a role whose enabled expression evaluated to something else (false-like, empty) stays in the tree with its whole subtree", strings.Join(bad, "; "))
}

// R09k: the consolidated answer of several targets has an error text that is exactly the join of the targets' error
// texts (empty when none failed): the task manager decides "no hook failed" on that text being blank.
func r09k(c *an.Ctx) {
	c.Rule("R09k", "MesosCommandMultiResponse.Err: the text is the join of the per-target error texts and nothing else", 1)
	fn := c.MustFn(ccPkg, "MesosCommandMultiResponse.Err")
	if fn == nil {
		return
	}
	c.Subject()
	var bad []string
	joins := 0
	for _, r := range an.Returns(fn) {
		if len(r.Results) != 1 {
			continue
		}
		for _, v := range roleValues(an.RetVal(r, 0), map[ssa.Value]bool{}) {
			if an.IsNilConst(v) {
				continue
			}
			v = an.Strip(v)
			if mi, ok := v.(*ssa.MakeInterface); ok {
				v = an.Strip(mi.X)
			}
			call, ok := v.(*ssa.Call)
			if !ok || !strings.HasSuffix(an.CalleeName(&call.Call), "errors.New") {
				bad = append(bad, c.PosStr(r.Pos())+": not errors.New(...)")
				continue
			}
			arg := an.Strip(call.Call.Args[0])
			if j, ok := arg.(*ssa.Call); ok && strings.HasSuffix(an.CalleeName(&j.Call), "strings.Join") {
				joins++
				continue
			}
			if _, isConst := arg.(*ssa.Const); isConst {
				continue
			}
			bad = append(bad, c.PosStr(r.Pos())+": the text is not the plain join of the targets' errors")
		}
	}
	sort.Strings(bad)
	c.Ob("(*core/controlcommands.MesosCommandMultiResponse).Err|text-is-the-join", fn.Pos(), len(bad) == 0 && joins > 0,
		"the error text of a multi-target answer is more than the join of the targets' error texts (%s): it is non-blank also when no target failed, and TriggerHooks (which tests the text for blank) then fails every hook of the moment although none failed", strings.Join(bad, "; "))
}

// R16g: every implementation of transitioner.Transitioner is one whose Commit is analysed by R16a-f (FairMQ, Direct).
// A further implementation - a wrapper included - answers with a final state of its own making.
func r16g(c *an.Ctx) {
	c.Rule("R16g", "all implementations of transitioner.Transitioner are the analysed ones", 2)
	iface := c.NamedType("executor/executorcmd/transitioner", "Transitioner")
	if iface == nil {
		c.Lost("type transitioner.Transitioner")
		return
	}
	it, ok := iface.Underlying().(*types.Interface)
	if !ok {
		c.Lost("interface transitioner.Transitioner")
		return
	}
	known := map[string]bool{"executor/executorcmd/transitioner.FairMQ": true, "executor/executorcmd/transitioner.Direct": true}
	var paths []string
	for p := range c.P.ByPath {
		if strings.HasPrefix(p, load.ModulePath) {
			paths = append(paths, p)
		}
	}
	sort.Strings(paths)
	for _, p := range paths {
		pk := c.P.ByPath[p]
		if pk.Types == nil {
			continue
		}
		sc := pk.Types.Scope()
		for _, n := range sc.Names() {
			tn, ok := sc.Lookup(n).(*types.TypeName)
			if !ok || tn.IsAlias() {
				continue
			}
			named, ok := tn.Type().(*types.Named)
			if !ok || named.TypeParams().Len() > 0 {
				continue
			}
			if _, isI := named.Underlying().(*types.Interface); isI {
				continue
			}
			if !types.Implements(named, it) && !types.Implements(types.NewPointer(named), it) {
				continue
			}
			c.Subject()
			name := an.Short(p) + "." + n
			c.Ob("Transitioner-implementation|"+name, tn.Pos(), known[name],
				"%s implements transitioner.Transitioner but its Commit is not one of the analysed ones: the state it reports after a transition request is not shown to be the image of the device's state (a wrapper that refuses or short-cuts a request answers with a state it did not learn from the device)", name)
		}
	}
}

// R17n: pidExists probes the process (group) for every pid other than 0: the only answer given without probing is
// for pid == 0; negative pids are process groups, which is what the kill escalation asks about.
func r17n(c *an.Ctx) {
	c.Rule("R17n", "pidExists: answers without probing only for pid == 0", 1)
	fn := c.MustFn("executor/executable", "pidExists")
	if fn == nil {
		return
	}
	c.Subject()
	probes := an.CallsSuffix(fn, "os.FindProcess")
	if len(probes) == 0 {
		c.Lost("os.FindProcess in pidExists")
		return
	}
	var bad []string
	for _, r := range an.Returns(fn) {
		after := false
		for _, p := range probes {
			if an.CanReach(p, r) {
				after = true
			}
		}
		if after {
			continue
		}
		ok := an.GuardedByAll(r.Block(), func(a an.Atom) bool {
			if a.Op != token.EQL || a.Y == nil {
				return false
			}
			n, isK := an.ConstInt(a.Y)
			_, isP := a.X.(*ssa.Parameter)
			if !isK {
				n, isK = an.ConstInt(a.X)
				_, isP = a.Y.(*ssa.Parameter)
			}
			return isK && isP && n == 0
		})
		if !ok {
			bad = append(bad, c.PosStr(lastPos(r.Block())))
		}
	}
	sort.Strings(bad)
	c.Ob("executor/executable.pidExists|probe-unless-zero", fn.Pos(), len(bad) == 0,
		"pidExists answers without probing the process on a path not restricted to pid == 0 (at %v): asked about a process group (negative pid) it says \"gone\" at once, the TERM/INT/KILL escalation stops after the first signal and surviving children are never killed", bad)
}

// R17o: closing the rpc client of a task that never got one is harmless: RpcClient.Close touches the receiver only
// after having established that it is not nil.
func r17o(c *an.Ctx) {
	c.Rule("R17o", "RpcClient.Close tolerates a nil receiver", 1)
	fn := c.MustFn("executor/executorcmd", "RpcClient.Close")
	if fn == nil {
		return
	}
	c.Subject()
	recv := fn.Params[0]
	var bad []string
	an.Instrs(fn, func(in ssa.Instruction) {
		deref := false
		switch x := in.(type) {
		case *ssa.FieldAddr:
			deref = x.X == ssa.Value(recv)
		case *ssa.UnOp:
			deref = x.Op == token.MUL && x.X == ssa.Value(recv)
		case *ssa.Call:
			if !x.Call.IsInvoke() && len(x.Call.Args) > 0 && x.Call.Args[0] == ssa.Value(recv) && x.Call.StaticCallee() != nil && x.Call.StaticCallee().Signature.Recv() != nil {
				deref = true // a method of the receiver that may dereference it
			}
		}
		if deref && !an.KnownNonNil(in.Block(), recv) {
			bad = append(bad, c.PosStr(in.Pos()))
		}
	})
	sort.Strings(bad)
	c.Ob("(*executor/executorcmd.RpcClient).Close|nil-receiver-safe", fn.Pos(), len(bad) == 0,
		"Close dereferences its receiver without having tested it for nil (at %v): killing or stopping a task whose client was never dialled (child never started, startup timeout) panics and takes the executor down", bad)
}

// R17p: the status-update function of a task is given to the task and used by nobody else: the launch handler does
// not send statuses of its own (a failed Launch has already reported TASK_FAILED).
func r17p(c *an.Ctx) {
	c.Rule("R17p", "executor: the function made by makeSendStatusUpdateFunc is only handed to executable.NewTask", 1)
	pk := c.Pkg("executor")
	if pk == nil {
		c.Lost("package executor")
		return
	}
	n := 0
	for _, fn := range c.ModuleFuncs() {
		if fn.Pkg != pk {
			continue
		}
		for _, ci := range an.CallsSuffix(fn, "executor.makeSendStatusUpdateFunc") {
			call, ok := ci.(*ssa.Call)
			if !ok {
				continue
			}
			n++
			c.Subject()
			var bad []string
			var uses func(v ssa.Value, depth int)
			uses = func(v ssa.Value, depth int) {
				if v.Referrers() == nil || depth > 4 {
					return
				}
				for _, r := range *v.Referrers() {
					switch x := r.(type) {
					case ssa.CallInstruction:
						cc := x.Common()
						if cc.Value == v {
							bad = append(bad, c.PosStr(x.Pos())+": called directly")
						} else if !strings.HasSuffix(an.CalleeName(cc), "executor/executable.NewTask") {
							bad = append(bad, c.PosStr(x.Pos())+": handed to "+an.Short(an.CalleeName(cc)))
						}
					case *ssa.Phi:
						uses(x, depth+1)
					case *ssa.Store:
						if al, isAl := x.Addr.(*ssa.Alloc); isAl && al.Referrers() != nil {
							for _, rr := range *al.Referrers() {
								if ld, isLd := rr.(*ssa.UnOp); isLd && ld.Op == token.MUL {
									uses(ld, depth+1)
								}
							}
						}
					case *ssa.MakeClosure:
						bad = append(bad, c.PosStr(x.Pos())+": captured by a closure")
					}
				}
			}
			uses(call, 0)
			sort.Strings(bad)
			c.Ob("makeSendStatusUpdateFunc|"+c.RelName(fn)+"|only-for-the-task", call.Pos(), len(bad) == 0,
				"the task's status-update function is also used outside the task (%s): a terminal status sent from there comes on top of the one the task itself reports (two terminal statuses for one task)", strings.Join(bad, "; "))
		}
	}
	if n == 0 {
		c.Lost("makeSendStatusUpdateFunc call in package executor")
	}
}

// R18h: the tasks of a previous life are asked about on every (re)subscription: the rule that issues the
// reconciliation call is not limited (Once, rate limit, condition) in the SUBSCRIBED chain.
func r18h(c *an.Ctx) {
	c.Rule("R18h", "buildEventHandler: the reconciliation rule of the SUBSCRIBED chain is not limited", 1)
	bh := c.MustFn("core/task", "schedulerState.buildEventHandler")
	if bh == nil {
		return
	}
	fns := []*ssa.Function{bh}
	an.Instrs(bh, func(in ssa.Instruction) {
		if cl, isCall := in.(*ssa.Call); isCall {
			if cal := cl.Call.StaticCallee(); cal != nil && cal.Pkg == bh.Pkg && cal.Blocks != nil {
				fns = append(fns, cal)
			}
		}
	})
	limiting := map[string]bool{"Once": true, "Poll": true, "RateLimit": true, "Every": true, "Drop": true, "DropOnError": true, "DropOnSuccess": true,
		"If": true, "Unless": true, "UnlessDone": true, "OnFailure": true, "Eval": false}
	n := 0
	for _, fn := range fns {
		for _, ci := range an.Calls(fn, func(name string, ci ssa.CallInstruction) bool { return an.MethodName(ci.Common()) == "HandleF" }) {
			call, ok := ci.(*ssa.Call)
			if !ok {
				continue
			}
			isRecon := false
			for _, a := range call.Call.Args {
				if reconcileHandler(bh, a) {
					isRecon = true
				}
			}
			if !isRecon {
				continue
			}
			n++
			c.Subject()
			var lim []string
			var follow func(v ssa.Value, depth int)
			follow = func(v ssa.Value, depth int) {
				if v.Referrers() == nil || depth > 4 {
					return
				}
				for _, r := range *v.Referrers() {
					if x, ok := r.(*ssa.Call); ok && len(x.Call.Args) > 0 && x.Call.Args[0] == v && x.Call.StaticCallee() != nil {
						m := x.Call.StaticCallee().Name()
						if limiting[m] {
							lim = append(lim, m+" at "+c.PosStr(x.Pos()))
						}
						if strings.Contains(x.Type().String(), "eventrules.Rule") {
							follow(x, depth+1)
						}
					}
				}
			}
			follow(call, 0)
			sort.Strings(lim)
			c.Ob("(*core/task.schedulerState).buildEventHandler|reconciliation-unlimited", call.Pos(), len(lim) == 0,
				"the rule issuing the reconciliation call is limited (%v): after a later reconnection or failover the master is not asked again, and tasks of the previous life that are still alive are never learnt of and never killed", lim)
		}
	}
	if n == 0 {
		c.Lost("HandleF(reconciliationCall()) in buildEventHandler")
	}
}

// R18i: a malformed setting in the service environment stops the core: the getenv* helpers panic on a parse error
// instead of going on with some other value (the Mesos failover timeout and framework settings are read this way).
func r18i(c *an.Ctx) {
	c.Rule("R18i", "core getenvInt/getenvDuration/getenvFloat: a parse error never returns a value", 3)
	for _, name := range []string{"getenvInt", "getenvDuration", "getenvFloat"} {
		fn := c.MustFn("core", name)
		if fn == nil {
			continue
		}
		c.Subject()
		ok := false
		n := 0
		an.Instrs(fn, func(in ssa.Instruction) {
			call, isCall := in.(*ssa.Call)
			if !isCall {
				return
			}
			ev := errResult(call)
			if ev == nil {
				return
			}
			n++
			tests := an.ErrTests(ev)
			ok = len(tests) > 0
			for _, t := range tests {
				for b := range reachFrom(t.NonNilSucc) {
					if _, isRet := b.Instrs[len(b.Instrs)-1].(*ssa.Return); isRet {
						ok = false
					}
				}
			}
		})
		c.Ob("core."+name+"|parse-error-aborts", fn.Pos(), ok && n == 1,
			"%s can return a value although the setting could not be parsed: the core starts with a framework/failover setting nobody chose (a zero failover timeout makes Mesos kill all tasks and forget the framework on the first disconnection)", name)
	}
}

// reconcileHandler: v is the handler that requests reconciliation - the literal returned by a same-package
// constructor (reconciliationCall() style), a function literal, or a (bound) method - recognised by its call of
// calls.Reconcile.
func reconcileHandler(bh *ssa.Function, v ssa.Value) bool {
	sends := func(f *ssa.Function) bool {
		return f != nil && f.Blocks != nil && len(an.CallsSuffix(f, "scheduler/calls.Reconcile")) > 0
	}
	var fns []*ssa.Function
	x := an.Strip(v)
	if ct, ok := x.(*ssa.ChangeType); ok {
		x = an.Strip(ct.X)
	}
	switch y := x.(type) {
	case *ssa.Call:
		if cal := y.Call.StaticCallee(); cal != nil && cal.Pkg == bh.Pkg {
			fns = append(fns, cal.AnonFuncs...)
		}
	case *ssa.Function:
		fns = append(fns, y)
	default:
		if f := an.ClosureFn(x); f != nil {
			fns = append(fns, f)
		}
	}
	for _, f := range fns {
		if sends(f) {
			return true
		}
		if f.Synthetic != "" && f.Blocks != nil {
			// bound method wrapper: the method it forwards to
			found := false
			an.Instrs(f, func(in ssa.Instruction) {
				if cl, isCall := in.(*ssa.Call); isCall && sends(cl.Call.StaticCallee()) {
					found = true
				}
			})
			if found {
				return true
			}
		}
	}
	return false
}

func reachFrom(b *ssa.BasicBlock) map[*ssa.BasicBlock]bool {
	seen := map[*ssa.BasicBlock]bool{}
	var walk func(x *ssa.BasicBlock)
	walk = func(x *ssa.BasicBlock) {
		if seen[x] {
			return
		}
		seen[x] = true
		for _, s := range x.Succs {
			walk(s)
		}
	}
	walk(b)
	return seen
}

// R18j: what the core reads back from Consul after a restart (the framework id among it) is read with the default
// consistency: no query of the Consul source allows stale answers.
func r18j(c *an.Ctx) {
	c.Rule("R18j", "cfgbackend.ConsulSource: no read allows stale answers", 5)
	pk := c.Pkg("configuration/cfgbackend")
	if pk == nil {
		c.Lost("package configuration/cfgbackend")
		return
	}
	for _, fn := range c.ModuleFuncs() {
		if fn.Pkg != pk || fn.Signature.Recv() == nil || namedOf(fn.Signature.Recv().Type()) != "ConsulSource" {
			continue
		}
		c.Subject()
		var bad []string
		an.Instrs(fn, func(in ssa.Instruction) {
			st, ok := in.(*ssa.Store)
			if !ok {
				return
			}
			if fa, ok := st.Addr.(*ssa.FieldAddr); ok && fieldNameAt(fa) == "AllowStale" {
				if k, isK := st.Val.(*ssa.Const); !isK || k.Value == nil || k.Value.String() != "false" {
					bad = append(bad, c.PosStr(st.Pos()))
				}
			}
		})
		sort.Strings(bad)
		c.Ob("ConsulSource-read|"+c.RelName(fn)+"|not-stale", fn.Pos(), len(bad) == 0,
			"a Consul query allows stale answers (at %v): right after a restart the core can read an older framework id (or run counter) than the one it last wrote, and registers as a different framework - the tasks of its previous life are then not its own to reconcile and kill", bad)
	}
}

// R19g: at shutdown the plugins are destroyed before the event writers are closed: what the plugins publish while
// being destroyed is still handed to the broker.
func r19g(c *an.Ctx) {
	c.Rule("R19g", "core.Run: plugins are destroyed before the event writers are cleared", 1)
	fn := c.MustFn("core", "Run")
	if fn == nil {
		return
	}
	c.Subject()
	find := func(suffix string) (plain []ssa.Instruction, deferred []ssa.Instruction) {
		for _, f := range an.WithAnon(fn) {
			an.Instrs(f, func(in ssa.Instruction) {
				ci, ok := in.(ssa.CallInstruction)
				if !ok || !strings.HasSuffix(an.CalleeName(ci.Common()), suffix) {
					return
				}
				if _, isD := in.(*ssa.Defer); isD {
					deferred = append(deferred, in)
				} else {
					plain = append(plain, in)
				}
			})
		}
		return
	}
	dP, dD := find("Plugins).DestroyAll")
	cP, cD := find("the.ClearEventWriters")
	ok := len(dP)+len(dD) > 0 && len(cP)+len(cD) > 0
	why := ""
	for _, cl := range cP {
		// a plain clear must be preceded by a plain destroy
		dom := false
		for _, d := range dP {
			if an.Dominates(d, cl) {
				dom = true
			}
		}
		if !dom {
			ok = false
			why = "the writers are cleared at " + c.PosStr(cl.Pos()) + " without the plugins having been destroyed before"
		}
	}
	for _, cl := range cD {
		// a deferred clear runs after everything plain; a deferred destroy must be registered after it (runs before it)
		for _, d := range dD {
			if !an.Dominates(cl, d) {
				ok = false
				why = "both are deferred and the clearing of the writers (registered later) runs first"
			}
		}
		if len(dD) == 0 && len(dP) == 0 {
			ok = false
		}
	}
	if len(cD) == 0 && len(dD) > 0 && len(cP) > 0 {
		ok = false
		why = "the destruction of the plugins is deferred and runs after the writers were cleared"
	}
	c.Ob("core.Run|plugins-destroyed-before-writers-cleared", fn.Pos(), ok,
		"shutdown order: %s: the events the plugins publish while being destroyed (and whatever is still buffered for them) are dropped instead of being flushed to the broker", why)
}

// R19h: CreateEnvironment answers with the id of the environment it made, also when it failed after having made it:
// the caller publishes the failure under that id, which is the partition key of every other event about it.
func r19h(c *an.Ctx) {
	c.Rule("R19h", "CreateEnvironment: once the environment exists (made, or registered) every return carries its id", 1)
	fn := c.MustFn("core/environment", "Manager.CreateEnvironment")
	if fn == nil {
		return
	}
	c.Subject()
	// the environment "exists" from its registration in the manager's map on
	var reg ssa.Instruction
	an.Instrs(fn, func(in ssa.Instruction) {
		if mu, ok := in.(*ssa.MapUpdate); ok && reg == nil && isFieldLoadNamed(mu.Map, "m") {
			reg = mu
		}
	})
	if reg == nil {
		c.Lost("registration of the environment in CreateEnvironment")
		return
	}
	// ... and is known to have been made wherever the result of newEnvironment is established non-nil
	var envVal ssa.Value
	for _, ci := range an.CallsSuffix(fn, "core/environment.newEnvironment") {
		if call, ok := ci.(*ssa.Call); ok && call.Referrers() != nil {
			for _, ref := range *call.Referrers() {
				if ex, isEx := ref.(*ssa.Extract); isEx && ex.Index == 0 {
					envVal = ex
					// kept in a local cell (captured by a closure later on): the guards test loads of the cell
					if ex.Referrers() != nil {
						for _, r2 := range *ex.Referrers() {
							st, isSt := r2.(*ssa.Store)
							if !isSt || st.Val != ssa.Value(ex) {
								continue
							}
							if al, isAl := st.Addr.(*ssa.Alloc); isAl && al.Referrers() != nil {
								for _, r3 := range *al.Referrers() {
									if ld, isLd := r3.(*ssa.UnOp); isLd && ld.Op == token.MUL {
										envVal = ld
										break
									}
								}
							}
						}
					}
				}
			}
		}
	}
	var bad []string
	n := 0
	for _, r := range an.Returns(fn) {
		if len(r.Results) != 2 || !(an.Dominates(reg, r) || (envVal != nil && an.KnownNonNil(r.Block(), envVal))) {
			continue
		}
		isId := false
		for _, x := range roleValues(an.RetVal(r, 0), map[ssa.Value]bool{}) {
			if isFieldLoadNamed(x, "id") {
				isId = true
			} else if call, ok := an.Strip(x).(*ssa.Call); ok && an.MethodName(&call.Call) == "Id" {
				isId = true
			} else {
				isId = false
				break
			}
		}
		if isId {
			n++
			continue
		}
		bad = append(bad, c.PosStr(r.Pos()))
	}
	sort.Strings(bad)
	c.Ob("(*core/environment.Manager).CreateEnvironment|returns-own-id", fn.Pos(), len(bad) == 0 && n > 0,
		"CreateEnvironment returns something other than the new environment's id after the environment was made (at %v): the failure event the caller publishes carries another partition key than the events already published about this environment", bad)
}

// R20g: a query prints back as the four parts it was parsed from, joined by the separator, verbatim: the printing
// functions of componentcfg do not go through path cleaning/joining (which drops empty parts, dots and doubled
// separators).
func r20g(c *an.Ctx) {
	c.Rule("R20g", "componentcfg: queries are printed by plain concatenation, never through path.Join/Clean", 3)
	pk := c.Pkg(cfgPkg)
	if pk == nil {
		c.Lost("package " + cfgPkg)
		return
	}
	for _, fn := range c.ModuleFuncs() {
		if fn.Pkg != pk || fn.Signature.Recv() == nil {
			continue
		}
		switch fn.Name() {
		case "Path", "Raw", "AbsoluteRaw", "AbsoluteWithoutTimestamp", "WithoutTimestamp", "String":
		default:
			continue
		}
		c.Subject()
		var bad []string
		an.Instrs(fn, func(in ssa.Instruction) {
			if call, ok := in.(*ssa.Call); ok {
				n := an.CalleeName(&call.Call)
				if n == "path.Join" || n == "path.Clean" || n == "path/filepath.Join" || n == "path/filepath.Clean" {
					bad = append(bad, c.PosStr(call.Pos()))
				}
			}
		})
		sort.Strings(bad)
		c.Ob("print|"+c.RelName(fn)+"|verbatim", fn.Pos(), len(bad) == 0,
			"a query is printed through path cleaning (at %v): parts that are empty or contain dots/slashes are dropped or merged, so the printed query is not the one that was parsed, and the key looked up is another entry's", bad)
	}
}

// R20h: every template evaluation gets a function map of its own: MakeUtilFuncMap answers with maps it made in that
// call (the functions in it close over the variables of that one evaluation).
func r20h(c *an.Ctx) {
	c.Rule("R20h", "template.MakeUtilFuncMap: the returned map and its sub-maps are made in the call", 1)
	fn := c.MustFn("configuration/template", "MakeUtilFuncMap")
	if fn == nil {
		return
	}
	c.Subject()
	var bad []string
	n := 0
	for _, r := range an.Returns(fn) {
		for i := range r.Results {
			for _, v := range roleValues(an.RetVal(r, i), map[ssa.Value]bool{}) {
				n++
				if _, ok := an.Strip(v).(*ssa.MakeMap); !ok {
					bad = append(bad, c.PosStr(r.Pos())+": the returned map is not made in the call")
				}
			}
		}
	}
	an.Instrs(fn, func(in ssa.Instruction) {
		mu, ok := in.(*ssa.MapUpdate)
		if !ok {
			return
		}
		for _, v := range roleValues(mu.Map, map[ssa.Value]bool{}) {
			if _, isMk := an.Strip(v).(*ssa.MakeMap); !isMk {
				bad = append(bad, c.PosStr(mu.Pos())+": writes into a map not made in the call")
			}
		}
	})
	sort.Strings(bad)
	c.Ob("configuration/template.MakeUtilFuncMap|fresh-maps", fn.Pos(), len(bad) == 0 && n > 0,
		"MakeUtilFuncMap hands out or fills a map that outlives the call (%s): concurrent evaluations write the same map, and a payload is templated with functions bound to another evaluation's variables", strings.Join(uniq(bad), "; "))
}

func uniq(in []string) []string {
	var out []string
	seen := map[string]bool{}
	for _, s := range in {
		if !seen[s] {
			seen[s] = true
			out = append(out, s)
		}
	}
	if len(out) > 4 {
		out = append(out[:4], fmt.Sprintf("... (%d more)", len(out)-4))
	}
	return out
}

// R06l: a cleanup that could not kill everything says so: in doCleanupTasks the error of the task manager's
// Cleanup / KillTasks call is what is returned - it is not replaced by the outcome of anything done afterwards.
func r06l(c *an.Ctx) {
	c.Rule("R06l", "RpcServer.doCleanupTasks: the error of Cleanup/KillTasks is the error returned", 2)
	fn := c.MustFn("core", "RpcServer.doCleanupTasks")
	if fn == nil {
		return
	}
	for _, ci := range an.Calls(fn, func(n string, ci ssa.CallInstruction) bool {
		m := an.MethodName(ci.Common())
		return m == "Cleanup" || m == "KillTasks"
	}) {
		call, ok := ci.(*ssa.Call)
		if !ok {
			continue
		}
		ev := errResult(call)
		if ev == nil {
			continue
		}
		c.Subject()
		fl := an.FlowFromFacts(call.Block(), nil, ev)
		good := true
		n := 0
		for _, ret := range fl.ReachedReturns() {
			n++
			v := an.RetVal(ret, len(ret.Results)-1)
			for _, pv := range fl.PossibleValues(v, ret, call) {
				if pv != ev {
					good = false
				}
			}
		}
		c.Ob("(*core.RpcServer).doCleanupTasks|"+an.MethodName(&call.Call)+"|error-returned", call.Pos(), good && n > 0,
			"the error of %s can be replaced before doCleanupTasks returns: a destroy or cleanup that could not kill some task is then answered with success, and the task that is still running is reported as gone", an.MethodName(&call.Call))
	}
}

package rules

import (
	"fmt"
	"go/token"
	"go/types"
	"sort"
	"strings"

	"verifchk/internal/an"

	"golang.org/x/tools/go/ssa"
)

func init() {
	register("C15", "Decides structural necessary conditions of deterministic workflow loading with pruning: "+
		"(R15a) the goroutines of concurrent template processing / iterator expansion perform no schedule-dependent shared write (results land in private pre-sized slots, errors only in a non-nil accumulator); "+
		"(R15b) a child's error always reaches a return before the role list is rebuilt; (R15c) disabled roles drop their children before processing, children are filtered by IsEnabled after processing, an emptied aggregator disables itself, and the disabled signal is raised at stage 0 only; "+
		"(R15d) iterator expansion creates one child per range element in index order in both modes. Does not decide equality of the produced trees or template evaluation.", runC15)
}

func runC15(c *an.Ctx) {
	r15a(c)
	r15b(c)
	r15c(c)
	r15d(c)
	r15e(c)
	r15f(c)
	r15g(c)
	r15h(c)
	// round 7
	r15i(c)
	r15j(c)
	r15k(c)
	r15l(c)
	// round 8
	r15m(c)
	r15n(c)
	r15o(c)
	c.As(map[string]string{"R14c": "R15p"}, func() { r14c(c) })
	// round 9
	r15q(c)
	r15r(c)
}

var c15Funcs = []struct{ pkg, name, role string }{
	{"core/workflow", "aggregatorRole.ProcessTemplates", "core/workflow.(*aggregatorRole).ProcessTemplates"},
	{"core/workflow", "iteratorRole.ProcessTemplates", "core/workflow.(*iteratorRole).ProcessTemplates"},
	{"core/workflow", "iteratorRole.expandTemplate", "core/workflow.(*iteratorRole).expandTemplate"},
}

func r15a(c *an.Ctx) {
	c.Rule("R15a", "goroutines of concurrent template processing / iterator expansion: no schedule-dependent shared write (P8, closure body only)", 3)
	for _, f := range c15Funcs {
		if fn := c.MustFn(f.pkg, f.name); fn != nil {
			if goroutineWriteRule(c, fn, f.role) == 0 {
				c.Lost("goroutine in " + f.role)
			}
		}
	}
	c.Assume("R15a: writes hidden behind a function called from the goroutine are not followed (bound: closure body)")
}

// childCalls: calls in fn's own body that process/generate one child: invoke ProcessTemplates or generateRole.
func childCalls(fn *ssa.Function) []*ssa.Call {
	var out []*ssa.Call
	an.Instrs(fn, func(in ssa.Instruction) {
		if call, ok := in.(*ssa.Call); ok {
			m := an.MethodName(&call.Call)
			if (m == "ProcessTemplates" || m == "generateRole") && call.Call.IsInvoke() {
				out = append(out, call)
			}
		}
	})
	return out
}

func errResult(call *ssa.Call) ssa.Value {
	// single error result, or the last element of a tuple
	if call.Type().String() == "error" {
		return call
	}
	var last ssa.Value
	if call.Referrers() != nil {
		for _, r := range *call.Referrers() {
			if ex, ok := r.(*ssa.Extract); ok && ex.Type().String() == "error" {
				last = ex
			}
		}
	}
	return last
}

func rolesStores(fn *ssa.Function) []ssa.Instruction {
	var out []ssa.Instruction
	an.Instrs(fn, func(in ssa.Instruction) {
		if st, ok := in.(*ssa.Store); ok {
			if f := an.FieldOf(st.Addr); f != nil && f.Name() == "Roles" {
				out = append(out, st)
			}
		}
	})
	return out
}

func r15b(c *an.Ctx) {
	c.Rule("R15b", "an error of any child reaches a return before the role list is rebuilt (sequential: at once; concurrent: accumulator's ErrorOrNil after the join)", 6)
	for _, f := range c15Funcs {
		fn := c.MustFn(f.pkg, f.name)
		if fn == nil {
			continue
		}
		stores := rolesStores(fn)
		// sequential branch
		n := 0
		for _, call := range childCalls(fn) {
			if !an.InLoop(call.Block()) {
				continue
			}
			n++
			c.Subject()
			ev := errResult(call)
			key := fmt.Sprintf("%s|sequential|%s", f.role, an.MethodName(&call.Call))
			if ev == nil {
				c.Ob(key, call.Pos(), false, "the error result of the child call is dropped")
				continue
			}
			tests := an.ErrTests(ev)
			ok := len(tests) > 0
			for _, t := range tests {
				avoid := append([]ssa.Instruction{call}, stores...)
				if !an.AllPathsReturnAvoiding(t.NonNilSucc, avoid) {
					ok = false
				}
			}
			if !ok {
				// the error may travel out of an extracted helper before it is tested: decide by flow - with the error
				// non-nil neither the rebuilding of Roles nor the next child is reachable
				ok = errorEndsBefore(call, ev, stores, true)
			}
			c.Ob(key, call.Pos(), ok, "in the sequential branch a child error must return immediately, before the next child and before Roles is rebuilt (%d tests of the error found)", len(tests))
		}
		if n == 0 {
			c.Ob(f.role+"|sequential", fn.Pos(), false, "no sequential per-child call found in a loop (anchor lost)")
		}
		// concurrent branch
		waits := an.CallsNamed(fn, "(*sync.WaitGroup).Wait")
		eon := an.CallsSuffix(fn, "go-multierror.Error).ErrorOrNil")
		c.Subject()
		key := f.role + "|concurrent|ErrorOrNil"
		if len(waits) != 1 || len(eon) != 1 {
			c.Ob(key, fn.Pos(), false, "expected one WaitGroup.Wait and one ErrorOrNil after the goroutines (found %d/%d)", len(waits), len(eon))
			continue
		}
		ev := eon[0].(*ssa.Call)
		tests := an.ErrTests(ev)
		ok := len(tests) > 0 && an.Dominates(waits[0], eon[0])
		for _, t := range tests {
			if !an.AllPathsReturnAvoiding(t.NonNilSucc, stores) {
				ok = false
			}
		}
		if !ok && an.Dominates(waits[0], eon[0]) {
			ok = errorEndsBefore(ev, ev, stores, false)
		}
		// the accumulator read by ErrorOrNil is the one the goroutines append to
		c.Ob(key, eon[0].Pos(), ok, "after the join the accumulated error must be tested and returned before Roles is rebuilt (%d tests)", len(tests))
	}
}

// errorEndsBefore: in a flow started at the call with its error known non-nil, no block that rebuilds the role list is
// reached and (loop) the enclosing loop does not come round to its header again.
func errorEndsBefore(call *ssa.Call, ev ssa.Value, stores []ssa.Instruction, loop bool) bool {
	fl := an.FlowFromFacts(call.Block(), nil, ev)
	for _, st := range stores {
		if st.Block() != call.Block() && fl.Reached[st.Block()] {
			return false
		}
		if st.Block() == call.Block() {
			return false
		}
	}
	if loop {
		if h, _ := an.EnclosingLoop(call.Block()); h != nil && h != call.Block() && fl.Reached[h] {
			return false
		}
	}
	return len(fl.ReachedReturns()) > 0
}

func r15c(c *an.Ctx) {
	c.Rule("R15c", "pruning: disabled role drops its children before processing; children filtered by IsEnabled after processing; emptied aggregator disables itself; disabled signal only at STAGE0", 5)
	for _, f := range c15Funcs[:2] {
		fn := c.MustFn(f.pkg, f.name)
		if fn == nil {
			continue
		}
		// filter: the last store to .Roles stores a slice built by appends guarded by IsEnabled()==true
		stores := rolesStores(fn)
		c.Subject()
		var filterStore *ssa.Store
		for _, s := range stores {
			st := s.(*ssa.Store)
			guarded := false
			for _, l := range an.BackSlice(st.Val, an.SliceOpts{}) {
				_ = l
			}
			// find append calls in the slice of the stored value
			var visit func(v ssa.Value, depth int)
			seen := map[ssa.Value]bool{}
			visit = func(v ssa.Value, depth int) {
				if v == nil || seen[v] || depth > 8 {
					return
				}
				seen[v] = true
				switch x := v.(type) {
				case *ssa.Phi:
					for _, e := range x.Edges {
						visit(e, depth+1)
					}
				case *ssa.Call:
					if an.CalleeName(&x.Call) == "builtin.append" {
						for _, a := range an.Atoms(x.Block()) {
							if call, ok := a.X.(*ssa.Call); ok && a.Y == nil && a.Val && an.MethodName(&call.Call) == "IsEnabled" {
								guarded = true
							}
						}
						visit(x.Call.Args[0], depth+1)
					}
					// slices.DeleteFunc(list, func(r Role) bool { return !r.IsEnabled() })
					if n := an.CalleeName(&x.Call); strings.HasPrefix(n, "slices.DeleteFunc") && len(x.Call.Args) == 2 {
						var pred *ssa.Function
						switch p := x.Call.Args[1].(type) {
						case *ssa.Function:
							pred = p
						case *ssa.MakeClosure:
							pred, _ = p.Fn.(*ssa.Function)
						}
						if pred != nil {
							all, cnt := true, 0
							for _, r := range an.Returns(pred) {
								cnt++
								ok := false
								if len(r.Results) == 1 {
									if u, isU := r.Results[0].(*ssa.UnOp); isU && u.Op == token.NOT {
										if call, isCall := u.X.(*ssa.Call); isCall && an.MethodName(&call.Call) == "IsEnabled" {
											ok = true
										}
									}
								}
								if !ok {
									all = false
								}
							}
							if all && cnt > 0 {
								guarded = true
							}
						}
					}
				}
			}
			visit(st.Val, 0)
			if guarded {
				filterStore = st
			}
		}
		if filterStore == nil {
			c.Ob(f.role+"|filter-enabled-children", fn.Pos(), false, "no assignment of Roles from a list filtered by child.IsEnabled()")
			continue
		}
		// the filter comes after all child processing: no child call / Wait reachable from the filter store,
		// and the filter store is reached on every successful path (post-dominates the joins)
		after := true
		for _, call := range childCalls(fn) {
			if an.CanReach(filterStore, call) {
				after = false
			}
		}
		for _, w := range an.CallsNamed(fn, "(*sync.WaitGroup).Wait") {
			if an.CanReach(filterStore, w) || !an.CanReach(w, filterStore) {
				after = false
			}
		}
		// the IsEnabled calls feeding the filter must themselves come after processing
		for _, ci := range an.Calls(fn, func(n string, ci ssa.CallInstruction) bool {
			return an.MethodName(ci.Common()) == "IsEnabled" && ci.Common().IsInvoke()
		}) {
			for _, call := range childCalls(fn) {
				if an.InLoop(ci.Block()) && an.CanReach(ci, call) {
					after = false
				}
			}
		}
		c.Ob(f.role+"|filter-enabled-children", filterStore.Pos(), after, "children are filtered by IsEnabled() only after every child's templates were processed")
	}
	// aggregator only: disabled => children dropped before the child loop; empty => Enabled="false"
	if fn := c.MustFn("core/workflow", "aggregatorRole.ProcessTemplates"); fn != nil {
		role := "core/workflow.(*aggregatorRole).ProcessTemplates"
		c.Subject()
		dropped := false
		for _, s := range rolesStores(fn) {
			st := s.(*ssa.Store)
			// stored value is a fresh empty slice, block guarded by own IsEnabled()==false
			for _, a := range an.Atoms(st.Block()) {
				if call, ok := a.X.(*ssa.Call); ok && a.Y == nil && !a.Val && an.MethodName(&call.Call) == "IsEnabled" {
					empty := false
					switch v := st.Val.(type) {
					case *ssa.MakeSlice:
						if n, ok := an.ConstInt(v.Len); ok && n == 0 {
							empty = true
						}
					case *ssa.Slice:
						if al, ok := v.X.(*ssa.Alloc); ok && strings.Contains(al.Type().String(), "[0]") {
							empty = true
						}
					case *ssa.Const:
						empty = v.Value == nil
					}
					before := true
					for _, call := range childCalls(fn) {
						if !an.CanReach(st, call) {
							before = false
						}
					}
					for _, g := range an.GoClosures(fn) {
						if !an.CanReach(st, g.Go) {
							before = false
						}
					}
					if empty && before {
						dropped = true
					}
				}
			}
		}
		c.Ob(role+"|disabled-drops-children", fn.Pos(), dropped, "when the role's own enabled expression is false its child list is emptied before any child is processed")
		c.Subject()
		selfDisable := false
		an.Instrs(fn, func(in ssa.Instruction) {
			st, ok := in.(*ssa.Store)
			if !ok {
				return
			}
			if f := an.FieldOf(st.Addr); f == nil || f.Name() != "Enabled" {
				return
			}
			if s, ok := an.ConstString(st.Val); !ok || s != "false" {
				return
			}
			for _, a := range an.Atoms(st.Block()) {
				if a.Op == token.EQL && a.Y != nil {
					if call, ok := a.X.(*ssa.Call); ok && an.CalleeName(&call.Call) == "builtin.len" {
						if z, ok := an.ConstInt(a.Y); ok && z == 0 {
							selfDisable = true
						}
					}
				}
			}
			// ... and on nothing else: once the children are filtered, "no child left" alone decides
			var last ssa.Instruction
			for _, rs := range rolesStores(fn) {
				if an.CanReach(rs, st) && (last == nil || an.CanReach(last, rs)) {
					last = rs
				}
			}
			for _, g := range an.ControlConds(st.Block()) {
				if g.LoopHeader || g.LoopExit || last == nil || !an.Dominates(last, g.If) {
					continue
				}
				for _, a := range an.CondAtoms(g.V, g.Val) {
					okAtom := false
					if call, isCall := a.X.(*ssa.Call); isCall && a.Y != nil && an.CalleeName(&call.Call) == "builtin.len" && len(call.Call.Args) == 1 {
						// the number of children left: len(r.Roles), or len of the very list that was just stored there
						if isFieldNamed(call.Call.Args[0], "Roles") || call.Call.Args[0] == last.(*ssa.Store).Val {
							okAtom = true
						}
					}
					if !okAtom {
						selfDisable = false
					}
				}
			}
		})
		c.Ob(role+"|empty-aggregator-disabled", fn.Pos(), selfDisable, "an aggregator left without children sets Enabled=\"false\" (so its parent filters it out), and whether it does depends on nothing but the number of children left")
	}
	// stage-0 callback
	if fn := c.MustFn("core/workflow", "MakeDisabledRoleCallback"); fn != nil && len(fn.AnonFuncs) == 1 {
		cb := fn.AnonFuncs[0]
		c.Mark(cb)
		c.Subject()
		ok := false
		n := 0
		for _, r := range an.Returns(cb) {
			if len(r.Results) != 1 {
				continue
			}
			if mi, isMI := r.Results[0].(*ssa.MakeInterface); isMI && strings.HasSuffix(mi.X.Type().String(), "template.RoleDisabledError") {
				n++
				stage0, disabled := false, false
				for _, a := range an.Atoms(r.Block()) {
					if a.Op == token.EQL && a.Y != nil {
						if v, isC := an.ConstInt(a.Y); isC && v == 0 {
							if _, isP := a.X.(*ssa.Parameter); isP {
								stage0 = true
							}
						}
					}
					if call, isCall := a.X.(*ssa.Call); isCall && a.Y == nil && !a.Val && an.MethodName(&call.Call) == "IsEnabled" {
						disabled = true
					}
				}
				ok = stage0 && disabled
			}
		}
		c.Ob("core/workflow.MakeDisabledRoleCallback[callback]|stage0-only", cb.Pos(), ok && n == 1, "the role-disabled signal is returned only at STAGE0 and only when !IsEnabled() (%d such returns)", n)
	}
}

func r15d(c *an.Ctx) {
	c.Rule("R15d", "iterator expansion: one generateRole per element of the range, results in index order, in both modes", 3)
	fn := c.MustFn("core/workflow", "iteratorRole.expandTemplate")
	if fn == nil {
		return
	}
	role := "core/workflow.(*iteratorRole).expandTemplate"
	// the range value
	var ran ssa.Value
	for _, ci := range an.Calls(fn, func(n string, ci ssa.CallInstruction) bool { return an.MethodName(ci.Common()) == "GetRange" }) {
		if call, ok := ci.(*ssa.Call); ok && call.Referrers() != nil {
			for _, r := range *call.Referrers() {
				if ex, ok := r.(*ssa.Extract); ok && ex.Index == 0 {
					ran = ex
				}
			}
		}
	}
	if ran == nil {
		c.Lost("GetRange call in expandTemplate")
		return
	}
	derivesFromRan := func(v ssa.Value) bool {
		for _, l := range an.BackSlice(v, an.SliceOpts{LeafCall: func(n string, cl *ssa.Call) bool { return an.MethodName(&cl.Call) == "GetRange" }}) {
			if l.Kind == "call" {
				return true
			}
		}
		return false
	}
	// concurrent: slots pre-sized to len(ran); go statement inside a loop bounded by len(ran); closure writes roles[param] only
	c.Subject()
	sized := false
	an.Instrs(fn, func(in ssa.Instruction) {
		if mk, ok := in.(*ssa.MakeSlice); ok && strings.HasSuffix(mk.Type().String(), "[]"+"github.com/AliceO2Group/Control/core/workflow.Role") {
			if call, ok := mk.Len.(*ssa.Call); ok && an.CalleeName(&call.Call) == "builtin.len" && derivesFromRan(call.Call.Args[0]) {
				sized = true
			}
		}
	})
	c.Ob(role+"|concurrent|slots=len(range)", fn.Pos(), sized, "the concurrent branch allocates exactly len(range) result slots")
	c.Subject()
	goOK := false
	for _, g := range an.GoClosures(fn) {
		if !an.InLoop(g.Go.Block()) {
			continue
		}
		// loop bound: the loop around the go statement is `idx < len(range)`
		idxOK := false
		for _, g2 := range an.Guards(g.Go.Block()) {
			bo, ok := g2.V.(*ssa.BinOp)
			if !ok || !an.InLoop(g2.If.Block()) || bo.Op != token.LSS || !g2.Val {
				continue
			}
			if call, ok := bo.Y.(*ssa.Call); ok && an.CalleeName(&call.Call) == "builtin.len" && derivesFromRan(call.Call.Args[0]) {
				idxOK = true
			}
		}
		gen := 0
		an.Instrs(g.Fn, func(in ssa.Instruction) {
			if call, ok := in.(*ssa.Call); ok && an.MethodName(&call.Call) == "generateRole" && !an.InLoop(call.Block()) {
				gen++
			}
		})
		slot := false
		for _, w := range an.ClosureWrites(g.Fn) {
			if w.Kind == "slot" && an.OwnIndex(g.Fn, w.Index) {
				slot = true
			}
		}
		if idxOK && gen == 1 && slot {
			goOK = true
		}
	}
	c.Ob(role+"|concurrent|one-child-per-index", fn.Pos(), goOK, "one goroutine per index of the range, each calling generateRole once and storing into its own slot")
	c.Subject()
	seqOK := false
	for _, call := range childCalls(fn) {
		if an.MethodName(&call.Call) != "generateRole" || !an.InLoop(call.Block()) {
			continue
		}
		// appended in order
		var role0 ssa.Value
		for _, r := range *call.Referrers() {
			if ex, ok := r.(*ssa.Extract); ok && ex.Index == 0 {
				role0 = ex
			}
		}
		if role0 == nil {
			continue
		}
		for _, ci := range an.CallsNamed(fn, "builtin.append") {
			ap := ci.(*ssa.Call)
			for _, e := range an.VariadicElems(ap.Call.Args[1]) {
				if carriesVal(e, role0) && an.InLoop(ap.Block()) && an.Dominates(call, ap) {
					seqOK = true
				}
			}
		}
		// or stored into the slot of the range statement's own index (pre-sized list)
		if h, _ := an.EnclosingLoop(call.Block()); h != nil && strings.HasPrefix(h.Comment, "rangeindex") {
			an.Instrs(fn, func(in ssa.Instruction) {
				st, isSt := in.(*ssa.Store)
				if !isSt || !carriesVal(st.Val, role0) || !an.Dominates(call, st) {
					return
				}
				if ia, isIA := st.Addr.(*ssa.IndexAddr); isIA {
					if bo, isBo := ia.Index.(*ssa.BinOp); isBo && bo.Block() == h {
						seqOK = true
					}
				}
			})
		}
	}
	c.Ob(role+"|sequential|append-in-order", fn.Pos(), seqOK, "the sequential branch appends one generated role per range element, in range order")
}

// carriesVal: e is v or a load of a cell that v was just stored to.
func carriesVal(e, v ssa.Value) bool {
	if an.Strip(e) == v {
		return true
	}
	if u, ok := e.(*ssa.UnOp); ok && u.Op == token.MUL {
		if al, ok := u.X.(*ssa.Alloc); ok && al.Referrers() != nil {
			for _, r := range *al.Referrers() {
				if st, ok := r.(*ssa.Store); ok && st.Addr == ssa.Value(al) && an.Strip(st.Val) == v {
					return true
				}
			}
		}
	}
	return false
}

// R15e: copy() of the role containers gives the copy its own children/template/range: every reference-typed
// member of the returned struct that designates mutable tree parts comes from a copy() call, never from the
// receiver's own reference (a whole-struct copy `*i` aliases them).
func r15e(c *an.Ctx) {
	c.Rule("R15e", "iteratorRole.copy / aggregator.copy / roleBase.copy: template, range specifier, child roles and variable stores of the copy are themselves copies", 3)
	check := func(fnName string, fields []string) { copiedMembers(c, fnName, fields) }
	check("iteratorRole.copy", []string{"template", "For", "aggregator"})
	check("aggregator.copy", []string{"Roles"})
	check("roleBase.copy", []string{"Defaults", "Vars", "UserVars"})
}

// copiedMembers: the struct returned by core/workflow.<fnName> (a copy() method) has each of the named members
// assigned from a copy()/Copy() of the original's, never the original's own reference.
func copiedMembers(c *an.Ctx, fnName string, fields []string) {
	fn := c.MustFn("core/workflow", fnName)
	if fn == nil {
		return
	}
	c.Subject()
	recv := fn.Params[0]
	// the struct being returned
	var lit *ssa.Alloc
	for _, r := range an.Returns(fn) {
		for _, l := range an.BackSlice(an.RetVal(r, 0), an.SliceOpts{}) {
			_ = l
		}
		if mi, ok := an.RetVal(r, 0).(*ssa.MakeInterface); ok {
			if al, isAl := mi.X.(*ssa.Alloc); isAl {
				lit = al
			}
		}
	}
	if lit == nil {
		c.Ob("core/workflow."+fnName+"|members-copied", fn.Pos(), false, "cannot find the struct returned by copy()")
		return
	}
	var bad []string
	// whole-struct store from the receiver?
	whole := false
	for _, r := range *lit.Referrers() {
		if st, ok := r.(*ssa.Store); ok && st.Addr == ssa.Value(lit) {
			if ld, isLd := st.Val.(*ssa.UnOp); isLd && ld.X == ssa.Value(recv) {
				whole = true
			}
		}
	}
	for _, fld := range fields {
		okF := false
		for _, r := range *lit.Referrers() {
			fa, ok := r.(*ssa.FieldAddr)
			if !ok || !isFieldNamed(fa, fld) || fa.Referrers() == nil {
				continue
			}
			for _, rr := range *fa.Referrers() {
				st, isSt := rr.(*ssa.Store)
				if !isSt {
					continue
				}
				fromCopy := false
				for _, l := range an.BackSlice(st.Val, an.SliceOpts{LeafCall: func(n string, cl *ssa.Call) bool { return isCopyMethod(&cl.Call) }}) {
					if l.Kind == "call" {
						fromCopy = true
					}
				}
				// slice members: a fresh MakeSlice filled with copy() results
				if mk, isMk := st.Val.(*ssa.MakeSlice); isMk {
					_ = mk
					an.Instrs(fn, func(in ssa.Instruction) {
						if s2, ok := in.(*ssa.Store); ok {
							if ia, isIA := s2.Addr.(*ssa.IndexAddr); isIA {
								for _, l := range an.BackSlice(s2.Val, an.SliceOpts{LeafCall: func(n string, cl *ssa.Call) bool { return isCopyMethod(&cl.Call) }}) {
									if l.Kind == "call" {
										_ = ia
										fromCopy = true
									}
								}
							}
						}
					})
				}
				if fromCopy {
					okF = true
				}
			}
		}
		if !okF {
			how := "is not assigned from a copy() of the original's"
			if whole {
				how = "is inherited by a whole-struct copy of the receiver and never replaced by a copy() of the original's"
			}
			bad = append(bad, fld+" "+how)
		}
	}
	c.Ob("core/workflow."+fnName+"|members-copied", fn.Pos(), len(bad) == 0,
		"a copied role shares mutable parts with its original (%v): with concurrent template processing two copies re-parent and expand the same object, so the loaded tree depends on the schedule; a shared variable store makes a value set on one expanded role visible on its siblings", bad)
}

func isCopyMethod(cc *ssa.CallCommon) bool {
	n := an.MethodName(cc)
	return n == "copy" || n == "Copy"
}

// errAborts: the error result of call is tested, and from the non-nil side of every such test all paths return
// without overwriting the variable holding the error and without coming back to the call (no `continue`).
func errAborts(call *ssa.Call) bool {
	ev := errResult(call)
	if ev == nil {
		return false
	}
	avoid := []ssa.Instruction{call}
	if ev.Referrers() != nil {
		for _, r := range *ev.Referrers() {
			if st, ok := r.(*ssa.Store); ok && st.Val == ev {
				if cell, isAl := st.Addr.(*ssa.Alloc); isAl && cell.Referrers() != nil {
					for _, rr := range *cell.Referrers() {
						if st2, isSt := rr.(*ssa.Store); isSt && st2.Addr == ssa.Value(cell) {
							avoid = append(avoid, st2)
						}
					}
				}
			}
		}
	}
	tests := an.ErrTests(ev)
	if len(tests) == 0 {
		return false
	}
	for _, t := range tests {
		if !an.AllPathsReturnAvoiding(t.NonNilSucc, avoid) {
			return false
		}
	}
	return true
}

// R15f: "a template error fails the load": in the template engine's field loop an expression that cannot be parsed or
// evaluated ends the evaluation with that error - it is not skipped.
func r15f(c *an.Ctx) {
	c.Rule("R15f", "template.Fields.Execute: a parse or evaluation error of a field is returned, the field is not skipped", 2)
	fn := c.MustFn("configuration/template", "Fields.Execute")
	if fn == nil {
		return
	}
	n := 0
	for _, ci := range an.Calls(fn, func(nm string, _ ssa.CallInstruction) bool {
		return strings.Contains(nm, "fasttemplate.NewTemplate") || strings.Contains(nm, "fasttemplate.Template).Execute")
	}) {
		call, ok := ci.(*ssa.Call)
		if !ok {
			continue
		}
		n++
		c.Subject()
		nm := an.CalleeName(&call.Call)
		nm = nm[strings.LastIndex(nm, ".")+1:]
		c.Ob(fmt.Sprintf("configuration/template.Fields.Execute|%s#%d|error-ends-evaluation", nm, n), call.Pos(), errAborts(call),
			"a failure of %s does not end Execute with that error on every path (the error is overwritten, or the loop goes on to the next field): a workflow with an invalid template expression loads, with the expression left unexpanded", nm)
	}
	if n == 0 {
		c.Lost("fasttemplate.NewTemplate / Template.Execute* in template.Fields.Execute")
	}
}

// R15g: an include role becomes the root of the workflow it includes: after its base was replaced by the included root
// only its place in the tree (parent, name) is restored. The included root's own declarations - its enabled expression
// first of all - must survive, or a sub-workflow that disables itself is kept with its whole subtree.
func r15g(c *an.Ctx) {
	c.Rule("R15g", "includeRole.ProcessTemplates: after the base is replaced by the included root only parent and Name are restored", 1)
	fn := c.MustFn("core/workflow", "includeRole.ProcessTemplates")
	if fn == nil {
		return
	}
	var replace *ssa.Store
	an.Instrs(fn, func(in ssa.Instruction) {
		if st, ok := in.(*ssa.Store); ok {
			if fa, isFA := st.Addr.(*ssa.FieldAddr); isFA && isFieldNamed(fa, "aggregatorRole") {
				if _, isStruct := st.Val.Type().Underlying().(*types.Struct); isStruct {
					replace = st
				}
			}
		}
	})
	if replace == nil {
		c.Lost("the replacement of the embedded aggregatorRole in includeRole.ProcessTemplates")
		return
	}
	c.Subject()
	declared := map[string]bool{"Enabled": true, "Roles": true, "Defaults": true, "Vars": true, "UserVars": true, "Bind": true, "Connect": true, "Constraints": true}
	var bad []string
	an.Instrs(fn, func(in ssa.Instruction) {
		st, ok := in.(*ssa.Store)
		if !ok || st == replace || !an.CanReach(replace, st) {
			return
		}
		if f := an.FieldOf(st.Addr); f != nil && declared[f.Name()] {
			// a store into the receiver's own (embedded) role
			root := st.Addr
			for i := 0; i < 6; i++ {
				if fa, isFA := root.(*ssa.FieldAddr); isFA {
					root = fa.X
				}
			}
			if root == ssa.Value(fn.Params[0]) {
				bad = append(bad, f.Name()+" at "+c.PosStr(st.Pos()))
			}
		}
	})
	sort.Strings(bad)
	c.Ob("(*core/workflow.includeRole).ProcessTemplates|only-place-restored", replace.Pos(), len(bad) == 0,
		"after the include role's base was replaced by the included workflow's root, declarations of that root are overwritten (%v): e.g. with Enabled restored from the include role, a sub-workflow whose own enabled expression evaluates to false is kept with its subtree", bad)
}

// resolvesOnlyTo: every value v can hold (through phis and local cells) satisfies leaf.
func resolvesOnlyTo(v ssa.Value, leaf func(ssa.Value) bool) bool {
	seen := map[ssa.Value]bool{}
	var walk func(v ssa.Value, depth int) bool
	walk = func(v ssa.Value, depth int) bool {
		if v == nil || depth > 8 {
			return false
		}
		if seen[v] {
			return true
		}
		seen[v] = true
		if leaf(v) {
			return true
		}
		switch x := v.(type) {
		case *ssa.Phi:
			for _, e := range x.Edges {
				if !walk(e, depth+1) {
					return false
				}
			}
			return len(x.Edges) > 0
		case *ssa.UnOp:
			if al, ok := x.X.(*ssa.Alloc); ok && x.Op == token.MUL && al.Referrers() != nil {
				n := 0
				for _, r := range *al.Referrers() {
					if st, isSt := r.(*ssa.Store); isSt && st.Addr == ssa.Value(al) {
						// the zero value stored at declaration does not count
						if an.IsNilConst(st.Val) {
							continue
						}
						n++
						if !walk(st.Val, depth+1) {
							return false
						}
					}
				}
				return n > 0
			}
			// a field of a local record: the stores into that field of that record
			if fa, ok := x.X.(*ssa.FieldAddr); ok && x.Op == token.MUL {
				if al, isAl := fa.X.(*ssa.Alloc); isAl && al.Referrers() != nil {
					n := 0
					for _, r := range *al.Referrers() {
						fa2, isFA := r.(*ssa.FieldAddr)
						if !isFA || fa2.Field != fa.Field || fa2.Referrers() == nil {
							continue
						}
						for _, rr := range *fa2.Referrers() {
							if st, isSt := rr.(*ssa.Store); isSt && st.Addr == ssa.Value(fa2) {
								n++
								if !walk(st.Val, depth+1) {
									return false
								}
							}
						}
					}
					return n > 0
				}
			}
		case *ssa.ChangeType:
			return walk(x.X, depth+1)
		}
		return false
	}
	return walk(v, 0)
}

// R15h: "a template error fails the load" rests on the strictness of compilation: an expression naming a variable
// that is not in scope for *this* role is rejected by expr.Compile against this role's environment - at run time a
// missing key is just nil. Every program that is run must therefore have been compiled in the same evaluation; a
// program remembered from another role's compilation skips the check and makes the result depend on history.
func r15h(c *an.Ctx) {
	c.Rule("R15h", "template.Fields.Execute: every expression program that is run was compiled (against the current environment) in this evaluation", 1)
	fn := c.MustFn("configuration/template", "Fields.Execute")
	if fn == nil {
		return
	}
	n := 0
	for _, f := range an.WithAnon(fn) {
		for _, ci := range an.Calls(f, func(nm string, _ ssa.CallInstruction) bool {
			return strings.HasSuffix(nm, "expr-lang/expr.Run") || strings.HasSuffix(nm, "/expr.Run")
		}) {
			n++
			c.Subject()
			prog := ci.Common().Args[0]
			ok := resolvesOnlyTo(prog, func(v ssa.Value) bool {
				ex, isEx := v.(*ssa.Extract)
				if !isEx || ex.Index != 0 {
					return false
				}
				call, isCall := ex.Tuple.(*ssa.Call)
				return isCall && strings.HasSuffix(an.CalleeName(&call.Call), "expr.Compile")
			})
			c.Ob(fmt.Sprintf("configuration/template.Fields.Execute|run#%d|compiled-here", n), ci.Pos(), ok,
				"the program handed to expr.Run does not always come from an expr.Compile of this evaluation (e.g. it is taken from a cache keyed by the expression text): the strict check of the expression against this role's variables is skipped, an out-of-scope variable evaluates to <nil> instead of failing the load, and whether it does depends on what was compiled before")
		}
	}
	if n == 0 {
		c.Lost("expr.Run in template.Fields.Execute")
	}
}

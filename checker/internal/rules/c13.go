package rules

import (
	"fmt"
	"go/token"
	"go/types"
	"sort"
	"strings"

	"verifchk/internal/an"

	"golang.org/x/tools/go/ssa"
)

func init() {
	register("C13", "Decides structural necessary conditions of 'outbound channels connect to where the matching inbound channel was bound': "+
		"(R13a) the endpoint recorded for a bound channel carries the very port that was allocated from the offer, and the task keeps every entry of that map; "+
		"(R13b) the environment-wide bind map stores, under a key derived from a task, that task's endpoints with that task's host substituted, and the endpoint conversions copy every field but the host; "+
		"(R13c) an explicit tcp:// or ipc:// target is passed through without consulting the bind map; (R13d) an unmatched outbound target is a non-nil error that propagates up and aborts configuration before anything is sent; "+
		"(R13e) a second, different endpoint for a global alias is an error, an equal one is skipped. Does not decide the resulting strings for all configurations nor channel merging.", runC13)
}

func runC13(c *an.Ctx) {
	r13a(c)
	r13b(c)
	r13c(c)
	r13d(c)
	r13e(c)
	r13f(c)
	r13g(c)
	// round 7
	r13i(c)
	c.As(map[string]string{"R05j": "R13h"}, func() { r05j(c) })
	c.As(map[string]string{"R15j": "R13j"}, func() { r15j(c) })
	// round 8
	fieldWriters(c, "R13k", "Task.localBindMap is assigned only where the task is made", "core/task", "Task", "localBindMap", map[string]bool{"(*core/task.Manager).newTaskForMesosOffer": true}, "the endpoints bound by a running task stay what they are for its whole life; a task reused by another environment whose bind map was cleared is configured without its inbound channels, and outbound channels that target it match nothing", 1)
	// round 9
	r13l(c)
	r13m(c)
	c.As(map[string]string{"R15m": "R13n"}, func() { r15m(c) })
}

func r13a(c *an.Ctx) {
	c.Rule("R13a", "bound endpoint port == allocated (subtracted) port; task keeps the whole local bind map", 2)
	fn := c.MustFn("core/task", "makeTaskForMesosResources")
	if fn != nil {
		isMin := func(n string) bool { return strings.HasSuffix(n, "mesos-go/api/v1/lib.Ranges).Min") }
		n := 0
		for _, ci := range an.CallsNamed(fn, "core/task/channel.NewBoundTcpEndpoint") {
			n++
			c.Subject()
			call := ci.(*ssa.Call)
			port := call.Call.Args[0]
			// the port is the lowest available port itself: the Min() call, possibly merged (phi) with constants on paths
			// that give up, never the result of arithmetic on it
			var minCall *ssa.Call
			okMin := true
			seenV := map[ssa.Value]bool{}
			var walk func(v ssa.Value)
			walk = func(v ssa.Value) {
				if v == nil || seenV[v] {
					return
				}
				seenV[v] = true
				switch x := v.(type) {
				case *ssa.Phi:
					for _, e := range x.Edges {
						walk(e)
					}
				case *ssa.Const:
				case *ssa.ChangeType:
					walk(x.X)
				case *ssa.Call:
					if isMin(an.CalleeName(&x.Call)) && (minCall == nil || minCall == x) {
						minCall = x
					} else {
						okMin = false
					}
				default:
					okMin = false
				}
			}
			walk(port)
			okMin = okMin && minCall != nil
			// that very value is subtracted from the remaining offer
			sub := false
			if okMin {
				for _, s := range an.Calls(fn, func(nm string, _ ssa.CallInstruction) bool { return strings.HasSuffix(nm, "lib.Resources).Subtract") }) {
					for _, a := range s.Common().Args[1:] {
						for _, l := range an.BackSlice(a, an.SliceOpts{LeafCall: func(nm string, _ *ssa.Call) bool { return isMin(nm) }}) {
							if l.Kind == "call" && l.Val == ssa.Value(minCall) {
								sub = true
							}
						}
					}
				}
			}
			// and the endpoint is what goes into the bind map under the channel's name
			stored := false
			an.Instrs(fn, func(in ssa.Instruction) {
				// the endpoint may reach the store directly or through a local variable shared with the IPC branch (phi)
				if mu, isMu := in.(*ssa.MapUpdate); isMu && strings.HasSuffix(mu.Map.Type().String(), "channel.BindMap") && isFieldNamed(an.Strip(mu.Key), "Name") {
					if mu.Value == ssa.Value(call) || an.DerivesFrom(mu.Value, call) {
						stored = true
					}
				}
			})
			c.Ob(fmt.Sprintf("core/task.makeTaskForMesosResources|bound-endpoint#%d", n), call.Pos(), okMin && sub && stored,
				"the endpoint recorded for an inbound TCP channel must carry the port that was just taken from (and subtracted from) the offer, under the channel's name (port-is-allocation=%v subtracted=%v stored-under-name=%v)", okMin, sub, stored)
		}
		if n == 0 {
			c.Lost("NewBoundTcpEndpoint in makeTaskForMesosResources")
		}
		// the bind map built here is what the task constructor receives
		c.Subject()
		passed := false
		for _, ci := range an.CallsNamed(fn, "(*core/task.Manager).newTaskForMesosOffer") {
			if mk, isMk := an.Strip(ci.Common().Args[3]).(*ssa.MakeMap); isMk {
				_ = mk
				passed = true
			} else if u, isU := ci.Common().Args[3].(*ssa.UnOp); isU {
				if al, isAl := u.X.(*ssa.Alloc); isAl {
					for _, r := range *al.Referrers() {
						if st, isSt := r.(*ssa.Store); isSt {
							if _, isMk := st.Val.(*ssa.MakeMap); isMk {
								passed = true
							}
						}
					}
				}
			}
		}
		c.Ob("core/task.makeTaskForMesosResources|bindmap-to-task", fn.Pos(), passed, "the local bind map built from the allocated ports is what the new task is constructed with")
	}
	if nt := c.MustFn("core/task", "Manager.newTaskForMesosOffer"); nt != nil {
		c.Subject()
		ok := false
		an.Instrs(nt, func(in ssa.Instruction) {
			mu, isMu := in.(*ssa.MapUpdate)
			if !isMu || !an.InLoop(mu.Block()) {
				return
			}
			// key and value are the range variables over the parameter
			k, isK := mu.Key.(*ssa.Extract)
			v, isV := mu.Value.(*ssa.Extract)
			if isK && isV && k.Tuple == v.Tuple && len(an.Atoms(mu.Block())) == 0 {
				if nx, isN := k.Tuple.(*ssa.Next); isN {
					if rg, isR := nx.Iter.(*ssa.Range); isR {
						if _, isP := rg.X.(*ssa.Parameter); isP {
							ok = true
						}
					}
				}
			}
		})
		c.Ob("(*core/task.Manager).newTaskForMesosOffer|copies-bindmap", nt.Pos(), ok, "the task must keep every (name, endpoint) pair of the local bind map it is given")
	}
}

func r13b(c *an.Ctx) {
	c.Rule("R13b", "environment bind map: endpoint.ToTargetEndpoint(host of the same task); conversions copy all fields but the host", 5)
	fn := c.MustFn("core/task", "Manager.configureTasks")
	if fn != nil {
		c.Subject()
		ok := false
		var why string
		an.Instrs(fn, func(in ssa.Instruction) {
			mu, isMu := in.(*ssa.MapUpdate)
			if !isMu || !strings.HasSuffix(mu.Map.Type().String(), "channel.BindMap") || !an.InLoop(mu.Block()) {
				return
			}
			call, isCall := mu.Value.(*ssa.Call)
			if !isCall || an.MethodName(&call.Call) != "ToTargetEndpoint" {
				why = "the stored value is not endpoint.ToTargetEndpoint(..)"
				return
			}
			// host argument: GetHostname() of task T; endpoint: from range over T.GetLocalBindMap(); key (non-alias): T.GetParentRolePath() + ...
			host, isH := call.Call.Args[0].(*ssa.Call)
			if !isH || an.MethodName(&host.Call) != "GetHostname" {
				why = "the host is not the task's GetHostname()"
				return
			}
			taskV := host.Call.Args[0]
			epFromTask := false
			for _, l := range an.BackSlice(call.Call.Value, an.SliceOpts{LeafCall: func(n string, cl *ssa.Call) bool { return an.MethodName(&cl.Call) == "GetLocalBindMap" }}) {
				if l.Kind == "call" && an.SameVar(l.Val.(*ssa.Call).Call.Args[0], taskV) {
					epFromTask = true
				}
			}
			keyFromTask := false
			for _, l := range an.BackSlice(mu.Key, an.SliceOpts{LeafCall: func(n string, cl *ssa.Call) bool { return an.MethodName(&cl.Call) == "GetParentRolePath" }}) {
				if l.Kind == "call" && an.SameVar(l.Val.(*ssa.Call).Call.Args[0], taskV) {
					keyFromTask = true
				}
			}
			if epFromTask && keyFromTask {
				ok = true
			} else {
				why = fmt.Sprintf("endpoint from the same task: %v, key from the same task: %v", epFromTask, keyFromTask)
			}
		})
		c.Ob("(*core/task.Manager).configureTasks|bindmap-entry", fn.Pos(), ok, "each entry of the environment-wide bind map must be <path of task T>:<channel> -> endpoint of T with T's hostname substituted %s", why)
	}
	// endpoint conversions
	for _, e := range []struct {
		typ, meth string
		host      string // "param" | "*" | ""
	}{
		{"TcpEndpoint", "ToTargetEndpoint", "param"},
		{"TcpEndpoint", "ToBoundEndpoint", "*"},
		{"IpcEndpoint", "ToTargetEndpoint", ""},
		{"IpcEndpoint", "ToBoundEndpoint", ""},
	} {
		f := c.MustFn("core/task/channel", e.typ+"."+e.meth)
		if f == nil {
			continue
		}
		c.Subject()
		named := c.NamedType("core/task/channel", e.typ)
		st := named.Underlying().(*types.Struct)
		okAll := true
		var bad []string
		// the returned composite literal: a local alloc of the struct type whose fields are stored
		var lit *ssa.Alloc
		an.Instrs(f, func(in ssa.Instruction) {
			if al, isAl := in.(*ssa.Alloc); isAl && strings.HasSuffix(al.Type().String(), "channel."+e.typ) && al.Comment == "complit" {
				lit = al
			}
		})
		if lit == nil {
			c.Ob("(core/task/channel."+e.typ+")."+e.meth+"|copies-fields", f.Pos(), false, "cannot find the endpoint literal returned by the conversion")
			continue
		}
		stored := map[string]ssa.Value{}
		for _, r := range *lit.Referrers() {
			if fa, isFA := r.(*ssa.FieldAddr); isFA && fa.Referrers() != nil {
				for _, rr := range *fa.Referrers() {
					if s, isS := rr.(*ssa.Store); isS {
						stored[st.Field(fa.Field).Name()] = s.Val
					}
				}
			}
		}
		for i := 0; i < st.NumFields(); i++ {
			name := st.Field(i).Name()
			v := stored[name]
			if name == "Host" {
				switch e.host {
				case "param":
					if _, isP := v.(*ssa.Parameter); !isP || v == ssa.Value(f.Params[0]) {
						okAll = false
						bad = append(bad, "Host is not the hostname argument")
					}
				case "*":
					if s, isS := an.ConstString(v); !isS || s != "*" {
						okAll = false
						bad = append(bad, "Host is not \"*\"")
					}
				}
				continue
			}
			// copied from the receiver's same field
			fromRecv := false
			if v != nil {
				if fld, isF := v.(*ssa.Field); isF && fld.X == ssa.Value(f.Params[0]) && fld.Field == i {
					fromRecv = true
				}
				if u, isU := v.(*ssa.UnOp); isU {
					if fa, isFA := u.X.(*ssa.FieldAddr); isFA && fa.Field == i {
						if al, isAl := fa.X.(*ssa.Alloc); isAl && an.SpilledParam(al) == f.Params[0] {
							fromRecv = true
						}
					}
				}
			}
			if !fromRecv {
				okAll = false
				bad = append(bad, name+" is not copied from the receiver")
			}
		}
		c.Ob("(core/task/channel."+e.typ+")."+e.meth+"|copies-fields", f.Pos(), okAll, "the endpoint conversion must keep every field except the host %v", bad)
	}
}

func r13c(c *an.Ctx) {
	c.Rule("R13c", "explicit tcp:// / ipc:// targets bypass bind-map matching", 2)
	for _, typ := range []string{"Outbound", "Inbound"} {
		fn := c.MustFn("core/task/channel", typ+".ToFMQMap")
		if fn == nil {
			continue
		}
		c.Subject()
		// assume the target starts with tcp:// (then ipc://) and follow the flow: the channel map is built with the Target
		// field as its address and nothing that is reached reads the bind map
		prefixes := map[string]bool{}
		for _, ci := range an.CallsNamed(fn, "strings.HasPrefix") {
			if s, isS := an.ConstString(ci.Common().Args[1]); isS {
				prefixes[s] = true
			}
		}
		okTarget := true
		for _, pfx := range []string{"tcp://", "ipc://"} {
			assume := func(v ssa.Value) (bool, bool) {
				if call, isCall := v.(*ssa.Call); isCall && an.CalleeName(&call.Call) == "strings.HasPrefix" {
					if s, isS := an.ConstString(call.Call.Args[1]); isS && s == pfx && isFieldNamed(an.Strip(call.Call.Args[0]), "Target") {
						return true, true
					}
				}
				return false, false
			}
			fl := an.FlowAssume(fn.Blocks[0], assume)
			builds := 0
			an.Instrs(fn, func(in ssa.Instruction) {
				if !fl.Reaches(in) {
					return
				}
				switch x := in.(type) {
				case *ssa.Lookup:
					if strings.HasSuffix(x.X.Type().String(), "channel.BindMap") {
						okTarget = false
					}
				case *ssa.Range:
					if strings.HasSuffix(x.X.Type().String(), "channel.BindMap") {
						okTarget = false
					}
				case *ssa.Call:
					if strings.HasSuffix(an.CalleeName(&x.Call), ").buildFMQMap") {
						builds++
						if !isFieldNamed(an.Strip(fl.Resolve(x.Call.Args[1])), "Target") {
							okTarget = false
						}
					}
				}
			})
			if builds == 0 {
				okTarget = false
			}
		}
		c.Ob("(*core/task/channel."+typ+").ToFMQMap|explicit-target-passthrough", fn.Pos(), okTarget && prefixes["tcp://"] && prefixes["ipc://"],
			"a target starting with tcp:// or ipc:// must be used as the address as it is, without bind-map matching (prefix tests: %v)", keysOf(prefixes))
	}
}

func r13d(c *an.Ctx) {
	c.Rule("R13d", "unmatched outbound target => non-nil error, propagated by BuildPropertyMap(s) and aborting configureTasks before Enqueue", 4)
	if fn := c.MustFn("core/task/channel", "Outbound.ToFMQMap"); fn != nil {
		c.Subject()
		// "no entry matches": either the `matched` flag (a boolean set to true only inside the range over the bind map) is
		// false, or a comma-ok lookup of the target in the bind map fails. From that edge every return must carry a
		// non-nil error.
		ok := false
		type startEdge struct {
			b *ssa.BasicBlock
			i int
		}
		var starts []startEdge
		for _, b := range fn.Blocks {
			v, trueIdx, isC := an.BoolCondEdge(b)
			if !isC {
				continue
			}
			switch x := v.(type) {
			case *ssa.Phi:
				if x.Type().String() != "bool" || x.Comment == "&&" || x.Comment == "||" {
					continue
				}
				inRange := false
				for i, e := range x.Edges {
					k, isK := e.(*ssa.Const)
					if !isK || k.Value == nil || k.Value.String() != "true" {
						continue
					}
					// set to true under the header of a range over the bind map
					an.Instrs(fn, func(in ssa.Instruction) {
						if nx, isNx := in.(*ssa.Next); isNx {
							if rg, isRg := nx.Iter.(*ssa.Range); isRg && strings.HasSuffix(rg.X.Type().String(), "channel.BindMap") && nx.Block().Dominates(x.Block().Preds[i]) {
								inRange = true
							}
						}
					})
				}
				if inRange {
					starts = append(starts, startEdge{b, 1 - trueIdx})
				}
			case *ssa.Extract:
				if lk, isLk := x.Tuple.(*ssa.Lookup); isLk && lk.CommaOk && x.Index == 1 && strings.HasSuffix(lk.X.Type().String(), "channel.BindMap") {
					starts = append(starts, startEdge{b, 1 - trueIdx})
				}
			}
		}
		if len(starts) == 0 {
			// no flag and no lookup: a loop that returns on a match; "no entry matches" is then the exhaustion of the range
			// over the bind map (the header's exit edge)
			for _, b := range fn.Blocks {
				ifi, isIf := b.Instrs[len(b.Instrs)-1].(*ssa.If)
				if !isIf {
					continue
				}
				ex, isEx := ifi.Cond.(*ssa.Extract)
				if !isEx || ex.Index != 0 {
					continue
				}
				if nx, isNx := ex.Tuple.(*ssa.Next); isNx {
					if rg, isRg := nx.Iter.(*ssa.Range); isRg && strings.HasSuffix(rg.X.Type().String(), "channel.BindMap") {
						starts = append(starts, startEdge{b, 1})
					}
				}
			}
		}
		if len(starts) > 0 {
			ok = true
			for _, st := range starts {
				fl := an.FlowFromEdge(st.b, st.i, nil)
				rets := fl.ReachedReturns()
				if len(rets) == 0 {
					ok = false
				}
				for _, ret := range rets {
					if len(ret.Results) < 2 || fl.Nilness(an.RetVal(ret, 1)) != 1 {
						ok = false
					}
				}
			}
		}
		c.Ob("(*core/task/channel.Outbound).ToFMQMap|unmatched-is-error", fn.Pos(), ok, "when no entry of the bind map matches the target the function must return a non-nil error")
	}
	chain := []struct{ pkg, fn, callee string }{
		{"core/task", "Task.BuildPropertyMap", "ToFMQMap"},
		{"core/task", "Tasks.BuildPropertyMaps", "BuildPropertyMap"},
		{"core/task", "Manager.configureTasks", "BuildPropertyMaps"},
	}
	for _, ch := range chain {
		fn := c.MustFn(ch.pkg, ch.fn)
		if fn == nil {
			continue
		}
		c.Subject()
		ok := false
		n := 0
		for _, ci := range an.Calls(fn, func(nm string, ci ssa.CallInstruction) bool { return an.MethodName(ci.Common()) == ch.callee }) {
			call, isCall := ci.(*ssa.Call)
			if !isCall {
				continue
			}
			if ch.callee == "ToFMQMap" && !strings.Contains(an.CalleeName(&call.Call), "Outbound") {
				continue
			}
			n++
			ev := errResult(call)
			if ev == nil {
				continue
			}
			var avoid []ssa.Instruction
			for _, e := range an.CallsNamed(fn, "(*core/controlcommands.CommandQueue).Enqueue") {
				avoid = append(avoid, e)
			}
			for _, t := range an.ErrTests(ev) {
				// from the error edge: straight to a return of a non-nil error - no further command, no next loop iteration
				fl := an.FlowFromEdge(t.If.Block(), succIndex(t.If.Block(), t.NonNilSucc), nil, ev)
				good := true
				for _, a := range avoid {
					if fl.Reaches(a) {
						good = false
					}
				}
				if h, _ := an.EnclosingLoop(call.Block()); h != nil && fl.Reached[h] {
					good = false
				}
				rets := fl.ReachedReturns()
				if len(rets) == 0 {
					good = false
				}
				for _, ret := range rets {
					if len(ret.Results) == 0 || fl.Nilness(an.RetVal(ret, len(ret.Results)-1)) != 1 {
						good = false
					}
				}
				if good {
					ok = true
				}
			}
			if !ok {
				// the error may leave an extracted helper untested and be tested by the caller one join later: decide by a flow
				// started at the call with its error known non-nil
				fl := an.FlowFromFacts(call.Block(), nil, ev)
				good := true
				for _, a := range avoid {
					if a.Block() != call.Block() && fl.Reaches(a) {
						good = false
					}
				}
				if h, _ := an.EnclosingLoop(call.Block()); h != nil && h != call.Block() && fl.Reached[h] {
					good = false
				}
				rets := fl.ReachedReturns()
				if len(rets) == 0 {
					good = false
				}
				for _, ret := range rets {
					if len(ret.Results) == 0 || fl.Nilness(an.RetVal(ret, len(ret.Results)-1)) != 1 {
						good = false
					}
				}
				if good {
					ok = true
				}
			}
		}
		c.Ob("core/task."+ch.fn+"|propagates-"+ch.callee+"-error", fn.Pos(), ok && n > 0, "an error of %s must make %s return an error at once (before any command is enqueued)", ch.callee, ch.fn)
	}
}

func r13e(c *an.Ctx) {
	c.Rule("R13e", "global alias: equal endpoint skipped, different endpoint is an error, never overwritten", 1)
	fn := c.MustFn("core/task", "Manager.configureTasks")
	if fn == nil {
		return
	}
	c.Subject()
	var store *ssa.MapUpdate
	var stores []*ssa.MapUpdate
	an.Instrs(fn, func(in ssa.Instruction) {
		if mu, ok := in.(*ssa.MapUpdate); ok && strings.HasSuffix(mu.Map.Type().String(), "channel.BindMap") && an.InLoop(mu.Block()) {
			store = mu
			stores = append(stores, mu)
		}
	})
	if store == nil {
		c.Lost("bind map store in configureTasks")
		return
	}
	// innermost loop around the store: one iteration = one inbound channel of one task
	h, _ := an.EnclosingLoop(store.Block())
	endOfIteration := func(b *ssa.BasicBlock, i int) bool { return h != nil && b.Succs[i] == h && h.Dominates(b) }
	ok, seen := true, false
	an.Instrs(fn, func(in ssa.Instruction) {
		lk, isLk := in.(*ssa.Lookup)
		if !isLk || !lk.CommaOk || !strings.HasSuffix(lk.X.Type().String(), "channel.BindMap") {
			return
		}
		for _, r := range *lk.Referrers() {
			ex, isEx := r.(*ssa.Extract)
			if !isEx || ex.Index != 1 {
				continue
			}
			for _, b := range fn.Blocks {
				v, trueIdx, isC := an.BoolCondEdge(b)
				if !isC || v != ssa.Value(ex) {
					continue
				}
				seen = true
				// from "alias already defined": no store into the bind map is reachable within this iteration
				fl := an.FlowFromEdge(b, trueIdx, endOfIteration)
				for _, st := range stores {
					if fl.Reaches(st) {
						ok = false
					}
				}
				// and the different-endpoint branch ends in a non-nil error being returned
				errRet := false
				for _, ci := range an.CallsNamed(fn, "core/task/channel.EndpointEquals") {
					call := ci.(*ssa.Call)
					for _, bb := range fn.Blocks {
						cv, ti, isCond := an.BoolCondEdge(bb)
						if !isCond || cv != ssa.Value(call) {
							continue
						}
						f2 := an.FlowFromEdge(bb, 1-ti, nil)
						rets := f2.ReachedReturns()
						good := len(rets) > 0
						for _, ret := range rets {
							if len(ret.Results) == 0 || f2.Nilness(an.RetVal(ret, len(ret.Results)-1)) != 1 {
								good = false
							}
						}
						for _, st := range stores {
							if f2.Reaches(st) {
								good = false
							}
						}
						if good {
							errRet = true
						}
					}
				}
				if !errRet {
					ok = false
				}
			}
		}
	})
	// the equality that decides "same endpoint" compares the stored endpoint and the candidate as they are:
	// neither operand may pass through a host-erasing conversion
	for _, ci := range an.CallsNamed(fn, "core/task/channel.EndpointEquals") {
		for i, a := range ci.Common().Args {
			if call, isCall := an.Strip(a).(*ssa.Call); isCall {
				if m := an.MethodName(&call.Call); m == "ToBoundEndpoint" || m == "ToTargetEndpoint" {
					ok = false
					c.Ob("(*core/task.Manager).configureTasks|alias-equality-operands", ci.Pos(), false,
						"operand %d of the global-alias equality test is converted with %s before the comparison: two endpoints on different hosts with the same port and transport then count as the same endpoint and the conflict is not rejected", i+1, m)
				}
			}
		}
	}
	// the lookup is only done for keys with the "::" prefix
	pref := false
	for _, ci := range an.CallsNamed(fn, "strings.HasPrefix") {
		if s, isS := an.ConstString(ci.Common().Args[1]); isS && s == "::" {
			pref = true
		}
	}
	// the equality itself: two endpoints are equal only if their hosts are (whole-value equality, or a comparison of the
	// Host fields, must be known true wherever true can be returned)
	if eq := c.MustFn("core/task/channel", "EndpointEquals"); eq != nil {
		c.Mark(eq)
		tests := 0
		bad := an.BoolOnlyIf(eq, true, func(v ssa.Value) (bool, bool) {
			bo, isBo := v.(*ssa.BinOp)
			if !isBo || bo.Op != token.EQL {
				return false, false
			}
			tn := bo.X.Type().String()
			if strings.HasSuffix(tn, "channel.TcpEndpoint") || strings.HasSuffix(tn, "channel.IpcEndpoint") {
				tests++
				return true, true
			}
			if isFieldNamed(an.Strip(bo.X), "Host") && isFieldNamed(an.Strip(bo.Y), "Host") {
				tests++
				return true, true
			}
			if isFieldNamed(an.Strip(bo.X), "Path") && isFieldNamed(an.Strip(bo.Y), "Path") {
				tests++
				return true, true
			}
			return false, false
		})
		pos := eq.Pos()
		if len(bad) > 0 {
			pos = bad[0].Pos()
		}
		c.Ob("core/task/channel.EndpointEquals|hosts-compared", pos, len(bad) == 0 && tests > 0,
			"EndpointEquals can answer true without the two endpoints' hosts (or whole values) having been compared equal: endpoints on different hosts with the same port then count as one endpoint and a conflicting global alias is accepted")
	}
	c.Ob("(*core/task.Manager).configureTasks|alias-conflict", store.Pos(), ok && seen && pref, "an already defined global alias must never be overwritten: same endpoint => skip, different endpoint => error")
	_ = token.NoPos
}

// R13f: a role generated from a template has its own connect / bind lists: the target of an outbound channel is resolved
// per generated role (it may name the generated role's own siblings), so a list that shares its backing array with the
// template's keeps the first role's resolution for all of them.
func r13f(c *an.Ctx) {
	c.Rule("R13f", "roleBase.copy: Connect, Bind and Constraints of the copy are freshly allocated slices", 1)
	freshSliceMembers(c, "roleBase.copy", []string{"Connect", "Bind", "Constraints"})
}

// freshSliceMembers: each named slice member of the struct returned by core/workflow.<fnName> is a newly made slice
// (make / append to nil / slices.Clone), never a re-slicing of the original's.
func freshSliceMembers(c *an.Ctx, fnName string, fields []string) {
	fn := c.MustFn("core/workflow", fnName)
	if fn == nil {
		return
	}
	c.Subject()
	var lit *ssa.Alloc
	for _, r := range an.Returns(fn) {
		if mi, ok := an.RetVal(r, 0).(*ssa.MakeInterface); ok {
			if al, isAl := mi.X.(*ssa.Alloc); isAl {
				lit = al
			}
		}
	}
	if lit == nil {
		c.Ob("core/workflow."+fnName+"|slices-fresh", fn.Pos(), false, "cannot find the struct returned by copy()")
		return
	}
	var fresh func(v ssa.Value, depth int) bool
	fresh = func(v ssa.Value, depth int) bool {
		if depth > 5 {
			return false
		}
		switch x := v.(type) {
		case *ssa.MakeSlice:
			return true
		case *ssa.Const:
			return x.Value == nil // nil slice
		case *ssa.ChangeType:
			return fresh(x.X, depth+1)
		case *ssa.Slice:
			// a slice of a fresh local array / slice
			if al, ok := x.X.(*ssa.Alloc); ok {
				_ = al
				return true
			}
			return fresh(x.X, depth+1)
		case *ssa.Call:
			n := an.CalleeName(&x.Call)
			if n == "builtin.append" {
				return fresh(x.Call.Args[0], depth+1)
			}
			return n == "slices.Clone" || strings.HasPrefix(n, "slices.Clone[")
		case *ssa.Phi:
			for _, e := range x.Edges {
				if !fresh(e, depth+1) {
					return false
				}
			}
			return len(x.Edges) > 0
		}
		return false
	}
	var bad []string
	for _, fld := range fields {
		found, okF := false, true
		for _, r := range *lit.Referrers() {
			fa, ok := r.(*ssa.FieldAddr)
			if !ok || !isFieldNamed(fa, fld) || fa.Referrers() == nil {
				continue
			}
			for _, rr := range *fa.Referrers() {
				if st, isSt := rr.(*ssa.Store); isSt && st.Addr == ssa.Value(fa) {
					found = true
					if !fresh(st.Val, 0) {
						okF = false
					}
				}
			}
		}
		if !found || !okF {
			bad = append(bad, fld)
		}
	}
	c.Ob("core/workflow."+fnName+"|slices-fresh", fn.Pos(), len(bad) == 0,
		"the copied role's %v is not a newly allocated slice (it re-slices or aliases the original's backing array): what one generated role resolves or appends there is seen by the template and by every other role generated from it", bad)
}

// R13g: "together with the inbound side's transport": the transport written into a channel's FairMQ properties is the
// one handed in by the resolution (the bound endpoint's), never replaced by the channel's own declaration.
func r13g(c *an.Ctx) {
	c.Rule("R13g", "buildFMQMap: the transport property is the transport argument, not the channel's own field", 2)
	for _, name := range []string{"Outbound.buildFMQMap", "Inbound.buildFMQMap"} {
		fn := c.MustFn("core/task/channel", name)
		if fn == nil {
			continue
		}
		var tp *ssa.Parameter
		for _, p := range fn.Params {
			if strings.HasSuffix(p.Type().String(), "channel.TransportType") {
				tp = p
			}
		}
		n := 0
		an.Instrs(fn, func(in ssa.Instruction) {
			mu, ok := in.(*ssa.MapUpdate)
			if !ok {
				return
			}
			// the entry whose key is, or ends with, "transport" ("chans.<name>.0.transport" spelled as a concatenation)
			isTransportKey := false
			if k, isS := an.ConstString(mu.Key); isS {
				isTransportKey = k == "transport" || strings.HasSuffix(k, ".transport")
			} else if bo, isBo := mu.Key.(*ssa.BinOp); isBo && bo.Op == token.ADD {
				if k, isS := an.ConstString(bo.Y); isS && (k == "transport" || strings.HasSuffix(k, ".transport")) {
					isTransportKey = true
				}
			}
			if !isTransportKey {
				return
			}
			n++
			c.Subject()
			fromParam, other := false, []string{}
			for _, l := range an.BackSlice(mu.Value, an.SliceOpts{}) {
				switch {
				case l.Kind == "param" && tp != nil && l.Val == ssa.Value(tp):
					fromParam = true
				case l.Kind == "const" || l.Kind == "func":
				default:
					other = append(other, l.Kind+":"+l.Path)
				}
			}
			sort.Strings(other)
			c.Ob("(*core/task/channel."+strings.Replace(name, ".", ").", 1)+"|transport-is-the-argument", mu.Pos(), fromParam && len(other) == 0,
				"the transport property is computed from %v besides (or instead of) the transport argument: the channel is configured with a transport other than the one its peer was bound with", other)
		})
		if n == 0 {
			c.Lost("the \"transport\" entry of the property map in " + name)
		}
	}
}

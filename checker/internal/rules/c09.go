package rules

import (
	"fmt"
	"go/token"
	"strings"

	"verifchk/internal/an"

	"golang.org/x/tools/go/ssa"
)

func init() {
	register("C09", "Decides structural necessary conditions of 'only critical hook failures affect a transition, exactly as documented': "+
		"(R09a) in the before_event/leave_state callbacks a hook error reaches Event.Cancel and nothing later in the transition runs, while enter_state/after_event always run both hook groups; "+
		"(R09b) only errors of hooks with the Critical trait reach the returned error and stop the weight loop; "+
		"(R09c) goroutines that collect simultaneous hook failures never write a shared map without a lock. "+
		"Does not decide hook timeouts, exit-code values or plugin behaviour.", runC09)
}

func runC09(c *an.Ctx) {
	libFsm3(c)
	r09a(c)
	r09b(c)
	r09c(c)
	// shared with C08: a pending (possibly critical, possibly failing) call must not be forgotten before it is awaited
	pendingResetRule(c, "R09d")
	pendingMutationRule(c, "R09e")
	// shared with C08: every awaited call is collected before AwaitAll returns, so that all failures of one moment and
	// weight are reported together and no hook is still running when the transition is answered
	c.As(map[string]string{"R08f": "R09f"}, func() { r08f(c) })
	r09g(c)
	whoMayCancel(c, "R09h")
	// round 7
	r09j(c)
	c.As(map[string]string{"R15f": "R09i"}, func() { r15f(c) })
	r09k(c)
	// round 8
	r09l(c)
	r09m(c)
	c.As(map[string]string{"R02t": "R09n"}, func() { r02t(c) })
	// round 9
	r09o(c)
}

// R09g: a hook task counts as failed whenever it did not exit with code 0 - also when it was terminated by a signal
// (reported with a negative exit code). The exit code of a terminated hook task is therefore only ever compared for
// (in)equality with zero.
func r09g(c *an.Ctx) {
	c.Rule("R09g", "runTasksAsHooks: the exit code of a terminated hook task is only tested for (in)equality with 0", 1)
	fn := c.MustFn("core/environment", "Environment.runTasksAsHooks")
	if fn == nil {
		return
	}
	n := 0
	for _, f := range an.WithAnon(fn) {
		an.Instrs(f, func(in ssa.Instruction) {
			bo, ok := in.(*ssa.BinOp)
			if !ok {
				return
			}
			for _, pair := range [][2]ssa.Value{{bo.X, bo.Y}, {bo.Y, bo.X}} {
				if !isFieldNamed(pair[0], "ExitCode") {
					continue
				}
				n++
				c.Subject()
				z, isC := an.ConstInt(pair[1])
				good := (bo.Op == token.EQL || bo.Op == token.NEQ) && isC && z == 0
				c.Ob(fmt.Sprintf("(*core/environment.Environment).runTasksAsHooks|exit-code-test#%d", n), bo.Pos(), good,
					"the hook task's exit code is tested with %s against %v instead of for (in)equality with 0: a hook killed by a signal (negative exit code) or exiting with another code passes as successful, and a critical hook failure no longer cancels the transition", bo.Op, pair[1])
			}
		})
	}
	if n == 0 {
		c.Lost("a test of the terminated hook task's ExitCode in Environment.runTasksAsHooks")
	}
}

// envCallbacks resolves the four FSM callback closures of the environment by their constant map
// keys in the fsm.Callbacks literal (P2).
func envCallbacks(c *an.Ctx) map[string]*ssa.Function {
	fn := c.MustFn("core/environment", "newEnvironment")
	if fn == nil {
		return nil
	}
	m := an.MapLiteralClosures(fn, "looplab/fsm.Callbacks")
	for _, k := range []string{"before_event", "leave_state", "enter_state", "after_event"} {
		if m[k] == nil {
			c.Lost("fsm callback " + k + " in newEnvironment")
			return nil
		}
		c.Mark(m[k])
	}
	return m
}

const (
	negHooks  = "(*core/environment.Environment).handleHooksWithNegativeWeights"
	posHooks  = "(*core/environment.Environment).handleHooksWithPositiveWeights"
	fsmCancel = "(*github.com/looplab/fsm.Event).Cancel"
)

// errEdgeBlocks returns the blocks only reachable when `v != nil` is known (dominated by the
// true edge of v != nil, or false edge of v == nil).
func nonNilKnown(b *ssa.BasicBlock, v ssa.Value) bool { return an.KnownNonNil(b, v) }

func r09a(c *an.Ctx) {
	c.Rule("R09a", "before_event/leave_state: a hook error reaches e.Cancel and no later step of the transition; enter_state/after_event: both hook groups always run", 4)
	cb := envCallbacks(c)
	if cb == nil {
		return
	}
	for _, k := range []string{"before_event", "leave_state"} {
		f := cb[k]
		c.Subject()
		neg := an.CallsNamed(f, negHooks)
		pos := an.CallsNamed(f, posHooks)
		key := "core/environment.newEnvironment[" + k + "]"
		if len(neg) != 1 || len(pos) != 1 {
			c.Ob(key+"|hook-calls", f.Pos(), false, "expected exactly one negative-weight and one positive-weight hook call, found %d/%d", len(neg), len(pos))
			continue
		}
		negRes := neg[0].(*ssa.Call)
		posRes := pos[0].(*ssa.Call)
		cancels := an.CallsNamed(f, fsmCancel)
		// later steps: positive hooks, NewRunNumber, handlerFunc invocation
		var later []ssa.Instruction
		later = append(later, pos[0])
		for _, ci := range an.Calls(f, func(n string, ci ssa.CallInstruction) bool {
			return strings.HasSuffix(n, ").NewRunNumber") || n == "(*core/environment.Environment).handlerFunc"
		}) {
			later = append(later, ci)
		}
		// (1) on negRes != nil: a Cancel(negRes) is reached, and no later step is reachable.
		var negErrIf *ssa.If
		for _, r := range *negRes.Referrers() {
			if bo, ok := r.(*ssa.BinOp); ok && bo.Referrers() != nil {
				for _, rr := range *bo.Referrers() {
					if ifi, ok := rr.(*ssa.If); ok {
						negErrIf = ifi
					}
				}
			}
		}
		if negErrIf == nil {
			c.Ob(key+"|neg-error-tested", negRes.Pos(), false, "the result of the negative-weight hooks is never tested")
			continue
		}
		// find the successor block where negRes != nil is known
		var errBlk *ssa.BasicBlock
		for _, s := range negErrIf.Block().Succs {
			if an.KnownNonNil(s, negRes) {
				errBlk = s
			}
		}
		if errBlk == nil {
			c.Ob(key+"|neg-error-tested", negRes.Pos(), false, "cannot find the error edge of the negative-weight hook result (unrecognised guard shape)")
			continue
		}
		first := errBlk.Instrs[0]
		cancelReached := false
		for _, cn := range cancels {
			if cancelArgIs(cn, negRes) {
				if cn.Block() == errBlk || errBlk.Dominates(cn.Block()) {
					cancelReached = true
				}
			}
		}
		c.Ob(key+"|neg-error-cancels", negErrIf.Pos(), cancelReached, "on a negative-weight hook error the transition must be cancelled with that error (e.Cancel on the error edge)")
		stops := true
		var leak ssa.Instruction
		for _, l := range later {
			if l.Block() == errBlk || an.BlockReaches(errBlk, l.Block()) {
				stops = false
				leak = l
			}
		}
		_ = first
		msg := "after a negative-weight hook error nothing later in this moment may run"
		if leak != nil {
			msg += " (reaches " + an.CalleeName(leak.(ssa.CallInstruction).Common()) + " at " + c.PosStr(leak.Pos()) + ")"
		}
		c.Ob(key+"|neg-error-stops", negErrIf.Pos(), stops, "%s", msg)
		// (2) positive hooks error -> Cancel; in leave_state handlerFunc not reached when e.Err != nil
		posCancel := false
		for _, cn := range cancels {
			if cancelArgIs(cn, posRes) && an.KnownNonNil(cn.Block(), posRes) {
				posCancel = true
			}
		}
		c.Ob(key+"|pos-error-cancels", posRes.Pos(), posCancel, "on a non-negative-weight hook error the transition must be cancelled with that error")
		if k == "leave_state" {
			hf := an.CallsNamed(f, "(*core/environment.Environment).handlerFunc")
			if len(hf) != 1 {
				c.Ob(key+"|task-transition", f.Pos(), false, "expected exactly one handlerFunc() use in leave_state, found %d", len(hf))
			} else {
				// the call must be guarded by e.Err == nil (field Err of the event parameter)
				guarded := false
				for _, a := range an.Atoms(hf[0].Block()) {
					if a.Op.String() == "==" && a.Y != nil && an.IsNilConst(a.Y) {
						if fv := an.FieldOf(a.X); fv != nil && fv.Name() == "Err" {
							guarded = true
						}
					}
				}
				c.Ob(key+"|task-transition-guarded", hf[0].Pos(), guarded && an.Dominates(pos[0], hf[0]),
					"the task transition (handlerFunc) must come after the non-negative hooks and only when e.Err == nil")
			}
		}
	}
	for _, k := range []string{"enter_state", "after_event"} {
		f := cb[k]
		c.Subject()
		key := "core/environment.newEnvironment[" + k + "]"
		neg := an.CallsNamed(f, negHooks)
		pos := an.CallsNamed(f, posHooks)
		if len(neg) != 1 || len(pos) != 1 {
			c.Ob(key+"|hook-calls", f.Pos(), false, "expected exactly one negative-weight and one positive-weight hook call, found %d/%d", len(neg), len(pos))
			continue
		}
		// both are reached on every path from entry to return: no return avoids them
		rets := []ssa.Instruction{}
		for _, r := range an.Returns(f) {
			rets = append(rets, r)
		}
		skipNeg := an.PathFromEntryAvoiding(f, an.IsExit, []ssa.Instruction{neg[0]})
		skipPos := an.PathFromEntryAvoiding(f, an.IsExit, []ssa.Instruction{pos[0]})
		c.Ob(key+"|both-groups-run", f.Pos(), !skipNeg && !skipPos && an.Dominates(neg[0], pos[0]),
			"at %s both hook groups must run on every path, negative first, whatever the first group returned (skip-negative=%v skip-positive=%v)", k, skipNeg, skipPos)
		// errors are reported through Cancel (sets e.Err) on the non-nil edge
		reported := false
		for _, cn := range an.CallsNamed(f, fsmCancel) {
			// conditional (the guard may be a disjunction `a != nil || b != nil`, which has no dominating conjunction)
			if len(an.Atoms(cn.Block())) > 0 || len(an.ControlConds(cn.Block())) > 0 {
				reported = true
			}
		}
		// ... for each of the two groups, on every path: with that group's error set, no return is reached without a
		// Cancel that carries it
		for gi, grp := range []ssa.CallInstruction{neg[0], pos[0]} {
			res, isCall := grp.(*ssa.Call)
			if !isCall {
				continue
			}
			cancelIn := map[*ssa.BasicBlock]bool{}
			for _, cn := range an.CallsNamed(f, fsmCancel) {
				if len(cn.Common().Args) >= 2 && an.DerivesFrom(cn.Common().Args[len(cn.Common().Args)-1], res) {
					cancelIn[cn.Block()] = true
				}
			}
			fl := an.FlowFromFacts(res.Block(), func(b *ssa.BasicBlock, succ int) bool { return cancelIn[b] }, res)
			for _, r := range fl.ReachedReturns() {
				if !cancelIn[r.Block()] {
					reported = false
					_ = gi
				}
			}
		}
		c.Ob(key+"|error-reported", f.Pos(), reported, "a hook error at %s (of either group) must be reported through e.Cancel(err) on every path", k)
	}
}

func r09b(c *an.Ctx) {
	c.Rule("R09b", "handleHooks: only errors of hooks with trait Critical feed the returned error and stop the weight loop", 1)
	fn := c.MustFn("core/environment", "Environment.handleHooks")
	if fn == nil {
		return
	}
	c.Subject()
	key := "core/environment.(*Environment).handleHooks"
	// the list that feeds the returned error: appends whose result flows into a len()>0 / !=0 guard of a non-nil return
	// Identify appends guarded by Critical==true.
	isCriticalRead := func(v ssa.Value) bool {
		// value is field Critical of the result of GetTraits()
		if f := an.FieldOf(v); f != nil && f.Name() == "Critical" {
			return true
		}
		return false
	}
	guardedByCritical := func(b *ssa.BasicBlock, want bool) bool {
		for _, a := range an.Atoms(b) {
			if a.Y == nil && isCriticalRead(a.X) && a.Val == want {
				return true
			}
		}
		return false
	}
	// appends of error values
	nApp, nGuard := 0, 0
	for _, ci := range an.CallsNamed(fn, "builtin.append") {
		call := ci.(*ssa.Call)
		st, ok := call.Type().Underlying().(interface {
			Elem() interface{ String() string }
		})
		_ = st
		_ = ok
		if !strings.HasSuffix(call.Type().String(), "[]error") {
			continue
		}
		nApp++
		if guardedByCritical(call.Block(), true) {
			nGuard++
		} else {
			c.Ob(key+"|append-critical-guard", call.Pos(), false, "an error is appended to the list of failures that makes the transition fail without testing the hook's Critical trait")
		}
	}
	c.Ob(key+"|failure-list-critical-only", fn.Pos(), nApp > 0 && nApp == nGuard, "errors enter the returned failure list only under GetTraits().Critical (%d appends, %d guarded)", nApp, nGuard)
	// returns: a non-nil error return must be guarded by len(list) != 0; the fallthrough returns nil
	nonNilRets, okRets := 0, 0
	for _, r := range an.Returns(fn) {
		if len(r.Results) != 1 {
			continue
		}
		if an.IsNilConst(r.Results[0]) {
			continue
		}
		nonNilRets++
		g := false
		for _, a := range an.Atoms(r.Block()) {
			if a.Y != nil {
				if call, ok := a.X.(*ssa.Call); ok && an.CalleeName(&call.Call) == "builtin.len" && strings.HasSuffix(call.Call.Args[0].Type().String(), "[]error") {
					g = true
				}
			}
		}
		if g {
			okRets++
		} else {
			c.Ob(key+"|error-return-guard", r.Pos(), false, "an error is returned without the critical-failure list being non-empty")
		}
	}
	c.Ob(key+"|error-iff-critical-failures", fn.Pos(), nonNilRets > 0 && nonNilRets == okRets, "every non-nil return is guarded by len(criticalFailures) != 0 (%d returns)", nonNilRets)
	// loop stop: the flag that breaks the weight loop is set to true only under Critical
	flagOK, flagN := true, 0
	an.Instrs(fn, func(in ssa.Instruction) {
		p, ok := in.(*ssa.Phi)
		if !ok || p.Comment != "thereAreCriticalErrors" {
			return
		}
	})
	// generic: every If whose true edge leaves the weight loop (jumps to a block outside the cycle) on a bool phi:
	// the phi's `true` constants come from blocks guarded by Critical.
	an.Instrs(fn, func(in ssa.Instruction) {
		ifi, ok := in.(*ssa.If)
		if !ok {
			return
		}
		p, ok := ifi.Cond.(*ssa.Phi)
		if !ok || !an.InLoop(ifi.Block()) {
			return
		}
		if b, isB := p.Type().Underlying().(interface{ Kind() int }); isB {
			_ = b
		}
		if p.Type().String() != "bool" {
			return
		}
		// does the true edge leave the loop?
		t := ifi.Block().Succs[0]
		if an.BlockReaches(t, ifi.Block()) {
			return
		}
		flagN++
		seen := map[*ssa.Phi]bool{}
		var chk func(p *ssa.Phi)
		chk = func(p *ssa.Phi) {
			if seen[p] {
				return
			}
			seen[p] = true
			for i, e := range p.Edges {
				if q, ok := e.(*ssa.Phi); ok {
					chk(q)
					continue
				}
				if cst, ok := e.(*ssa.Const); ok && cst.Value != nil && cst.Value.String() == "true" {
					pred := p.Block().Preds[i]
					if !guardedByCritical(pred, true) {
						flagOK = false
						c.Ob(key+"|stop-only-on-critical", pred.Instrs[len(pred.Instrs)-1].Pos(), false, "the weight loop is left after a failure that was not tested for the Critical trait")
					}
				}
			}
		}
		chk(p)
	})
	c.Ob(key+"|stop-only-on-critical", fn.Pos(), flagOK && flagN > 0, "the weight loop is abandoned only after a critical failure (%d loop-exit flags inspected)", flagN)

	// converse: every critical failure collected at this weight stops the loop. For each error collection E (the result of
	// AwaitAll and of runTasksAsHooks) the stop flag is raised inside a range loop over E itself - or over a map that
	// received every entry of E - under no other condition than the hook's Critical trait.
	var flagTrueBlocks []*ssa.BasicBlock
	an.Instrs(fn, func(in ssa.Instruction) {
		ifi, ok := in.(*ssa.If)
		if !ok {
			return
		}
		p, ok := ifi.Cond.(*ssa.Phi)
		if !ok || !an.InLoop(ifi.Block()) || p.Type().String() != "bool" || an.BlockReaches(ifi.Block().Succs[0], ifi.Block()) {
			return
		}
		seen := map[*ssa.Phi]bool{}
		var walk func(p *ssa.Phi)
		walk = func(p *ssa.Phi) {
			if seen[p] {
				return
			}
			seen[p] = true
			for i, e := range p.Edges {
				if q, ok := e.(*ssa.Phi); ok {
					walk(q)
				} else if cst, ok := e.(*ssa.Const); ok && cst.Value != nil && cst.Value.String() == "true" {
					flagTrueBlocks = append(flagTrueBlocks, p.Block().Preds[i])
				}
			}
		}
		walk(p)
	})
	// range loops of fn: Range instruction -> header block (the block holding its Next)
	type rloop struct {
		rng  *ssa.Range
		h    *ssa.BasicBlock
		body map[*ssa.BasicBlock]bool
	}
	var rloops []rloop
	an.Instrs(fn, func(in ssa.Instruction) {
		r, ok := in.(*ssa.Range)
		if !ok || r.Referrers() == nil {
			return
		}
		for _, ref := range *r.Referrers() {
			if nx, ok := ref.(*ssa.Next); ok {
				rloops = append(rloops, rloop{r, nx.Block(), an.NaturalLoop(nx.Block())})
			}
		}
	})
	derives := func(v ssa.Value, src ssa.Value) bool {
		seen := map[ssa.Value]bool{}
		var w func(v ssa.Value) bool
		w = func(v ssa.Value) bool {
			if v == nil || seen[v] {
				return false
			}
			seen[v] = true
			if v == src {
				return true
			}
			if p, ok := v.(*ssa.Phi); ok {
				for _, e := range p.Edges {
					if w(e) {
						return true
					}
				}
			}
			return false
		}
		return w(v)
	}
	raisesUnderCriticalOnly := func(l rloop) bool {
		for _, b := range flagTrueBlocks {
			if !l.body[b] {
				continue
			}
			okG, crit := true, false
			for _, g := range an.Guards(b) {
				if g.LoopHeader || g.LoopExit || !l.body[g.If.Block()] || g.If.Block() == l.h {
					continue
				}
				if isCriticalRead(g.V) && g.Val {
					crit = true
				} else {
					okG = false
				}
			}
			if okG && crit {
				return true
			}
		}
		return false
	}
	for _, src := range []struct{ callee, what string }{
		{"(core/workflow/callable.Calls).AwaitAll", "awaited call hooks"},
		{"(*core/environment.Environment).runTasksAsHooks", "task hooks"},
	} {
		calls := an.CallsNamed(fn, src.callee)
		for _, ci := range calls {
			call, ok := ci.(*ssa.Call)
			if !ok {
				continue
			}
			found := false
			for _, l := range rloops {
				if derives(l.rng.X, call) && raisesUnderCriticalOnly(l) {
					found = true
				}
			}
			if !found {
				// a map that receives every entry of E unconditionally, scanned afterwards
				for _, l := range rloops {
					if !derives(l.rng.X, call) {
						continue
					}
					for b := range l.body {
						for _, in := range b.Instrs {
							mu, ok := in.(*ssa.MapUpdate)
							if !ok {
								continue
							}
							uncond := true
							for _, g := range an.Guards(b) {
								if !g.LoopHeader && !g.LoopExit && l.body[g.If.Block()] && g.If.Block() != l.h {
									uncond = false
								}
							}
							if !uncond {
								continue
							}
							for _, l2 := range rloops {
								if l2.rng.X == mu.Map && an.CanReach(mu, l2.rng) && raisesUnderCriticalOnly(l2) {
									// the scan must belong to the same weight iteration
									if h, body := an.EnclosingLoop(call.Block()); h != nil && body[l2.h] {
										found = true
									}
								}
							}
						}
					}
				}
			}
			c.Ob(key+"|critical-failure-stops|"+src.what, call.Pos(), found,
				"every failed critical hook among the %s collected at this weight must stop the weight loop: the stop flag has to be raised while ranging over the collected errors themselves under no other condition than the Critical trait; otherwise hooks of later weights still run after a critical failure (e.g. a call awaited here but triggered elsewhere)", src.what)
		}
		if len(calls) == 0 {
			c.Lost(src.callee + " in handleHooks")
		}
	}
}

func r09c(c *an.Ctx) {
	c.Rule("R09c", "goroutines collecting hook results never write a captured map/variable unsynchronised while siblings or the spawner can touch it (P8, closure body only)", 3)
	if fn := c.MustFn("core/workflow/callable", "Calls.AwaitAll"); fn != nil {
		goroutineWriteRule(c, fn, "core/workflow/callable.Calls.AwaitAll")
	}
	if fn := c.MustFn("core/workflow/callable", "Call.Start"); fn != nil {
		goroutineWriteRule(c, fn, "core/workflow/callable.(*Call).Start")
	}
	if fn := c.MustFn("core/environment", "Environment.runTasksAsHooks"); fn != nil {
		goroutineWriteRule(c, fn, "core/environment.(*Environment).runTasksAsHooks")
	}
	c.Assume("R09c: writes hidden behind a function called from the goroutine are not followed (bound: closure body)")
}

// cancelArgIs: the (variadic) argument of e.Cancel(err...) is exactly v.
func cancelArgIs(cn ssa.CallInstruction, v ssa.Value) bool {
	a := cn.Common().Args
	if len(a) < 2 {
		return false
	}
	for _, e := range an.VariadicElems(a[1]) {
		if an.Strip(e) == v {
			return true
		}
	}
	return false
}

package rules

import (
	"fmt"
	"go/token"
	"go/types"
	"sort"
	"strings"

	"golang.org/x/tools/go/ssa"

	"verifchk/internal/an"
)

// Rules added after held-out seeding round 8.

// plainConds: the control conditions of b outside loop control.
func plainConds(c *an.Ctx, b *ssa.BasicBlock, allow func(v ssa.Value) bool) []string {
	var out []string
	for _, g := range an.ControlConds(b) {
		if g.LoopHeader || g.LoopExit {
			continue
		}
		if allow != nil && allow(g.V) {
			continue
		}
		out = append(out, c.PosStr(condPos(g.V)))
	}
	sort.Strings(out)
	return uniq(out)
}

// loopsWithEarlyExit lists, for fn, the early exits of its natural loops that are not accepted by ok.
func loopEarlyExits(c *an.Ctx, fn *ssa.Function, ok func(e an.LoopExit) bool) (loops int, bad []string) {
	for _, b := range fn.Blocks {
		body := an.NaturalLoop(b)
		if len(body) == 0 {
			continue
		}
		loops++
		for _, e := range an.EarlyExits(b, body) {
			if ok != nil && ok(e) {
				continue
			}
			bad = append(bad, c.PosStr(lastPos(e.From)))
		}
	}
	sort.Strings(bad)
	return
}

// R02u: the timeout of a deployment is the one configured: what acquireDeploymentTimeout returns can be the
// duration parsed from the variable stack.
func r02u(c *an.Ctx) {
	c.Rule("R02u", "acquireDeploymentTimeout: the parsed deploy_timeout can reach the return", 1)
	fn := c.MustFn("core/environment", "acquireDeploymentTimeout")
	if fn == nil {
		return
	}
	c.Subject()
	reaches := false
	for _, r := range an.Returns(fn) {
		for i := range r.Results {
			for _, v := range roleValues(an.RetVal(r, i), map[ssa.Value]bool{}) {
				if ex, ok := v.(*ssa.Extract); ok && ex.Index == 0 {
					if call, isCall := ex.Tuple.(*ssa.Call); isCall && strings.HasSuffix(an.CalleeName(&call.Call), "time.ParseDuration") {
						reaches = true
					}
				}
			}
		}
	}
	c.Ob("core/environment.acquireDeploymentTimeout|parsed-value-returned", fn.Pos(), reaches,
		"the duration parsed from deploy_timeout never reaches the return value: every deployment waits the built-in default, so a critical task that becomes active after the configured time still lets DEPLOY succeed (or one within it makes DEPLOY fail)")
}

// R02v: the answers of several targets stay together: consolidateResponses hands back a single target's response
// only when there was exactly one target (the callers tell critical from non-critical failures on the
// multi-response only).
func r02v(c *an.Ctx) {
	c.Rule("R02v", "consolidateResponses: a single response is returned only for a single target", 1)
	fn := c.MustFn(ccPkg, "consolidateResponses")
	if fn == nil {
		return
	}
	c.Subject()
	var bad []string
	n := 0
	for _, r := range an.Returns(fn) {
		if len(r.Results) != 1 {
			continue
		}
		v := an.RetVal(r, 0)
		if an.IsNilConst(v) {
			continue
		}
		n++
		sv := an.Strip(v)
		if mi, ok := sv.(*ssa.MakeInterface); ok {
			sv = an.Strip(mi.X)
		}
		if namedOf(sv.Type()) == "MesosCommandMultiResponse" {
			continue
		}
		one := an.GuardedByAll(r.Block(), func(a an.Atom) bool {
			if a.Op != token.EQL || a.Y == nil {
				return false
			}
			isLen := func(v ssa.Value) bool {
				call, ok := v.(*ssa.Call)
				if !ok {
					return false
				}
				b, ok := call.Call.Value.(*ssa.Builtin)
				return ok && b.Name() == "len" && call.Call.Args[0] == ssa.Value(fn.Params[1])
			}
			if k, ok := an.ConstInt(a.Y); ok && k == 1 && isLen(a.X) {
				return true
			}
			if k, ok := an.ConstInt(a.X); ok && k == 1 && isLen(a.Y) {
				return true
			}
			return false
		})
		if !one {
			bad = append(bad, c.PosStr(r.Pos()))
		}
	}
	sort.Strings(bad)
	c.Ob("core/controlcommands.consolidateResponses|single-only-for-one-target", fn.Pos(), len(bad) == 0 && n > 0,
		"one target's response is returned in place of the consolidated answer although there were several targets (at %v): the callers classify failures by criticality on the consolidated answer only, so a lone non-critical failure fails the transition", bad)
}

// R12o: Servent.ProcessResponse does not hold the servent's mutex while it hands the reply to the waiting
// RunCommand (a blocking send): RunCommand's timeout branch takes the same mutex to unregister the call.
func r12o(c *an.Ctx) {
	c.Rule("R12o", "Servent.ProcessResponse: the mutex is not held across the hand-over on Call.Done", 1)
	fn := c.MustFn(ccPkg, "Servent.ProcessResponse")
	if fn == nil {
		return
	}
	n := 0
	an.Instrs(fn, func(in ssa.Instruction) {
		snd, ok := in.(*ssa.Send)
		if !ok || !isFieldLoadNamed(snd.Chan, "Done") {
			return
		}
		n++
		c.Subject()
		var held []string
		for _, h := range an.HeldAt(snd) {
			held = append(held, fmt.Sprint(h))
		}
		// a deferred unlock keeps the lock until return, whatever the lock set says
		deferred := false
		an.Instrs(fn, func(x ssa.Instruction) {
			if d, isD := x.(*ssa.Defer); isD && strings.HasSuffix(an.CalleeName(d.Common()), "Unlock") {
				deferred = true
			}
		})
		c.Ob("(*core/controlcommands.Servent).ProcessResponse|send-without-lock", snd.Pos(), len(held) == 0 && !deferred,
			"the reply is handed over (blocking send on Call.Done) while the servent's mutex is held (%v, deferred unlock: %v): when the command's timeout fires at that moment RunCommand waits for the mutex and ProcessResponse for RunCommand - the command never completes and the queue stalls", held, deferred)
	})
	if n == 0 {
		c.Lost("send on Call.Done in Servent.ProcessResponse")
	}
}

// R12p: every command gets a Call of its own: NewCall returns a newly allocated Call whose Done channel is made
// there (a recycled one can carry the signal of an earlier command's late reply).
func r12p(c *an.Ctx) {
	c.Rule("R12p", "controlcommands.NewCall: a new Call with a new Done channel", 1)
	fn := c.MustFn(ccPkg, "NewCall")
	if fn == nil {
		return
	}
	c.Subject()
	ok := true
	n := 0
	for _, r := range an.Returns(fn) {
		for _, v := range roleValues(an.RetVal(r, 0), map[ssa.Value]bool{}) {
			n++
			al, isAl := an.Strip(v).(*ssa.Alloc)
			if !isAl {
				ok = false
				continue
			}
			fresh := false
			if al.Referrers() != nil {
				for _, ref := range *al.Referrers() {
					if fa, isFA := ref.(*ssa.FieldAddr); isFA && fieldNameAt(fa) == "Done" && fa.Referrers() != nil {
						for _, r2 := range *fa.Referrers() {
							if st, isSt := r2.(*ssa.Store); isSt {
								if _, mk := an.Strip(st.Val).(*ssa.MakeChan); mk {
									fresh = true
								}
							}
						}
					}
				}
			}
			ok = ok && fresh
		}
	}
	c.Ob("core/controlcommands.NewCall|fresh-call", fn.Pos(), ok && n > 0,
		"NewCall hands out a Call (or a Done channel) that was not made for this command: a reply that raced an earlier command's timeout is still parked on the old channel and completes the new command with no response")
}

// R12q: a reply is handed to the servent whatever the core knows about the task by then: in the response branches
// of incomingMessageHandler the hand-over does not depend on a roster lookup.
func r12q(c *an.Ctx) {
	c.Rule("R12q", "incomingMessageHandler: the hand-over of a response does not depend on the roster", 2)
	fn := c.MustFn("core/task", "schedulerState.incomingMessageHandler")
	if fn == nil {
		return
	}
	for _, f := range an.WithAnon(fn) {
		an.Instrs(f, func(in ssa.Instruction) {
			g, ok := in.(*ssa.Go)
			if !ok {
				return
			}
			body := an.ClosureFn(g.Call.Value)
			if body == nil || len(an.CallsNamed(body, "(*core/controlcommands.Servent).ProcessResponse")) == 0 {
				return
			}
			c.Subject()
			roster := func(v ssa.Value) bool { return isCallTo(v, "GetTask", "getByTaskId", "IsLocked", "GetTasks") }
			conds := condsMentioning(c, g.Block(), roster)
			for _, pr := range an.CallsNamed(body, "(*core/controlcommands.Servent).ProcessResponse") {
				conds = append(conds, condsMentioning(c, pr.Block(), roster)...)
			}
			c.Ob("ProcessResponse-handover|"+c.RelName(an.OutermostParent(f))+"|unconditional#"+fmt.Sprint(g.Pos()-f.Pos() > 0), g.Pos(), len(conds) == 0,
				"a response is handed to the servent only if the roster knows the task (%v): the reply of a task that left the roster meanwhile is discarded and its command waits out the whole timeout (and is then reported as unanswered)", conds)
		})
	}
}

// R04m: the detectors of an environment are all of the listed ones that are known: the loop of
// Environment.GetActiveDetectors is not left early.
func r04m(c *an.Ctx) {
	c.Rule("R04m", "Environment.GetActiveDetectors: the loop over the detector list has no early exit", 1)
	fn := c.MustFn("core/environment", "Environment.GetActiveDetectors")
	if fn == nil {
		return
	}
	c.Subject()
	loops, bad := loopEarlyExits(c, fn, nil)
	c.Ob("(*core/environment.Environment).GetActiveDetectors|whole-list", fn.Pos(), loops > 0 && len(bad) == 0,
		"the loop over the environment's detector list is left early (at %v): the detectors after that point are not counted as in use, and another environment can take them", bad)
}

// R04n: whether a task is owned does not depend on who else is looking: the ownership predicates of Task do not
// use try-locks.
func r04n(c *an.Ctx) {
	c.Rule("R04n", "core/task.Task: IsLocked/IsClaimable/GetParent/GetEnvironmentId take their lock unconditionally", 2)
	for _, m := range []string{"IsLocked", "GetParent", "GetEnvironmentId", "IsClaimable"} {
		fn := c.Fn("core/task", "Task."+m)
		if fn == nil {
			continue
		}
		c.Subject()
		var bad []string
		an.Instrs(fn, func(in ssa.Instruction) {
			if call, ok := in.(*ssa.Call); ok {
				n := an.MethodName(&call.Call)
				if n == "TryLock" || n == "TryRLock" {
					bad = append(bad, c.PosStr(call.Pos()))
				}
			}
		})
		c.Ob("(*core/task.Task)."+m+"|no-try-lock", fn.Pos(), len(bad) == 0,
			"%s answers from a try-lock (at %v): while a writer holds or waits for the task's mutex an owned task reads as unowned, and a concurrent cleanup kills it", m, bad)
	}
}

// R05l: attribute values are matched exactly: utils.StringSliceContains is a plain equality scan.
func r05l(c *an.Ctx) {
	c.Rule("R05l", "utils.StringSliceContains: plain string equality, nothing else", 1)
	fn := c.MustFn("common/utils", "StringSliceContains")
	if fn == nil {
		return
	}
	c.Subject()
	eq, calls, std := 0, 0, 0
	an.Instrs(fn, func(in ssa.Instruction) {
		switch x := in.(type) {
		case *ssa.BinOp:
			if x.Op == token.EQL {
				if b, ok := x.X.Type().Underlying().(*types.Basic); ok && b.Info()&types.IsString != 0 {
					eq++
				}
			}
		case *ssa.Call:
			if _, isB := x.Call.Value.(*ssa.Builtin); isB {
				return
			}
			// the standard library's equality scan over the same two operands
			if cal := x.Call.StaticCallee(); cal != nil && cal.Pkg != nil && cal.Pkg.Pkg.Path() == "slices" && (cal.Name() == "Contains" || cal.Name() == "Index") &&
				len(x.Call.Args) == 2 && x.Call.Args[0] == ssa.Value(fn.Params[0]) && x.Call.Args[1] == ssa.Value(fn.Params[1]) {
				std++
				return
			}
			if o := x.Call.StaticCallee(); o != nil && o.Origin() != nil && o.Origin().Pkg != nil && o.Origin().Pkg.Pkg.Path() == "slices" &&
				(o.Origin().Name() == "Contains" || o.Origin().Name() == "Index") && len(x.Call.Args) == 2 &&
				x.Call.Args[0] == ssa.Value(fn.Params[0]) && x.Call.Args[1] == ssa.Value(fn.Params[1]) {
				std++
				return
			}
			calls++
		}
	})
	eq += std
	c.Ob("common/utils.StringSliceContains|exact", fn.Pos(), eq > 0 && calls == 0,
		"StringSliceContains no longer compares by plain equality (%d equality test(s), %d call(s)): constraint matching on multi-valued attributes goes through it, so an agent whose attribute only resembles the required value satisfies the constraint", eq, calls)
}

// R05m: every channel of the lower-priority list is looked at: the outer loop of MergeInbound has no early exit.
func r05m(c *an.Ctx) {
	c.Rule("R05m", "channel.MergeInbound: the loop over the lower-priority list is not left early", 1)
	fn := c.MustFn("core/task/channel", "MergeInbound")
	if fn == nil {
		return
	}
	c.Subject()
	lp := fn.Params[1]
	var bad []string
	loops := 0
	for _, b := range fn.Blocks {
		body := an.NaturalLoop(b)
		if len(body) == 0 {
			continue
		}
		// the loop that ranges over lp: its header tests an index against len(lp)
		overLp := false
		for _, in := range b.Instrs {
			if bo, ok := in.(*ssa.BinOp); ok && bo.Op == token.LSS {
				if call, isCall := bo.Y.(*ssa.Call); isCall {
					if bi, isB := call.Call.Value.(*ssa.Builtin); isB && bi.Name() == "len" && call.Call.Args[0] == ssa.Value(lp) {
						overLp = true
					}
				}
			}
		}
		if !overLp {
			continue
		}
		loops++
		for _, e := range an.EarlyExits(b, body) {
			bad = append(bad, c.PosStr(lastPos(e.From)))
		}
	}
	sort.Strings(bad)
	c.Ob("core/task/channel.MergeInbound|all-of-lp", fn.Pos(), loops > 0 && len(bad) == 0,
		"the loop over the lower-priority channels is left early (at %v): the channels after that point are missing from the result, so no port is requested for them", bad)
}

// R08n: every call of the list is awaited: in Calls.AwaitAll the per-call await is started for every element.
func r08n(c *an.Ctx) {
	c.Rule("R08n", "Calls.AwaitAll: the await of an element is conditioned on nothing", 1)
	fn := c.MustFn("core/workflow/callable", "Calls.AwaitAll")
	if fn == nil {
		return
	}
	n := 0
	an.Instrs(fn, func(in ssa.Instruction) {
		var isAwait bool
		switch x := in.(type) {
		case *ssa.Go:
			if body := an.ClosureFn(x.Call.Value); body != nil && len(an.Calls(body, func(nm string, _ ssa.CallInstruction) bool { return strings.HasSuffix(nm, "callable.Call).Await") })) > 0 {
				isAwait = true
			}
		case *ssa.Call:
			isAwait = strings.HasSuffix(an.CalleeName(&x.Call), "callable.Call).Await")
		}
		if !isAwait {
			return
		}
		n++
		c.Subject()
		conds := plainConds(c, in.Block(), nil)
		c.Ob("core/workflow/callable.Calls.AwaitAll|every-element", in.Pos(), len(conds) == 0,
			"the await of a listed call is skipped under some condition (%v): a call left out is never collected - its failure is lost and it is still running when the transition is answered", conds)
	})
	if n == 0 {
		c.Lost("await of the elements in Calls.AwaitAll")
	}
}

// R08o: at teardown the pending calls are cancelled after the last hook pass: no hook is started once
// cancelCallsPendingAwait has run (a call started later would never be cancelled; one awaited later would be
// answered with nil).
func r08o(c *an.Ctx) {
	c.Rule("R08o", "TeardownEnvironment: no hook pass after the pending calls were cancelled", 1)
	fn := c.MustFn("core/environment", "Manager.TeardownEnvironment")
	if fn == nil {
		return
	}
	cancels := an.CallsNamed(fn, "(*core/environment.Manager).cancelCallsPendingAwait")
	if len(cancels) == 0 {
		// the cancellation may live in another helper (expanded in place): the calls of Call.Cancel themselves
		cancels = an.Calls(fn, func(nm string, _ ssa.CallInstruction) bool {
			return strings.HasSuffix(nm, "callable.Call).Cancel") || strings.HasSuffix(nm, ").cancelCallsPendingAwait")
		})
	}
	if len(cancels) == 0 {
		c.Lost("cancelCallsPendingAwait in TeardownEnvironment")
		return
	}
	c.Subject()
	var later []string
	for _, h := range an.Calls(fn, func(nm string, _ ssa.CallInstruction) bool {
		return strings.HasSuffix(nm, "Environment).handleHooks") || strings.HasSuffix(nm, "Environment).handleAllHooks") || strings.HasSuffix(nm, "Environment).runTasksAsHooks") || strings.HasSuffix(nm, "Manager).TriggerHooks")
	}) {
		for _, cc := range cancels {
			if an.CanReach(cc, h) {
				later = append(later, c.PosStr(h.Pos()))
			}
		}
	}
	sort.Strings(later)
	c.Ob("(*core/environment.Manager).TeardownEnvironment|cancel-after-last-hook-pass", cancels[0].Pos(), len(later) == 0,
		"hooks are run after the pending calls were cancelled (at %v): a call started by that pass is never cancelled, and one it awaits has been cancelled already, so its failure reads as success", uniq(later))
}

// R08p: the await moment of a call is resolved like its trigger: callRole.ProcessTemplates always hands the Await
// trait to the template engine.
func r08p(c *an.Ctx) {
	c.Rule("R08p", "callRole.ProcessTemplates: the Await trait is templated unconditionally", 1)
	fn := c.MustFn(wfPkg, "callRole.ProcessTemplates")
	if fn == nil {
		return
	}
	n := 0
	for _, ci := range an.CallsSuffix(fn, "configuration/template.WrapPointer") {
		fa, ok := an.Strip(ci.Common().Args[0]).(*ssa.FieldAddr)
		if !ok || fieldNameAt(fa) != "Await" {
			continue
		}
		n++
		c.Subject()
		conds := condsMentioning(c, ci.Block(), func(v ssa.Value) bool {
			return isFieldLoadNamed(v, "Await") || isFieldLoadNamed(v, "Trigger")
		})
		c.Ob("(*core/workflow.callRole).ProcessTemplates|await-templated", ci.Pos(), len(conds) == 0,
			"the Await trait is handed to the template engine only under a condition on the traits (%v): an await written as a template expression stays unresolved, matches no moment, and the call is never awaited", conds)
	}
	if n == 0 {
		c.Lost("WrapPointer(&t.Await) in callRole.ProcessTemplates")
	}
}

// R08r: the transition waits for all hook tasks of the moment: the collecting loop of runTasksAsHooks is left only
// when no hook is outstanding any more (its timer table is empty).
func r08r(c *an.Ctx) {
	c.Rule("R08r", "runTasksAsHooks: the collecting loop ends only when no hook task is outstanding", 1)
	fn := c.MustFn("core/environment", "Environment.runTasksAsHooks")
	if fn == nil {
		return
	}
	n := 0
	for _, f := range an.WithAnon(fn) {
		for _, b := range f.Blocks {
			body := an.NaturalLoop(b)
			if len(body) == 0 {
				continue
			}
			hasSelect := false
			for bb := range body {
				for _, in := range bb.Instrs {
					if _, ok := in.(*ssa.Select); ok {
						hasSelect = true
					}
				}
			}
			if !hasSelect {
				continue
			}
			n++
			c.Subject()
			var bad []string
			exits := an.EarlyExits(b, body)
			for _, e := range exits {
				ok := false
				for _, a := range an.EdgeAtoms(e.From, e.To) {
					if a.Op == token.EQL && a.Y != nil {
						if k, isK := an.ConstInt(a.Y); isK && k == 0 {
							if call, isCall := a.X.(*ssa.Call); isCall {
								if bi, isB := call.Call.Value.(*ssa.Builtin); isB && bi.Name() == "len" && an.IsMapType(call.Call.Args[0].Type()) {
									ok = true
								}
							}
						}
					}
				}
				if !ok {
					bad = append(bad, c.PosStr(lastPos(e.From)))
				}
			}
			sort.Strings(bad)
			c.Ob("(*core/environment.Environment).runTasksAsHooks|collect-all", b.Instrs[0].Pos(), len(bad) == 0 && len(exits) > 0,
				"the loop that collects the hook tasks' outcomes is left while hooks are still outstanding (at %v): the transition (or its GO_ERROR) goes on while hook tasks of this moment are still running", bad)
		}
	}
	if n == 0 {
		c.Lost("collecting loop in runTasksAsHooks")
	}
}

// R09l: a started call lives until it returns or is cancelled at teardown: in core/workflow/callable no context
// with a deadline is created.
func r09l(c *an.Ctx) {
	c.Rule("R09l", "core/workflow/callable: calls run under a cancel-only context (no deadline)", 1)
	pk := c.Pkg("core/workflow/callable")
	if pk == nil {
		c.Lost("package core/workflow/callable")
		return
	}
	start := c.MustFn("core/workflow/callable", "Call.Start")
	if start == nil {
		return
	}
	c.Subject()
	var bad []string
	for _, fn := range c.ModuleFuncs() {
		if fn.Pkg != pk {
			continue
		}
		an.Instrs(fn, func(in ssa.Instruction) {
			if call, ok := in.(*ssa.Call); ok {
				n := an.CalleeName(&call.Call)
				if n == "context.WithTimeout" || n == "context.WithDeadline" || n == "context.WithTimeoutCause" || n == "context.WithDeadlineCause" {
					bad = append(bad, c.PosStr(call.Pos()))
				}
			}
		})
	}
	sort.Strings(bad)
	c.Ob("core/workflow/callable|no-deadline-context", start.Pos(), len(bad) == 0,
		"a hook call is given a context with a deadline (at %v): when the deadline passes before the call's await moment the outcome is dropped and the await channel closed, so Await answers nil - a failing critical hook counts as successful", bad)
}

// R09m: TriggerHooks fails only when a hook failed: an error taken from the (always non-nil) consolidated answer is
// returned only after its text was found non-blank.
func r09m(c *an.Ctx) {
	c.Rule("R09m", "Manager.TriggerHooks: the answer's error is returned only when its text is non-blank", 1)
	fn := c.MustFn("core/task", "Manager.TriggerHooks")
	if fn == nil {
		return
	}
	c.Subject()
	var recv ssa.Instruction
	an.Instrs(fn, func(in ssa.Instruction) {
		if u, ok := in.(*ssa.UnOp); ok && u.Op == token.ARROW && recv == nil {
			recv = u
		}
	})
	if recv == nil {
		c.Lost("receive of the answer in TriggerHooks")
		return
	}
	var bad []string
	n := 0
	for _, r := range an.Returns(fn) {
		if !an.Dominates(recv, r) {
			continue
		}
		v := an.RetVal(r, len(r.Results)-1)
		allNil := true
		for _, x := range roleValues(v, map[ssa.Value]bool{}) {
			if !an.IsNilConst(x) {
				allNil = false
			}
		}
		if allNil {
			continue
		}
		fromAnswer := false
		for _, l := range an.BackSlice(v, an.SliceOpts{LeafCall: func(nm string, call *ssa.Call) bool { return an.MethodName(&call.Call) == "Err" }}) {
			if call, isCall := l.Val.(*ssa.Call); isCall && an.MethodName(&call.Call) == "Err" {
				fromAnswer = true
			}
		}
		if !fromAnswer {
			continue
		}
		n++
		ok := an.GuardedByAll(r.Block(), func(a an.Atom) bool {
			return lenPositive(a, func(x ssa.Value) bool {
				call, isCall := x.(*ssa.Call)
				return isCall && strings.HasSuffix(an.CalleeName(&call.Call), "strings.TrimSpace")
			})
		})
		if !ok {
			bad = append(bad, c.PosStr(r.Pos()))
		}
	}
	sort.Strings(bad)
	c.Ob("(*core/task.Manager).TriggerHooks|error-only-when-text", fn.Pos(), len(bad) == 0 && n > 0,
		"an error is returned after the answer arrived without its text having been found non-blank (at %v): the consolidated answer of several hook tasks always carries a non-nil error, so two hook tasks of one moment fail the transition although neither failed", bad)
}

// R10j: the environment is forced to ERROR only after GO_ERROR was tried: every setState("ERROR") is dominated by a
// TryTransition(NewGoErrorTransition(..)) of the same function (forcing first makes the following "if not ERROR then
// GO_ERROR" skip the transition whose callbacks record the end of the run).
func r10j(c *an.Ctx) {
	c.Rule("R10j", "setState(\"ERROR\") only after GO_ERROR was attempted in the same function", 4)
	for _, s := range c.SitesNamed("(*core/environment.Environment).setState") {
		a := s.Call.Common().Args
		if k, ok := an.ConstString(a[len(a)-1]); !ok || k != "ERROR" {
			continue
		}
		c.Subject()
		ok := false
		for _, ci := range an.Calls(s.Fn, func(nm string, _ ssa.CallInstruction) bool {
			return strings.HasSuffix(nm, "Environment).TryTransition")
		}) {
			call, isCall := ci.(*ssa.Call)
			if !isCall {
				continue
			}
			isGoError := false
			for _, arg := range call.Call.Args {
				x := an.Strip(arg)
				if mi, isMI := x.(*ssa.MakeInterface); isMI {
					x = an.Strip(mi.X)
				}
				if mk, isMk := x.(*ssa.Call); isMk && strings.HasSuffix(an.CalleeName(&mk.Call), "NewGoErrorTransition") {
					isGoError = true
				}
			}
			if isGoError && an.Dominates(call, s.Call) {
				ok = true
			}
		}
		c.Ob("force-ERROR|"+c.RelName(an.OutermostParent(s.Fn))+"|after-go-error-attempt", s.Call.Pos(), ok,
			"the environment is forced to ERROR on a path on which GO_ERROR was not attempted first: the GO_ERROR that follows (guarded by \"not yet ERROR\") is skipped, its callbacks never run, and the end of the run is not recorded")
	}
}

// R11k: after template processing every child points to the role that lists it: aggregatorRole.ProcessTemplates
// re-parents each child unconditionally (roles copied by value keep children that point to the original).
func r11k(c *an.Ctx) {
	c.Rule("R11k", "aggregatorRole.ProcessTemplates: every child is re-parented, unconditionally", 1)
	fn := c.MustFn(wfPkg, "aggregatorRole.ProcessTemplates")
	if fn == nil {
		return
	}
	n := 0
	for _, f := range an.WithAnon(fn) {
		for _, ci := range an.Calls(f, func(nm string, ci ssa.CallInstruction) bool { return an.MethodName(ci.Common()) == "setParent" }) {
			n++
			c.Subject()
			conds := condsMentioning(c, ci.Block(), func(v ssa.Value) bool { return isCallTo(v, "GetParent") || isFieldLoadNamed(v, "parent") })
			c.Ob("(*core/workflow.aggregatorRole).ProcessTemplates|reparent-unconditional|"+c.RelName(f), ci.Pos(), len(conds) == 0,
				"a child is re-parented only depending on the parent it already has (%v): children of a role that was copied by value keep pointing to the original, so their state and status updates never reach the role that lists them (a critical ERROR is lost at the root)", conds)
		}
	}
	if n == 0 {
		c.Lost("setParent in aggregatorRole.ProcessTemplates")
	}
}

// fieldWriters (R13k, R17s): a field is assigned only in the listed functions.
func fieldWriters(c *an.Ctx, rule, doc, rel, typ, field string, allowed map[string]bool, why string, min int) {
	c.Rule(rule, doc, min)
	fv := c.Field(rel, typ, field)
	if fv == nil {
		c.Lost("field " + rel + "." + typ + "." + field)
		return
	}
	for _, f := range c.ModuleFuncs() {
		an.Instrs(f, func(in ssa.Instruction) {
			st, ok := in.(*ssa.Store)
			if !ok || an.FieldOf(st.Addr) != fv {
				return
			}
			c.Subject()
			name := c.RelName(an.OutermostParent(f))
			c.Ob("writer|"+typ+"."+field+"|"+name, st.Pos(), allowed[name], "%s.%s is assigned in %s: %s", typ, field, name, why)
		})
	}
}

// R14p: the include role keeps its own place in the variable hierarchy: includeRole.ProcessTemplates puts the
// parent back by plain assignment and does not re-wrap (setParent rebuilds the map chain without the role's own
// defaults and vars).
func r14p(c *an.Ctx) {
	c.Rule("R14p", "includeRole.ProcessTemplates does not re-wrap its variable maps (no setParent on itself)", 1)
	fn := c.MustFn(wfPkg, "includeRole.ProcessTemplates")
	if fn == nil {
		return
	}
	c.Subject()
	var bad []string
	recv := fn.Params[0]
	for _, ci := range an.Calls(fn, func(nm string, ci ssa.CallInstruction) bool { return an.MethodName(ci.Common()) == "setParent" }) {
		a := an.Args(ci.Common())
		if len(a) > 0 && an.DerivesFrom(a[0], recv) {
			bad = append(bad, c.PosStr(ci.Pos()))
		}
	}
	c.Ob("(*core/workflow.includeRole).ProcessTemplates|no-rewrap", fn.Pos(), len(bad) == 0,
		"the include role re-wraps its own variable maps while adopting the loaded subtree (at %v): the loaded root had been wrapped around the include role's own defaults and vars, which drop out of the chain - the included roles see the grandparent's values", bad)
}

// R14q: what GetKV answers is what the role sees: it reads the role's consolidated variable stack.
func r14q(c *an.Ctx) {
	c.Rule("R14q", "Environment.GetKV reads the role's consolidated variable stack", 1)
	fn := c.MustFn("core/environment", "Environment.GetKV")
	if fn == nil {
		return
	}
	c.Subject()
	n := len(an.Calls(fn, func(nm string, ci ssa.CallInstruction) bool {
		return an.MethodName(ci.Common()) == "ConsolidatedVarStack"
	}))
	var lenConds []string
	for _, r := range an.Returns(fn) {
		lenConds = append(lenConds, condsMentioning(c, r.Block(), func(v ssa.Value) bool {
			call, ok := v.(*ssa.Call)
			if !ok {
				return false
			}
			b, ok := call.Call.Value.(*ssa.Builtin)
			return ok && b.Name() == "len" && types.Identical(call.Call.Args[0].Type().Underlying(), types.Typ[types.String])
		})...)
	}
	c.Ob("(*core/environment.Environment).GetKV|from-consolidated-stack", fn.Pos(), n > 0 && len(lenConds) == 0,
		"GetKV does not answer from the role's consolidated variable stack (%d call(s) of ConsolidatedVarStack), or makes its answer depend on the length of a value (%v): an empty value is a definition, and a lookup that skips it lets a lower-ranking source show through", n, uniq(lenConds))
}

// R15m: the template engine writes into the role's own channels: the setters made by wrapBindAndConnectFields
// assign into an element of r.Bind / r.Connect, not into a copy.
func r15m(c *an.Ctx) {
	c.Rule("R15m", "wrapBindAndConnectFields: setters write into the role's own Bind/Connect elements", 2)
	fn := c.MustFn(wfPkg, "roleBase.wrapBindAndConnectFields")
	if fn == nil {
		return
	}
	for _, f := range fn.AnonFuncs {
		an.Instrs(f, func(in ssa.Instruction) {
			st, ok := in.(*ssa.Store)
			if !ok {
				return
			}
			fa, ok := st.Addr.(*ssa.FieldAddr)
			if !ok {
				return
			}
			nm := fieldNameAt(fa)
			if nm != "Global" && nm != "Target" {
				return
			}
			c.Subject()
			// walk the address down to its root: it must pass an IndexAddr over the Bind/Connect field
			inPlace := false
			a := fa.X
			for i := 0; i < 6 && a != nil; i++ {
				switch x := a.(type) {
				case *ssa.FieldAddr:
					a = x.X
				case *ssa.IndexAddr:
					if isFieldLoadNamed(x.X, "Bind") || isFieldLoadNamed(x.X, "Connect") {
						inPlace = true
					}
					a = nil
				case *ssa.UnOp:
					a = x.X
				default:
					a = nil
				}
			}
			c.Ob("wrapBindAndConnectFields|setter-in-place|"+nm+"|"+c.RelName(f), st.Pos(), inPlace,
				"the setter for %s assigns into a copy of the channel, not into the role's own element: the evaluated expression is lost, the channel keeps its unresolved text and the tree depends on nothing the template said", nm)
		})
	}
}

// R15n: copy() gives a copy: no copy method of the workflow package answers with its receiver.
func r15n(c *an.Ctx) {
	c.Rule("R15n", "core/workflow: no copy() returns its receiver", 6)
	pk := c.Pkg(wfPkg)
	if pk == nil {
		c.Lost("package core/workflow")
		return
	}
	for _, fn := range c.ModuleFuncs() {
		if fn.Pkg != pk || fn.Name() != "copy" || fn.Signature.Recv() == nil || len(fn.Params) == 0 {
			continue
		}
		c.Subject()
		self := false
		for _, r := range an.Returns(fn) {
			for i := range r.Results {
				for _, v := range roleValues(an.RetVal(r, i), map[ssa.Value]bool{}) {
					x := an.Strip(v)
					if mi, ok := x.(*ssa.MakeInterface); ok {
						x = an.Strip(mi.X)
					}
					if x == ssa.Value(fn.Params[0]) {
						self = true
					}
				}
			}
		}
		c.Ob("copy-is-a-copy|"+c.RelName(fn), fn.Pos(), !self,
			"%s answers with its receiver: the copies of an iterator share one template, which re-parenting mutates - with concurrent processing the children attach to another element's role and the tree depends on the schedule", c.RelName(fn))
	}
}

// R15o: a sub-workflow is attached to the role that includes it: the loader closure of Load uses its own parameter
// and never Load's `parent`.
func r15o(c *an.Ctx) {
	c.Rule("R15o", "workflow.Load: the sub-workflow loader does not capture Load's parent", 1)
	fn := c.MustFn(wfPkg, "Load")
	if fn == nil {
		return
	}
	var parent *ssa.Parameter
	for _, p := range fn.Params {
		if p.Name() == "parent" {
			parent = p
		}
	}
	n := 0
	for _, f := range fn.AnonFuncs {
		if len(f.Params) != 2 || !strings.HasSuffix(f.Signature.Results().String(), "error)") || f.Signature.Results().Len() != 3 {
			continue
		}
		n++
		c.Subject()
		captured := false
		an.Instrs(fn, func(in ssa.Instruction) {
			mc, ok := in.(*ssa.MakeClosure)
			if !ok || mc.Fn != ssa.Value(f) {
				return
			}
			for _, b := range mc.Bindings {
				if parent != nil && (b == ssa.Value(parent) || an.SpilledParam(allocOf(b)) == parent) {
					captured = true
				}
			}
		})
		c.Ob("core/workflow.Load|loader-uses-own-parent", f.Pos(), parent != nil && !captured,
			"the sub-workflow loader refers to Load's own parent: an included root is then attached to (and wrapped around the maps of) the environment instead of the role that includes it, and no longer sees the including tree's variables")
	}
	if n == 0 {
		c.Lost("sub-workflow loader closure in Load")
	}
}

func allocOf(v ssa.Value) *ssa.Alloc {
	a, _ := v.(*ssa.Alloc)
	return a
}

// R16h: every task gets a transitioner of its own, bound to its own connection: NewTransitioner returns the direct
// result of a constructor call made in that call.
func r16h(c *an.Ctx) {
	c.Rule("R16h", "NewTransitioner returns a transitioner constructed in that call", 1)
	fn := c.MustFn("executor/executorcmd/transitioner", "NewTransitioner")
	if fn == nil {
		return
	}
	c.Subject()
	var bad []string
	n := 0
	for _, r := range an.Returns(fn) {
		for _, v := range roleValues(an.RetVal(r, 0), map[ssa.Value]bool{}) {
			n++
			x := an.Strip(v)
			if mi, ok := x.(*ssa.MakeInterface); ok {
				x = an.Strip(mi.X)
			}
			call, ok := x.(*ssa.Call)
			if !ok || call.Parent() != fn || !strings.Contains(an.CalleeName(&call.Call), "transitioner.New") {
				bad = append(bad, c.PosStr(r.Pos()))
			}
		}
	}
	sort.Strings(bad)
	c.Ob("executor/executorcmd/transitioner.NewTransitioner|fresh-instance", fn.Pos(), len(bad) == 0 && n > 0,
		"NewTransitioner returns something other than the result of a constructor call of its own (at %v): a transitioner kept between calls is bound to the first task's connection, so a second task's requests drive - and report the state of - the first task's device", uniq(bad))
}

// R17q: the executor's message handler gives its locks back: at every return of handleMessageEvent no lock taken in
// it is still held.
func r17q(c *an.Ctx) {
	c.Rule("R17q", "executor.handleMessageEvent: no lock is held at any return", 1)
	fn := c.MustFn("executor", "handleMessageEvent")
	if fn == nil {
		return
	}
	c.Subject()
	var bad []string
	n := 0
	for _, f := range an.WithAnon(fn) {
		for _, r := range an.Returns(f) {
			n++
			if h := an.HeldAt(r); len(h) > 0 {
				bad = append(bad, fmt.Sprintf("%s: %v", c.PosStr(lastPos(r.Block())), h))
			}
		}
	}
	sort.Strings(bad)
	c.Ob("executor.handleMessageEvent|locks-released", fn.Pos(), len(bad) == 0 && n > 0,
		"a return of the message handler leaves a lock held (%v): the next status update or launch blocks on it for ever - the executor hangs on a request for a task that is already gone", uniq(bad))
}

// R17r: the signal goes to whom the caller named: doKill9 passes the pid it was given to kill(2) unchanged (the
// caller decides between process and process group).
func r17r(c *an.Ctx) {
	c.Rule("R17r", "ControllableTask.doKill9: kill(2) is called with the given pid, unchanged", 1)
	fn := c.MustFn("executor/executable", "ControllableTask.doKill9")
	if fn == nil {
		return
	}
	n := 0
	for _, ci := range an.CallsSuffix(fn, "syscall.Kill") {
		n++
		c.Subject()
		c.Ob("(*executor/executable.ControllableTask).doKill9|pid-unchanged", ci.Pos(), ci.Common().Args[0] == ssa.Value(fn.Params[1]),
			"the pid given to kill(2) is not the one doKill9 was called with: Kill passes the child's own pid where there is no group of that id, so a computed (negated) pid names nothing - kill fails with ESRCH and a child that ignores TERM and INT survives the escalation")
	}
	if n == 0 {
		c.Lost("syscall.Kill in doKill9")
	}
}

// R18k: the stored framework id is written by the framework-id store only: SetRuntimeEntry(.., "mesos_fid", ..) has
// a single caller, the store's setter in NewManager.
func r18k(c *an.Ctx) {
	c.Rule("R18k", "the runtime entry mesos_fid is written only by the framework-id store's setter", 1)
	for _, s := range c.SitesOf(func(n string) bool { return strings.HasSuffix(n, ".SetRuntimeEntry") }) {
		isFid := false
		for _, a := range s.Call.Common().Args {
			if k, ok := an.ConstString(a); ok && k == "mesos_fid" {
				isFid = true
			}
		}
		if !isFid {
			continue
		}
		c.Subject()
		from := c.RelName(an.OutermostParent(s.Fn))
		c.Ob("write-mesos_fid|"+from, s.Call.Pos(), from == "core/task.NewManager",
			"the stored framework id is written from %s: a core that clears or rewrites it registers as a different framework at its next start, and the tasks of its previous life are never reported to it (nor killed)", from)
	}
}

// R19i: all operations of the event buffer exclude each other: every lock operation in FifoBuffer's methods goes
// through the same mutex expression.
func r19i(c *an.Ctx) {
	c.Rule("R19i", "event.FifoBuffer: all methods lock through the same mutex", 1)
	paths := map[string][]string{}
	for _, m := range []string{"Push", "PopMultiple", "Length", "ReleaseGoroutines"} {
		fn := c.MustFn("common/event", "FifoBuffer."+m)
		if fn == nil {
			continue
		}
		an.Instrs(fn, func(in ssa.Instruction) {
			ci, ok := in.(ssa.CallInstruction)
			if !ok {
				return
			}
			mn := an.MethodName(ci.Common())
			if mn != "Lock" && mn != "Unlock" && mn != "RLock" && mn != "RUnlock" {
				return
			}
			a := an.Args(ci.Common())
			if len(a) == 0 {
				return
			}
			p := an.LockPath(a[0])
			paths[p] = append(paths[p], c.PosStr(ci.Pos()))
		})
	}
	c.Subject()
	var keys []string
	for k := range paths {
		keys = append(keys, k)
	}
	sort.Strings(keys)
	c.Ob("common/event.FifoBuffer|one-mutex", token.NoPos, len(keys) == 1,
		"the methods of FifoBuffer lock through different mutex expressions %v: the buffer is returned by value from its constructor, so its condition variable's locker is not the buffer's own lock field - operations locking one do not exclude those locking the other, and events are lost or the writer panics under a burst", keys)
}

// R19j: a producer's events enter the batching channel in the order it wrote them: the hand-over in
// WriteEventWithTimestamp is a plain send in the writer's own flow, not one case of a select and not a goroutine.
func r19j(c *an.Ctx) {
	c.Rule("R19j", "KafkaWriter.WriteEventWithTimestamp: the message is handed over by a plain send, in order", 1)
	fn := c.MustFn("common/event", "KafkaWriter.WriteEventWithTimestamp")
	if fn == nil {
		return
	}
	c.Subject()
	plain, other := 0, 0
	spawned := map[*ssa.Function]bool{}
	for _, f := range an.WithAnon(fn) {
		an.Instrs(f, func(in ssa.Instruction) {
			if g, ok := in.(*ssa.Go); ok {
				if body := an.ClosureFn(g.Call.Value); body != nil {
					spawned[body] = true
				}
			}
		})
	}
	for _, f := range an.WithAnon(fn) {
		an.Instrs(f, func(in ssa.Instruction) {
			switch x := in.(type) {
			case *ssa.Send:
				if isFieldLoadNamed(x.Chan, "toBatchMessagesChan") {
					if spawned[f] {
						other++
					} else {
						plain++
					}
				}
			case *ssa.Select:
				for _, st := range x.States {
					if st.Dir == types.SendOnly && isFieldLoadNamed(st.Chan, "toBatchMessagesChan") {
						other++
					}
				}
			}
		})
	}
	c.Ob("(*common/event.KafkaWriter).WriteEventWithTimestamp|ordered-handover", fn.Pos(), plain > 0 && other == 0,
		"the message is handed to the batching loop by %d plain send(s) and %d send(s) from a goroutine or a select: an event that found the channel full is overtaken by the producer's later events (and a parked sender panics when the writer is closed)", plain, other)
}

// R20j: the payload is templated whenever the caller asks for it: in the remote server the processing branch depends
// on the request's ProcessTemplate flag only.
func r20j(c *an.Ctx) {
	c.Rule("R20j", "apricot/remote GetComponentConfiguration: templating is conditioned on ProcessTemplate only", 1)
	fn := c.MustFn("apricot/remote", "RpcServer.GetComponentConfiguration")
	if fn == nil {
		return
	}
	n := 0
	for _, ci := range an.Calls(fn, func(nm string, ci ssa.CallInstruction) bool {
		return an.MethodName(ci.Common()) == "GetAndProcessComponentConfiguration"
	}) {
		n++
		c.Subject()
		conds := condsMentioning(c, ci.Block(), func(v ssa.Value) bool {
			return isCallTo(v, "GetVarStack") || isFieldLoadNamed(v, "VarStack")
		})
		c.Ob("(*apricot/remote.RpcServer).GetComponentConfiguration|template-when-asked", ci.Pos(), len(conds) == 0,
			"whether the payload is templated depends on the variables supplied (%v): with none, includes and function calls of the entry come back as raw text although templating was requested", conds)
	}
	if n == 0 {
		c.Lost("GetAndProcessComponentConfiguration in remote GetComponentConfiguration")
	}
}

// R20k: a template set resolves relative names against the base path it is filed under: in templateSetForBasePath
// the map key, the set's name and the loader's base path are all the parameter.
func r20k(c *an.Ctx) {
	c.Rule("R20k", "apricot/local templateSetForBasePath: key and loader base path are the same parameter", 1)
	fn := c.MustFn("apricot/local", "Service.templateSetForBasePath")
	if fn == nil {
		return
	}
	c.Subject()
	p := ssa.Value(fn.Params[1])
	var bad []string
	n := 0
	an.Instrs(fn, func(in ssa.Instruction) {
		switch x := in.(type) {
		case *ssa.MapUpdate:
			n++
			if x.Key != p {
				bad = append(bad, c.PosStr(x.Pos())+": stored under another key")
			}
		case *ssa.Lookup:
			if an.IsMapType(x.X.Type()) && x.Index != p {
				bad = append(bad, c.PosStr(x.Pos())+": looked up under another key")
			}
		case *ssa.Call:
			nm := an.CalleeName(&x.Call)
			if strings.HasSuffix(nm, "NewConsulTemplateLoader") || strings.HasSuffix(nm, "pongo2.NewSet") {
				for _, a := range x.Call.Args {
					if b, ok := a.Type().Underlying().(*types.Basic); ok && b.Info()&types.IsString != 0 && a != p {
						bad = append(bad, c.PosStr(x.Pos())+": built for another path")
					}
				}
			}
		}
	})
	sort.Strings(bad)
	c.Ob("(*apricot/local.Service).templateSetForBasePath|one-path", fn.Pos(), len(bad) == 0 && n > 0,
		"the template set is filed, named or loaded under something other than the base path asked for (%s): two entries then share a set whose loader resolves includes against the other's directory, and the payload returned is not that entry's content", strings.Join(uniq(bad), "; "))
}

// R20l: relative names resolve against the loader's own base path: ConsulTemplateLoader.Abs does not use the
// including template's path.
func r20l(c *an.Ctx) {
	c.Rule("R20l", "ConsulTemplateLoader.Abs: the result does not depend on the including template's path", 1)
	fn := c.MustFn("configuration/template", "ConsulTemplateLoader.Abs")
	if fn == nil {
		return
	}
	c.Subject()
	base := fn.Params[1]
	used := base.Referrers() != nil && len(*base.Referrers()) > 0
	c.Ob("(*configuration/template.ConsulTemplateLoader).Abs|base-unused", fn.Pos(), !used,
		"Abs computes with the path of the including template: an include reached through a template in a sub-folder resolves against that sub-folder instead of the entry's base path, so another entry's content (or nothing) is included")
}

// R01o: DONE is terminal: in the auto-transition goroutine of CreateEnvironment nothing that can force ERROR
// (the go-error-kill-destroy helper) runs after a teardown that succeeded.
func r01o(c *an.Ctx) {
	c.Rule("R01o", "CreateEnvironment (auto-transition): no forcing of ERROR after a successful teardown", 1)
	fn := c.MustFn("core/environment", "Manager.CreateEnvironment")
	if fn == nil {
		return
	}
	n := 0
	for _, f := range an.WithAnon(fn) {
		forces := func(call *ssa.Call) bool {
			body := an.ClosureFn(call.Call.Value)
			if body == nil {
				if u, ok := call.Call.Value.(*ssa.UnOp); ok && u.Op == token.MUL {
					for _, st := range an.ReachingStores(u) {
						if b := an.ClosureFn(st.Val); b != nil {
							body = b
						}
					}
				}
			}
			return body != nil && len(an.CallsNamed(body, "(*core/environment.Environment).setState")) > 0
		}
		for _, ci := range an.CallsNamed(f, "(*core/environment.Manager).TeardownEnvironment") {
			td, ok := ci.(*ssa.Call)
			if !ok {
				continue
			}
			tests := an.ErrTests(td)
			if len(tests) == 0 {
				continue
			}
			n++
			c.Subject()
			var bad []string
			for _, t := range tests {
				for b := range reachFrom(t.NilSucc) {
					if t.NonNilSucc == b || (reachFrom(t.NonNilSucc)[b] && !t.NilSucc.Dominates(b)) {
						continue
					}
					for _, in := range b.Instrs {
						if call, isCall := in.(*ssa.Call); isCall && !call.Call.IsInvoke() && forces(call) {
							bad = append(bad, c.PosStr(call.Pos()))
						}
					}
				}
			}
			sort.Strings(bad)
			c.Ob("(*core/environment.Manager).CreateEnvironment|no-force-after-teardown|"+c.RelName(f), td.Pos(), len(bad) == 0,
				"after a teardown that succeeded (the environment is DONE and removed) the helper that tries GO_ERROR and forces ERROR is still called (at %v): the environment's reported state goes from DONE to ERROR", uniq(bad))
		}
	}
	if n == 0 {
		c.Lost("checked TeardownEnvironment call in CreateEnvironment's auto-transition goroutine")
	}
}

// R06m: a role's task pointer is set when the task is deployed for it and by nobody else: taskRole.SetTask is
// called only from the task manager's acquisition (the list of an environment's tasks is read from these pointers
// after teardown, to kill them).
func r06m(c *an.Ctx) {
	c.Rule("R06m", "SetTask (role's task pointer) is called only from Manager.acquireTasks", 2)
	for _, s := range c.SitesOf(func(n string) bool { return strings.HasSuffix(n, ".SetTask") }) {
		c.Subject()
		from := c.RelName(an.OutermostParent(s.Fn))
		c.Ob("call-SetTask|"+from, s.Call.Pos(), from == "(*core/task.Manager).acquireTasks",
			"a role's task pointer is changed from %s: the tasks of an environment are listed from these pointers after teardown in order to be killed; a pointer cleared on release leaves the released tasks running and unowned for good", from)
	}
}

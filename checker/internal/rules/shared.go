package rules

import (
	"fmt"
	"strings"

	"verifchk/internal/an"

	"golang.org/x/tools/go/ssa"
)

// goroutineWriteRule applies P8 to every goroutine closure spawned (directly) in fn.
// allowAccumulator: `x = multierror.Append(x, e)` on a captured accumulator is accepted (the
// stored value is non-nil by construction, so a failure cannot be lost).
// Returns the number of goroutines inspected.
func goroutineWriteRule(c *an.Ctx, fn *ssa.Function, role string) int {
	n := 0
	for _, g := range an.GoClosures(fn) {
		mc, isClosure := g.Go.Call.Value.(*ssa.MakeClosure)
		if !isClosure {
			continue // go f(x): no captured state
		}
		n++
		c.Subject()
		c.Mark(g.Fn)
		multi := an.InLoop(g.Go.Block())
		base := fmt.Sprintf("%s|go#%d", role, n)
		writes := an.ClosureWrites(g.Fn)
		if len(writes) == 0 {
			c.Ob(base+"|no-shared-writes", g.Go.Pos(), true, "goroutine body writes nothing through captured variables (multi-instance=%v)", multi)
			continue
		}
		type agg struct {
			bad  []string
			good []string
			pos  ssa.Instruction
		}
		cells := map[string]*agg{}
		order := []string{}
		for _, w := range writes {
			cellName := w.Free.Name()
			key := fmt.Sprintf("%s|captured %s", base, an.TypeShort(w.Free.Type()))
			a := cells[key]
			if a == nil {
				a = &agg{}
				cells[key] = a
				order = append(order, key)
			}
			locked := false
			for _, h := range w.Locked {
				if h.Mode == "x" {
					locked = true
				}
			}
			// does the spawner touch the same cell between the go statement and a join?
			spawnerTouches := spawnerAccessesBeforeJoin(g.Go, mc, w.Free)
			concurrent := multi || spawnerTouches
			at := c.PosStr(w.Instr.Pos())
			fail := func(format string, args ...any) {
				a.bad = append(a.bad, at+": "+fmt.Sprintf(format, args...))
				if a.pos == nil {
					a.pos = w.Instr
				}
			}
			pass := func(format string, args ...any) { a.good = append(a.good, at+": "+fmt.Sprintf(format, args...)) }
			switch {
			case locked:
				pass("%s of captured %s under an exclusive lock", w.Kind, cellName)
			case !concurrent:
				pass("single goroutine, spawner does not touch captured %s before joining", cellName)
			case w.Kind == "slot" && an.OwnIndex(g.Fn, w.Index) && presized(mc, w.Free):
				pass("disjoint slot write: index is the goroutine's own parameter and the slice is pre-sized by the spawner")
			case w.Kind == "assign" && isAccumulator(w):
				pass("accumulator update %s = multierror.Append(%s, e): stored value is non-nil by construction, a failure cannot be lost", cellName, cellName)
			case w.Kind == "mapupdate" || w.Kind == "mapdelete":
				fail("unsynchronised %s on captured map `%s` from a goroutine that runs concurrently with %s: two simultaneous writers abort the process with 'fatal error: concurrent map writes'",
					w.Kind, cellName, concWith(multi, spawnerTouches))
			case w.Kind == "assign":
				fail("captured variable `%s` is assigned from a goroutine that runs concurrently with %s without a lock: a sibling's value (e.g. nil) can overwrite it before it is tested, so a failure can be lost",
					cellName, concWith(multi, spawnerTouches))
			case w.Kind == "slot":
				fail("captured slice `%s` is written at an index that is not private to the goroutine (or the slice is not pre-sized)", cellName)
			default:
				pass("field write through captured `%s` (object-level sharing is outside the closure-body bound)", cellName)
			}
		}
		for _, key := range order {
			a := cells[key]
			if len(a.bad) > 0 {
				c.Ob(key, a.pos.Pos(), false, "%s", strings.Join(a.bad, " ;; "))
			} else {
				c.Ob(key, g.Go.Pos(), true, "%s", strings.Join(a.good, " ;; "))
			}
		}
	}
	return n
}

func concWith(multi, spawner bool) string {
	switch {
	case multi && spawner:
		return "its sibling goroutines and the spawner"
	case multi:
		return "its sibling goroutines (go statement inside a loop)"
	}
	return "the spawner (no join before the spawner's own access)"
}

func isAccumulator(w an.SharedWrite) bool {
	call, ok := an.Strip(w.Value).(*ssa.Call)
	if !ok || !strings.HasSuffix(an.CalleeName(&call.Call), "go-multierror.Append") {
		return false
	}
	// first argument is a load of the same captured cell
	if u, ok := an.Strip(call.Call.Args[0]).(*ssa.UnOp); ok && u.X == ssa.Value(w.Free) {
		return true
	}
	return false
}

// presized: the spawner stored a make([]T, n) (n not the constant 0) into the captured cell.
func presized(mc *ssa.MakeClosure, fv *ssa.FreeVar) bool {
	b := an.Binding(mc, fv)
	al, ok := b.(*ssa.Alloc)
	if !ok || al.Referrers() == nil {
		return false
	}
	okSized := false
	for _, r := range *al.Referrers() {
		st, ok := r.(*ssa.Store)
		if !ok || st.Addr != ssa.Value(al) {
			continue
		}
		switch v := st.Val.(type) {
		case *ssa.MakeSlice:
			if n, isC := an.ConstInt(v.Len); !(isC && n == 0) && an.Dominates(st, mc) {
				okSized = true
			}
		case *ssa.Slice:
			// make([]T, 0) lowered to new [0]T + slice
		}
	}
	return okSized
}

// spawnerAccessesBeforeJoin: after the go statement, can the spawner reach an access (load or
// store) of the captured cell without first passing a join (WaitGroup.Wait or a channel receive)?
func spawnerAccessesBeforeJoin(g *ssa.Go, mc *ssa.MakeClosure, fv *ssa.FreeVar) bool {
	b := an.Binding(mc, fv)
	if b == nil || b.Referrers() == nil {
		return false
	}
	fn := g.Parent()
	var joins []ssa.Instruction
	an.Instrs(fn, func(in ssa.Instruction) {
		switch x := in.(type) {
		case *ssa.Call:
			if an.CalleeName(&x.Call) == "(*sync.WaitGroup).Wait" {
				joins = append(joins, in)
			}
		case *ssa.UnOp:
			if x.Op.String() == "<-" {
				joins = append(joins, in)
			}
		case *ssa.Select:
			joins = append(joins, in)
		}
	})
	for _, r := range *b.Referrers() {
		if r == ssa.Instruction(mc) || r.Parent() != fn {
			continue
		}
		switch r.(type) {
		case *ssa.Store, *ssa.UnOp:
		default:
			continue
		}
		if an.CanReachAvoiding(g, r, joins) {
			// a plain load used only for len()/logging still races with a map write, keep it
			return true
		}
	}
	return false
}

package rules

import (
	"fmt"
	"go/token"
	"os"
	"strings"

	"verifchk/internal/an"

	"golang.org/x/tools/go/ssa"
)

// goroutineWriteRule applies P8 to every goroutine closure spawned (directly) in fn.
// allowAccumulator: `x = multierror.Append(x, e)` on a captured accumulator is accepted (the
// stored value is non-nil by construction, so a failure cannot be lost).
// Returns the number of goroutines inspected.
func goroutineWriteRule(c *an.Ctx, fn *ssa.Function, role string) int {
	n := 0
	for _, g := range an.GoClosures(fn) {
		mc, isClosure := g.Go.Call.Value.(*ssa.MakeClosure)
		n++
		c.Subject()
		c.Mark(g.Fn)
		multi := an.InLoop(g.Go.Block())
		base := fmt.Sprintf("%s|go#%d", role, n)
		// state handed to the goroutine as pointer / map arguments: maps reached from them must be written under a lock
		pw := an.ParamWrites(g.Fn)
		badParam := false
		for _, w := range pw {
			if w.Kind != "mapupdate" && w.Kind != "mapdelete" {
				continue
			}
			locked := false
			for _, h := range w.Locked {
				if h.Mode == "x" {
					locked = true
				}
			}
			if !locked && multi {
				badParam = true
				c.Ob(fmt.Sprintf("%s|param %s", base, an.TypeShort(w.Param.Type())), w.Instr.Pos(), false,
					"unsynchronised %s on a map reached from parameter `%s`, which every sibling goroutine of the loop receives: two simultaneous writers abort the process with 'fatal error: concurrent map writes'", w.Kind, w.Param.Name())
			}
		}
		var writes []an.SharedWrite
		if isClosure {
			writes = an.ClosureWrites(g.Fn)
		}
		if len(writes) == 0 {
			if !badParam {
				c.Ob(base+"|no-shared-writes", g.Go.Pos(), true, "goroutine body writes nothing unsynchronised through captured variables or shared arguments (multi-instance=%v, %d writes through parameters checked)", multi, len(pw))
			}
			continue
		}
		type agg struct {
			bad  []string
			good []string
			pos  ssa.Instruction
		}
		cells := map[string]*agg{}
		order := []string{}
		for _, w := range writes {
			cellName := w.Free.Name()
			key := fmt.Sprintf("%s|captured %s", base, an.TypeShort(w.Free.Type()))
			a := cells[key]
			if a == nil {
				a = &agg{}
				cells[key] = a
				order = append(order, key)
			}
			locked := false
			for _, h := range w.Locked {
				if h.Mode == "x" {
					locked = true
				}
			}
			// does the spawner touch the same cell between the go statement and a join?
			spawnerTouches := spawnerAccessesBeforeJoin(g.Go, mc, w.Free)
			concurrent := multi || spawnerTouches
			at := c.PosStr(w.Instr.Pos())
			fail := func(format string, args ...any) {
				a.bad = append(a.bad, at+": "+fmt.Sprintf(format, args...))
				if a.pos == nil {
					a.pos = w.Instr
				}
			}
			pass := func(format string, args ...any) { a.good = append(a.good, at+": "+fmt.Sprintf(format, args...)) }
			switch {
			case locked:
				pass("%s of captured %s under an exclusive lock", w.Kind, cellName)
			case !concurrent:
				pass("single goroutine, spawner does not touch captured %s before joining", cellName)
			case w.Kind == "slot" && an.OwnIndex(g.Fn, w.Index) && presized(mc, w.Free):
				pass("disjoint slot write: index is the goroutine's own parameter and the slice is pre-sized by the spawner")
			case w.Kind == "assign" && isAccumulator(w):
				pass("accumulator update %s = multierror.Append(%s, e): stored value is non-nil by construction, a failure cannot be lost", cellName, cellName)
			case w.Kind == "mapupdate" || w.Kind == "mapdelete":
				fail("unsynchronised %s on captured map `%s` from a goroutine that runs concurrently with %s: two simultaneous writers abort the process with 'fatal error: concurrent map writes'",
					w.Kind, cellName, concWith(multi, spawnerTouches))
			case w.Kind == "assign":
				fail("captured variable `%s` is assigned from a goroutine that runs concurrently with %s without a lock: a sibling's value (e.g. nil) can overwrite it before it is tested, so a failure can be lost",
					cellName, concWith(multi, spawnerTouches))
			case w.Kind == "slot":
				fail("captured slice `%s` is written at an index that is not private to the goroutine (or the slice is not pre-sized)", cellName)
			default:
				pass("field write through captured `%s` (object-level sharing is outside the closure-body bound)", cellName)
			}
		}
		for _, key := range order {
			a := cells[key]
			if len(a.bad) > 0 {
				c.Ob(key, a.pos.Pos(), false, "%s", strings.Join(a.bad, " ;; "))
			} else {
				c.Ob(key, g.Go.Pos(), true, "%s", strings.Join(a.good, " ;; "))
			}
		}
	}
	return n
}

func concWith(multi, spawner bool) string {
	switch {
	case multi && spawner:
		return "its sibling goroutines and the spawner"
	case multi:
		return "its sibling goroutines (go statement inside a loop)"
	}
	return "the spawner (no join before the spawner's own access)"
}

func isAccumulator(w an.SharedWrite) bool {
	call, ok := an.Strip(w.Value).(*ssa.Call)
	if !ok || !strings.HasSuffix(an.CalleeName(&call.Call), "go-multierror.Append") {
		return false
	}
	// first argument is a load of the same captured cell
	if u, ok := an.Strip(call.Call.Args[0]).(*ssa.UnOp); ok && u.X == ssa.Value(w.Free) {
		return true
	}
	return false
}

// presized: the spawner stored a make([]T, n) (n not the constant 0) into the captured cell.
func presized(mc *ssa.MakeClosure, fv *ssa.FreeVar) bool {
	b := an.Binding(mc, fv)
	al, ok := b.(*ssa.Alloc)
	if !ok || al.Referrers() == nil {
		return false
	}
	okSized := false
	for _, r := range *al.Referrers() {
		st, ok := r.(*ssa.Store)
		if !ok || st.Addr != ssa.Value(al) {
			continue
		}
		switch v := st.Val.(type) {
		case *ssa.MakeSlice:
			if n, isC := an.ConstInt(v.Len); !(isC && n == 0) && an.Dominates(st, mc) {
				okSized = true
			}
		case *ssa.Slice:
			// make([]T, 0) lowered to new [0]T + slice
		}
	}
	return okSized
}

// spawnerAccessesBeforeJoin: after the go statement, can the spawner reach an access (load or
// store) of the captured cell without first passing a join (WaitGroup.Wait or a channel receive)?
func spawnerAccessesBeforeJoin(g *ssa.Go, mc *ssa.MakeClosure, fv *ssa.FreeVar) bool {
	b := an.Binding(mc, fv)
	if b == nil || b.Referrers() == nil {
		return false
	}
	fn := g.Parent()
	var joins []ssa.Instruction
	an.Instrs(fn, func(in ssa.Instruction) {
		switch x := in.(type) {
		case *ssa.Call:
			if an.CalleeName(&x.Call) == "(*sync.WaitGroup).Wait" {
				joins = append(joins, in)
			}
		case *ssa.UnOp:
			if x.Op.String() == "<-" {
				joins = append(joins, in)
			}
		case *ssa.Select:
			joins = append(joins, in)
		}
	})
	for _, r := range *b.Referrers() {
		if r == ssa.Instruction(mc) || r.Parent() != fn {
			continue
		}
		switch r.(type) {
		case *ssa.Store, *ssa.UnOp:
		default:
			continue
		}
		if an.CanReachAvoiding(g, r, joins) {
			// a plain load used only for len()/logging still races with a map write, keep it
			return true
		}
	}
	return false
}

// leafAssertOK: atom says "the type assertion / type switch case to leaf role type T succeeded"; returns T.
func leafAssertOK(a an.Atom) (string, bool) {
	if a.Y != nil || !a.Val {
		return "", false
	}
	ex, ok := a.X.(*ssa.Extract)
	if !ok || ex.Index != 1 {
		return "", false
	}
	ta, ok := ex.Tuple.(*ssa.TypeAssert)
	if !ok {
		return "", false
	}
	n := an.TypeShort(ta.AssertedType)
	if n == "*workflow.taskRole" || n == "*workflow.callRole" {
		return n, true
	}
	return "", false
}

// criticalRead: atom is a plain boolean read of field Critical (or IsCritical()) of a value type-asserted to a leaf role
// type; returns that type and the polarity.
func criticalRead(a an.Atom) (string, bool, bool) {
	if a.Y != nil {
		return "", false, false
	}
	v := a.X
	if call, ok := v.(*ssa.Call); ok && an.MethodName(&call.Call) == "IsCritical" {
		args := an.Args(&call.Call)
		if len(args) > 0 {
			if t := assertedLeaf(args[0]); t != "" {
				return t, a.Val, true
			}
		}
		return "", false, false
	}
	if !isFieldNamed(v, "Critical") {
		return "", false, false
	}
	base := an.FieldBase(v)
	for base != nil {
		if t := assertedLeaf(base); t != "" {
			return t, a.Val, true
		}
		if nb := an.FieldBase(base); nb != nil {
			base = nb
			continue
		}
		if u, isU := base.(*ssa.UnOp); isU && u.Op == token.MUL {
			if nb := an.FieldBase(u.X); nb != nil {
				base = nb
				continue
			}
		}
		break
	}
	return "", false, false
}

func assertedLeaf(v ssa.Value) string {
	v = an.Strip(v)
	if ex, ok := v.(*ssa.Extract); ok {
		if ta, ok := ex.Tuple.(*ssa.TypeAssert); ok {
			n := an.TypeShort(ta.AssertedType)
			if n == "*workflow.taskRole" || n == "*workflow.callRole" {
				return n
			}
		}
	}
	if ta, ok := v.(*ssa.TypeAssert); ok {
		n := an.TypeShort(ta.AssertedType)
		if n == "*workflow.taskRole" || n == "*workflow.callRole" {
			return n
		}
	}
	return ""
}

// foldSkipsExactlyNonCritical decides, on the guard alternatives of the fold call (so through helper results and
// boolean variables too): a leaf role reaches the fold only when its Critical flag is known true, and an iteration
// that skips the fold does so only for a leaf whose Critical flag is known false.
func foldSkipsExactlyNonCritical(fold ssa.Instruction) (ok bool, leafTypes map[string]bool, why []string) {
	leafTypes = map[string]bool{}
	ok = true
	xb := fold.Block()
	for _, alt := range an.AtomAlts(xb) {
		if os.Getenv("VERIF_DEBUG") != "" {
			fmt.Fprintf(os.Stderr, "ALT:")
			for _, a := range alt {
				y := "<nil>"
				if a.Y != nil {
					y = a.Y.String()
				}
				fmt.Fprintf(os.Stderr, " [%s %s(%s) %s %v]", a.Op, a.X.Name(), a.X.String(), y, a.Val)
			}
			fmt.Fprintln(os.Stderr)
		}
		leafs := map[string]bool{}
		crit := map[string]bool{}
		for _, a := range alt {
			if t, is := leafAssertOK(a); is {
				leafs[t] = true
			}
			if t, val, is := criticalRead(a); is {
				leafTypes[t] = true
				if val {
					crit[t] = true
				}
			}
		}
		for t := range leafs {
			if !crit[t] {
				ok = false
				why = append(why, "a "+t+" can reach the fold without its Critical flag being true")
			}
		}
	}
	// skipped iterations
	h, body := an.EnclosingLoop(xb)
	if h == nil {
		return false, leafTypes, append(why, "the fold is not in a loop")
	}
	for _, p := range h.Preds {
		if !body[p] || p == xb || xb.Dominates(p) {
			continue // not a back edge, or the iteration passed the fold
		}
		if an.CanReachAvoiding(xb.Instrs[0], p.Instrs[0], []ssa.Instruction{h.Instrs[0]}) {
			continue // latch shared by folding and skipping paths: not decided here
		}
		// p ends an iteration that skipped the fold: on every such path a leaf's Critical flag must be known false
		for _, alt := range an.EdgeAlts(p, h) {
			nonCrit := false
			for _, a := range alt {
				if _, val, is := criticalRead(a); is && !val {
					nonCrit = true
				}
			}
			if !nonCrit {
				ok = false
				why = append(why, "a role can be skipped by the fold without being a non-critical leaf")
			}
		}
	}
	return ok, leafTypes, why
}

// succIndex: index of successor s among b's successors (first match).
func succIndex(b, s *ssa.BasicBlock) int {
	for i, x := range b.Succs {
		if x == s {
			return i
		}
	}
	return 0
}

package rules

import (
	"fmt"
	"go/token"
	"go/types"
	"sort"
	"strings"

	"verifchk/internal/an"

	"golang.org/x/tools/go/ssa"
)

func init() {
	register("C12", "Decides structural necessary conditions of 'each control command gets exactly one answer per target, never someone else's': "+
		"(R12a) each per-target goroutine puts exactly one result into the collection on every path; (R12b) collection capacity, number of goroutines and number of results awaited are the same quantity; "+
		"(R12c) every queue entry's callback is answered exactly once with the lock balanced; (R12d) a registered pending call is always unregistered (reply consumed or deleted) before RunCommand returns; "+
		"(R12e) replies are matched by (command id, target) and consumed atomically, the response stored before completion is signalled; (R12f) a missing reply becomes an error response for that target; "+
		"(R12g) a refused enqueue is never ignored; (R12h) the per-target copy of a command keeps the command's id (the attribution key) and its response timeout, and addresses exactly the one target; RunCommand waits for the timeout of the command it was given. Does not decide timing, late or duplicate delivery orders.", runC12)
}

func runC12(c *an.Ctx) {
	r12ab(c)
	r12c(c)
	r12d(c)
	r12e(c)
	r12f(c)
	r12g(c)
	r12h(c)
	r12i(c)
	r12j(c)
	r12k(c)
	r12l(c)
	// round 7
	awaitedToTheEnd(c, "R12m", "notify")
	r12n(c)
	// round 8
	r12o(c)
	r12p(c)
	r12q(c)
	// round 9
	r12r(c)
	r12s(c)
}

const ccPkg = "core/controlcommands"

func r12ab(c *an.Ctx) {
	fn := c.MustFn(ccPkg, "CommandQueue.commit")
	c.Rule("R12a", "commit: each per-target goroutine sends exactly one result on every path", 1)
	if fn == nil {
		return
	}
	var mk *ssa.MakeChan
	an.Instrs(fn, func(in ssa.Instruction) {
		if m, ok := in.(*ssa.MakeChan); ok {
			mk = m
		}
	})
	gos := an.GoClosures(fn)
	if mk == nil || len(gos) != 1 {
		c.Lost("result channel or per-target goroutine in CommandQueue.commit")
		return
	}
	g := gos[0]
	c.Subject()
	c.Mark(g.Fn)
	isSend := func(in ssa.Instruction) bool {
		s, ok := in.(*ssa.Send)
		if !ok {
			return false
		}
		// the channel is the collection made by commit: captured by the goroutine's literal or handed to it as an argument
		return an.CellHolds(an.OriginInSpawner(&g.Go.Call, g.Fn, s.Chan), mk)
	}
	mn, mx, ok := an.PathCount(g.Fn, nil, isSend, an.IsExit)
	c.Ob("(*core/controlcommands.CommandQueue).commit[go per-target]|one-result-per-path", g.Go.Pos(), ok && mn == 1 && mx == 1,
		"every path through the per-target goroutine must put exactly one result into the collection (min=%d max=%d): zero makes the collector wait forever, two overflow the collection or answer for another target", mn, mx)

	c.Rule("R12b", "commit: capacity of the collection, goroutines spawned and results awaited are all len(command.targets())", 1)
	c.Subject()
	isLenTargets := func(v ssa.Value) bool {
		call, ok := v.(*ssa.Call)
		if !ok || an.CalleeName(&call.Call) != "builtin.len" {
			return false
		}
		inner, ok := call.Call.Args[0].(*ssa.Call)
		return ok && an.MethodName(&inner.Call) == "targets"
	}
	capOK := isLenTargets(mk.Size)
	// goroutine spawned inside a range over command.targets()
	spawnOK := false
	if an.InLoop(g.Go.Block()) {
		for _, gd := range an.Guards(g.Go.Block()) {
			if bo, ok := gd.V.(*ssa.BinOp); ok && bo.Op == token.LSS && gd.Val {
				if call, ok := bo.Y.(*ssa.Call); ok && an.CalleeName(&call.Call) == "builtin.len" {
					if inner, ok := call.Call.Args[0].(*ssa.Call); ok && an.MethodName(&inner.Call) == "targets" {
						spawnOK = true
					}
				}
			}
		}
	}
	// collector: a receive from the channel inside a loop bounded by i < len(targets())
	collectOK := false
	an.Instrs(fn, func(in ssa.Instruction) {
		u, ok := in.(*ssa.UnOp)
		if !ok || u.Op != token.ARROW || !an.InLoop(u.Block()) {
			return
		}
		for _, gd := range an.Guards(u.Block()) {
			if bo, ok := gd.V.(*ssa.BinOp); ok && bo.Op == token.LSS && gd.Val && isLenTargets(bo.Y) {
				collectOK = true
			}
		}
	})
	c.Ob("(*core/controlcommands.CommandQueue).commit|sizes-agree", mk.Pos(), capOK && spawnOK && collectOK,
		"capacity (%v), goroutines spawned (%v) and results awaited (%v) must all be len(command.targets())", capOK, spawnOK, collectOK)
}

func r12c(c *an.Ctx) {
	c.Rule("R12c", "queue loop: exactly one callback answer per entry, lock balanced", 1)
	fn := c.MustFn(ccPkg, "CommandQueue.Start")
	if fn == nil {
		return
	}
	gos := an.GoClosures(fn)
	if len(gos) != 1 {
		c.Lost("queue goroutine in CommandQueue.Start")
		return
	}
	g := gos[0].Fn
	c.Mark(g)
	c.Subject()
	// start: the commit call (one per entry); end: loop back (the select / receive instruction) or return
	commits := an.CallsNamed(g, "(*core/controlcommands.CommandQueue).commit")
	if len(commits) != 1 {
		c.Ob("(*core/controlcommands.CommandQueue).Start[go queue]|one-callback-per-entry", g.Pos(), false, "expected exactly one commit call per loop iteration, found %d", len(commits))
		return
	}
	var recv ssa.Instruction
	an.Instrs(g, func(in ssa.Instruction) {
		switch x := in.(type) {
		case *ssa.Select:
			recv = x
		case *ssa.UnOp:
			if x.Op == token.ARROW && recv == nil {
				recv = x
			}
		}
	})
	isEnd := func(in ssa.Instruction) bool { return in == recv || an.IsExit(in) }
	isCb := func(in ssa.Instruction) bool {
		s, ok := in.(*ssa.Send)
		return ok && isFieldNamed(s.Chan, "callback")
	}
	mn, mx, ok := an.PathCount(g, commits[0], isCb, isEnd)
	locks := func(name string) func(ssa.Instruction) bool {
		return func(in ssa.Instruction) bool {
			call, ok := in.(*ssa.Call)
			return ok && an.CalleeName(&call.Call) == name
		}
	}
	balanced, nLocks := true, 0
	for _, ci := range an.CallsNamed(g, "(*sync.Mutex).Lock") {
		nLocks++
		umn, umx, uok := an.PathCount(g, ci, locks("(*sync.Mutex).Unlock"), isEnd)
		if !uok || umn != 1 || umx != 1 {
			balanced = false
		}
	}
	c.Ob("(*core/controlcommands.CommandQueue).Start[go queue]|one-callback-per-entry", commits[0].Pos(), ok && mn == 1 && mx == 1,
		"after committing an entry every path back to the next receive must answer its callback exactly once (min=%d max=%d)", mn, mx)
	c.Ob("(*core/controlcommands.CommandQueue).Start[go queue]|lock-balanced", commits[0].Pos(), balanced && nLocks == 1,
		"every path from the Lock of an iteration to the next receive must Unlock exactly once (%d Lock sites)", nLocks)
}

func r12d(c *an.Ctx) {
	c.Rule("R12d", "RunCommand: a registered pending call is unregistered (deleted) or consumed (Done received) on every path to return", 1)
	fn := c.MustFn(ccPkg, "Servent.RunCommand")
	if fn == nil {
		return
	}
	c.Subject()
	var reg ssa.Instruction
	an.Instrs(fn, func(in ssa.Instruction) {
		if mu, ok := in.(*ssa.MapUpdate); ok && isFieldNamed(mu.Map, "pending") {
			reg = mu
		}
	})
	if reg == nil {
		c.Lost("registration into Servent.pending in RunCommand")
		return
	}
	var through []ssa.Instruction
	for _, ci := range an.CallsNamed(fn, "builtin.delete") {
		if isFieldNamed(ci.Common().Args[0], "pending") {
			through = append(through, ci)
		}
	}
	// the select case that received from call.Done
	an.Instrs(fn, func(in ssa.Instruction) {
		sel, ok := in.(*ssa.Select)
		if !ok {
			return
		}
		for k, st := range sel.States {
			if !isFieldNamed(st.Chan, "Done") {
				continue
			}
			// find `index == k` test
			for _, r := range *sel.Referrers() {
				ex, ok := r.(*ssa.Extract)
				if !ok || ex.Index != 0 || ex.Referrers() == nil {
					continue
				}
				for _, rr := range *ex.Referrers() {
					bo, ok := rr.(*ssa.BinOp)
					if !ok || bo.Op != token.EQL {
						continue
					}
					if kk, ok := an.ConstInt(bo.Y); ok && int(kk) == k && bo.Referrers() != nil {
						for _, r3 := range *bo.Referrers() {
							if ifi, ok := r3.(*ssa.If); ok {
								through = append(through, ifi.Block().Succs[0].Instrs[0])
							}
						}
					}
				}
			}
		}
	})
	leak := an.FirstExitAvoiding(reg, through)
	msg := "every path from registering the pending call to a return deletes it or has received its completion"
	if leak != nil {
		msg = fmt.Sprintf("the pending call registered here can still be registered when RunCommand returns at %s: a late reply would complete a call nobody waits for, and the map grows", c.PosStr(leak.Pos()))
	}
	c.Ob("(*core/controlcommands.Servent).RunCommand|pending-unregistered", reg.Pos(), leak == nil && len(through) >= 3, "%s", msg)
	// the call is registered before the command leaves: a reply can only be attributed to a call that is already pending
	var send ssa.Instruction
	an.Instrs(fn, func(in ssa.Instruction) {
		if ci, ok := in.(ssa.CallInstruction); ok && ci.Common().StaticCallee() == nil && !ci.Common().IsInvoke() && isFieldNamed(ci.Common().Value, "SendFunc") {
			send = in
		}
	})
	if send == nil {
		c.Lost("the call through Servent.SendFunc in RunCommand")
		return
	}
	c.Ob("(*core/controlcommands.Servent).RunCommand|registered-before-sent", send.Pos(), an.Dominates(reg, send),
		"the command is handed to the scheduler before the call is registered as pending: a reply that is processed in between finds no pending call, is dropped as unknown, and the target is reported as not having answered")
}

// R12k: Enqueue answers nil only when the entry is on the queue - only then will exactly one answer arrive on the
// callback. A nil answer for an entry that was not queued leaves the caller waiting for ever.
func r12k(c *an.Ctx) {
	c.Rule("R12k", "Enqueue returns nil only after the entry was put on the queue", 1)
	fn := c.MustFn(ccPkg, "CommandQueue.Enqueue")
	if fn == nil {
		return
	}
	c.Subject()
	isQueue := func(v ssa.Value) bool { return isFieldNamed(v, "q") }
	var sends []ssa.Instruction
	an.Instrs(fn, func(in ssa.Instruction) {
		if s, ok := in.(*ssa.Send); ok && isQueue(s.Chan) {
			sends = append(sends, in)
		}
	})
	var bad []string
	n := 0
	for _, r := range an.Returns(fn) {
		if len(r.Results) != 1 || !an.IsNilConst(r.Results[0]) {
			continue
		}
		n++
		okRet := false
		for _, s := range sends {
			if an.Dominates(s, r) {
				okRet = true
			}
		}
		if !okRet {
			okRet = an.GuardedByAll(r.Block(), func(a an.Atom) bool {
				ex, isEx := a.X.(*ssa.Extract)
				if !isEx || ex.Index != 0 || a.Op != token.EQL || a.Y == nil {
					return false
				}
				sel, isSel := ex.Tuple.(*ssa.Select)
				k, isK := an.ConstInt(a.Y)
				return isSel && isK && int(k) < len(sel.States) && sel.States[k].Dir == types.SendOnly && isQueue(sel.States[k].Chan)
			})
		}
		if !okRet {
			bad = append(bad, c.PosStr(lastPos(r.Block())))
		}
	}
	sort.Strings(bad)
	c.Ob("(*core/controlcommands.CommandQueue).Enqueue|nil-only-when-queued", fn.Pos(), len(bad) == 0 && n > 0,
		"Enqueue can return nil (at %v) although the entry was not put on the queue (%d nil returns examined): no answer will ever arrive on the callback the caller then waits on", bad, n)
}

func r12e(c *an.Ctx) {
	c.Rule("R12e", "ProcessResponse: lookup and delete of the (command id, target) key in one critical section; response stored before Done; key literals fill both fields", 3)
	fn := c.MustFn(ccPkg, "Servent.ProcessResponse")
	if fn != nil {
		c.Subject()
		var lk, del ssa.Instruction
		// (the critical section may be an immediately invoked function literal with a deferred unlock)
		for _, f := range an.WithAnon(fn) {
			an.Instrs(f, func(in ssa.Instruction) {
				switch x := in.(type) {
				case *ssa.Lookup:
					if isFieldNamed(x.X, "pending") {
						lk = x
					}
				case *ssa.Call:
					if an.CalleeName(&x.Call) == "builtin.delete" && isFieldNamed(x.Call.Args[0], "pending") {
						del = x
					}
				}
			})
		}
		atomic := false
		if lk != nil && del != nil {
			for _, a := range an.HeldAt(lk) {
				for _, b := range an.HeldAt(del) {
					if a.At == b.At && a.Mode == "x" {
						atomic = true
					}
				}
			}
			// same key value
			if lk.(*ssa.Lookup).Index != del.(*ssa.Call).Call.Args[1] && !an.SameVar(lk.(*ssa.Lookup).Index, del.(*ssa.Call).Call.Args[1]) {
				atomic = false
			}
		}
		c.Ob("(*core/controlcommands.Servent).ProcessResponse|atomic-consume", fn.Pos(), atomic, "the pending call must be looked up and removed under one acquisition of the servent lock, with the same key (otherwise a duplicate reply completes the call twice)")
		c.Subject()
		var st, snd ssa.Instruction
		an.Instrs(fn, func(in ssa.Instruction) {
			switch x := in.(type) {
			case *ssa.Store:
				if isFieldNamed(x.Addr, "Response") {
					st = x
				}
			case *ssa.Send:
				if isFieldNamed(x.Chan, "Done") {
					snd = x
				}
			}
		})
		c.Ob("(*core/controlcommands.Servent).ProcessResponse|response-before-done", fn.Pos(), st != nil && snd != nil && an.Dominates(st, snd), "the response must be stored in the call before its completion is signalled")
		// the hand-over must be a blocking send: with a non-blocking one (select with default) a reply that is
		// processed before RunCommand reaches its select is claimed, removed from pending and then dropped
		c.Subject()
		nonBlocking := false
		an.Instrs(fn, func(in ssa.Instruction) {
			if sel, ok := in.(*ssa.Select); ok {
				for _, sst := range sel.States {
					if sst.Dir == types.SendOnly && isFieldNamed(sst.Chan, "Done") && !sel.Blocking {
						nonBlocking = true
					}
				}
			}
		})
		c.Ob("(*core/controlcommands.Servent).ProcessResponse|blocking-handover", fn.Pos(), snd != nil && !nonBlocking,
			"the completion of a claimed call must be handed over with a blocking send on Done (non-blocking select: %v): otherwise a reply arriving while the command is still being sent is consumed and lost, and the caller reports a timeout for a target that answered", nonBlocking)
	}
	// CallId has both fields and each literal fills both
	cid := c.NamedType(ccPkg, "CallId")
	if cid == nil {
		c.Lost("type controlcommands.CallId")
		return
	}
	stt, _ := cid.Underlying().(*types.Struct)
	hasId, hasTarget := false, false
	if stt != nil {
		for i := 0; i < stt.NumFields(); i++ {
			switch stt.Field(i).Name() {
			case "Id":
				hasId = true
			case "Target":
				hasTarget = true
			}
		}
	}
	c.Subject()
	c.Ob("core/controlcommands.CallId|key-fields", token.NoPos, hasId && hasTarget, "pending calls must be keyed by command id AND target")
	for _, name := range []string{"Servent.RunCommand", "Servent.ProcessResponse"} {
		f := c.Fn(ccPkg, name)
		if f == nil {
			continue
		}
		an.Instrs(f, func(in ssa.Instruction) {
			al, ok := in.(*ssa.Alloc)
			if !ok || !strings.HasSuffix(al.Type().String(), "controlcommands.CallId") {
				return
			}
			c.Subject()
			filled := map[string]bool{}
			for _, r := range *al.Referrers() {
				if fa, ok := r.(*ssa.FieldAddr); ok && fa.Referrers() != nil {
					for _, rr := range *fa.Referrers() {
						if _, isSt := rr.(*ssa.Store); isSt {
							filled[stt.Field(fa.Field).Name()] = true
						}
					}
				}
			}
			c.Ob("(*core/controlcommands."+strings.Replace(name, ".", ").", 1)+"|key-literal-complete", al.Pos(), filled["Id"] && filled["Target"], "the call key built here must fill both the command id and the target")
		})
	}
}

func r12f(c *an.Ctx) {
	c.Rule("R12f", "collector: a result with an error and no response is turned into an error response for that receiver", 1)
	fn := c.MustFn(ccPkg, "CommandQueue.commit")
	if fn == nil {
		return
	}
	c.Subject()
	ok := false
	for _, ci := range an.CallsNamed(fn, "core/controlcommands.NewMesosCommandResponse") {
		call := ci.(*ssa.Call)
		errKnown, respNil := false, false
		for _, a := range an.Atoms(call.Block()) {
			if a.Y != nil && an.IsNilConst(a.Y) {
				if a.Op == token.NEQ && isFieldNamed(a.X, "err") {
					errKnown = true
				}
				if a.Op == token.EQL && isFieldNamed(a.X, "response") {
					respNil = true
				}
			}
		}
		if !errKnown || !respNil {
			continue
		}
		// stored into the response field, then into the responses map
		stored := false
		if call.Referrers() != nil {
			for _, l := range *call.Referrers() {
				var v ssa.Value = call
				if mi, isMI := l.(*ssa.MakeInterface); isMI {
					v = mi
				}
				if v.Referrers() == nil {
					continue
				}
				for _, r := range *v.Referrers() {
					if st, isSt := r.(*ssa.Store); isSt && isFieldNamed(st.Addr, "response") {
						an.Instrs(fn, func(in ssa.Instruction) {
							if mu, isMu := in.(*ssa.MapUpdate); isMu && isFieldNamed(mu.Value, "response") && an.CanReach(st, mu) {
								stored = true
							}
						})
					}
				}
			}
		}
		// the error passed is the result's error
		fromErr := isFieldNamed(call.Call.Args[1], "err")
		if stored && fromErr {
			ok = true
		}
	}
	c.Ob("(*core/controlcommands.CommandQueue).commit|missing-reply-becomes-error", fn.Pos(), ok, "a target that could not be reached or did not answer must appear in the result with an error response built from that error")
}

func r12g(c *an.Ctx) {
	c.Rule("R12g", "the error of CommandQueue.Enqueue is tested at every call site and makes the caller return", 3)
	for _, s := range c.SitesNamed("(*core/controlcommands.CommandQueue).Enqueue") {
		c.Subject()
		c.Mark(s.Fn)
		name := c.RelName(an.OutermostParent(s.Fn))
		call, isCall := s.Call.(*ssa.Call)
		ok := false
		if isCall {
			for _, t := range an.ErrTests(call) {
				// the non-nil edge must return before the reply is awaited
				var recvs []ssa.Instruction
				an.Instrs(s.Fn, func(in ssa.Instruction) {
					if u, isU := in.(*ssa.UnOp); isU && u.Op == token.ARROW {
						recvs = append(recvs, u)
					}
				})
				if an.AllPathsReturnAvoiding(t.NonNilSucc, recvs) {
					ok = true
				}
			}
		}
		c.Ob("Enqueue-result|"+name, s.Call.Pos(), ok,
			"the result of Enqueue is discarded: when the queue refuses the command nobody will ever answer the callback channel and the caller waits forever on it")
	}
}

// r12h: the per-target copy made by MakeSingleTarget is the command RunCommand registers and waits for: it must carry
// the original's id (replies are attributed by it) and response timeout (the command completes within it).
func r12h(c *an.Ctx) {
	c.Rule("R12h", "MakeSingleTarget: the copy's Id and ResponseTimeout are the original's, its target list is the one receiver; the typed wrappers embed the base copy; RunCommand's timer is the command's GetResponseTimeout()", 4)
	fn := c.MustFn(ccPkg, "MesosCommandBase.MakeSingleTarget")
	if fn != nil {
		c.Subject()
		key := "(*core/controlcommands.MesosCommandBase).MakeSingleTarget"
		recv := fn.Params[0]
		// the object returned on the success path: the value stored into / returned as result 0 that is not nil
		var obj ssa.Value
		for _, r := range an.Returns(fn) {
			v := an.Strip(an.RetVal(r, 0))
			collect := func(v ssa.Value) {
				v = an.Strip(v)
				if mi, ok := v.(*ssa.MakeInterface); ok {
					v = an.Strip(mi.X)
				}
				switch v.(type) {
				case *ssa.Alloc, *ssa.Call:
					obj = v
				}
			}
			if p, ok := v.(*ssa.Phi); ok {
				for _, e := range p.Edges {
					collect(e)
				}
			} else {
				collect(v)
			}
		}
		if obj == nil {
			c.Ob(key+"|copy-resolved", fn.Pos(), false, "cannot resolve the object returned by MakeSingleTarget")
		} else {
			for _, fld := range []string{"Id", "ResponseTimeout"} {
				// last store into obj.<fld>
				var val ssa.Value
				n := 0
				if obj.Referrers() != nil {
					for _, r := range *obj.Referrers() {
						fa, ok := r.(*ssa.FieldAddr)
						if !ok || fa.Referrers() == nil || an.FieldOf(fa) == nil || an.FieldOf(fa).Name() != fld {
							continue
						}
						for _, rr := range *fa.Referrers() {
							if st, ok := rr.(*ssa.Store); ok && st.Addr == ssa.Value(fa) {
								n++
								val = st.Val
							}
						}
					}
				}
				ok := false
				if n == 1 && val != nil {
					if f := an.FieldOf(val); f != nil && f.Name() == fld && an.FieldBase(val) == ssa.Value(recv) {
						ok = true
					}
				}
				why := "replies are attributed by command id: a copy with another id never receives its reply"
				if fld == "ResponseTimeout" {
					why = "RunCommand waits for the copy's timeout: a copy without the original's timeout makes the command complete late (or time out early)"
				}
				c.Ob(key+"|copy-keeps-"+fld, fn.Pos(), ok, "the per-target copy must take %s from the command it is made from (%d assignment(s) found); %s", fld, n, why)
			}
		}
	}
	// wrappers embed the base copy
	for _, w := range []string{"MesosCommand_Transition", "MesosCommand_TriggerHook"} {
		wf := c.MustFn(ccPkg, w+".MakeSingleTarget")
		if wf == nil {
			continue
		}
		c.Subject()
		base := an.CallsNamed(wf, "(*core/controlcommands.MesosCommandBase).MakeSingleTarget")
		ok := false
		if len(base) == 1 {
			// the embedded MesosCommandBase of the result is a copy of what the base call returned
			an.Instrs(wf, func(in ssa.Instruction) {
				st, isSt := in.(*ssa.Store)
				if !isSt {
					return
				}
				if f := an.FieldOf(st.Addr); f == nil || f.Name() != "MesosCommandBase" {
					return
				}
				if an.DerivesFrom(st.Val, base[0].Value()) {
					ok = true
				}
			})
		}
		c.Ob("(*core/controlcommands."+w+").MakeSingleTarget|embeds-base-copy", wf.Pos(), ok, "the typed per-target copy must embed the copy made by MesosCommandBase.MakeSingleTarget (which carries id, timeout and the single target)")
	}
	// RunCommand: the timer is the command's own timeout
	if rc := c.MustFn(ccPkg, "Servent.RunCommand"); rc != nil {
		c.Subject()
		ok, n := true, 0
		for _, ci := range an.Calls(rc, func(nm string, _ ssa.CallInstruction) bool { return nm == "time.After" || nm == "time.NewTimer" }) {
			n++
			from := false
			for _, l := range an.BackSlice(ci.Common().Args[0], an.SliceOpts{LeafCall: func(nm string, _ *ssa.Call) bool { return strings.HasSuffix(nm, ").GetResponseTimeout") }}) {
				if l.Kind == "call" {
					call := l.Val.(*ssa.Call)
					if _, isParam := an.Strip(an.Args(&call.Call)[0]).(*ssa.Parameter); isParam {
						from = true
					}
				}
			}
			if !from {
				ok = false
			}
		}
		c.Ob("(*core/controlcommands.Servent).RunCommand|waits-command-timeout", rc.Pos(), ok && n > 0, "RunCommand must bound its wait by GetResponseTimeout() of the command it was given (%d timer(s) found)", n)
	}
}

// R12i: a command completes within its response timeout only if nothing on the way to arming the timer can block
// for ever. A channel used as a counting semaphore (send to take a slot, receive to give it back) blocks for ever
// once its slots have leaked; every path from taking a slot to leaving the function must give it back.
func r12i(c *an.Ctx) {
	c.Rule("R12i", "control commands: a slot taken from a channel semaphore is given back on every path out of the function", 10)
	n := 0
	for _, fn := range c.ModuleFuncs() {
		if fn.Pkg == nil || !strings.HasSuffix(fn.Pkg.Pkg.Path(), ccPkg) {
			continue
		}
		n++
		c.Subject()
		c.Mark(fn)
		seen := map[string]bool{}
		for _, lk := range an.SemaphoreLeaks(fn) {
			ord := 0
			an.Instrs(fn, func(in ssa.Instruction) {
				if _, isSend := in.(*ssa.Send); isSend && in.Pos() < lk.Acquire.Pos() {
					ord++
				}
			})
			key := fmt.Sprintf("%s|slot-released#%d", an.Short(fn.String()), ord)
			if seen[key] {
				continue
			}
			seen[key] = true
			c.Ob(key, lk.Exit.Pos(), false, "the slot taken at %s is still held when the function returns here: each such exit shrinks the semaphore, and once it is exhausted the next send blocks before the response timer exists - the command (and every command queued behind it) never completes", c.PosStr(lk.Acquire.Pos()))
		}
	}
	c.Ob(ccPkg+"|slot-released|scanned", token.NoPos, n >= 10, "functions of the control-command package scanned for unbalanced channel semaphores: %d", n)
}

// R12j: what the queue hands to the caller is what commit built - one entry per target, each carrying that target's
// own outcome. Substituting another response when commit reported an error erases the per-target entries (and with
// them the distinction between critical and non-critical targets the task manager draws from them). Only a nil
// response may be replaced.
func r12j(c *an.Ctx) {
	c.Rule("R12j", "queue loop: the response delivered to the caller is the one commit returned (only a nil response may be replaced)", 1)
	fn := c.MustFn(ccPkg, "CommandQueue.Start")
	if fn == nil {
		return
	}
	commit := c.MustFn(ccPkg, "CommandQueue.commit")
	if commit == nil {
		return
	}
	n := 0
	for _, f := range an.WithAnon(fn) {
		for _, ci := range an.CallsTo(f, commit) {
			call, ok := ci.(*ssa.Call)
			if !ok {
				continue
			}
			var resp ssa.Value
			for _, r := range *call.Referrers() {
				if ex, isEx := r.(*ssa.Extract); isEx && ex.Index == 0 {
					resp = ex
				}
			}
			an.Instrs(f, func(in ssa.Instruction) {
				snd, isSend := in.(*ssa.Send)
				if !isSend || !strings.HasSuffix(snd.X.Type().String(), "MesosCommandResponse") {
					return
				}
				n++
				c.Subject()
				var bad []string
				var check func(v ssa.Value, depth int)
				check = func(v ssa.Value, depth int) {
					if v == resp && resp != nil {
						return
					}
					if phi, isPhi := v.(*ssa.Phi); isPhi && depth < 4 {
						for i, e := range phi.Edges {
							if e == resp {
								continue
							}
							// another value: only where the response is known to be nil
							nilOnEdge := resp != nil
							for _, alt := range an.EdgeAlts(phi.Block().Preds[i], phi.Block()) {
								has := false
								for _, a := range alt {
									if a.Op == token.EQL && a.Y != nil && ((a.X == resp && an.IsNilConst(a.Y)) || (a.Y == resp && an.IsNilConst(a.X))) {
										has = true
									}
								}
								if !has {
									nilOnEdge = false
								}
							}
							if nilOnEdge {
								continue
							}
							if _, inner := e.(*ssa.Phi); inner {
								check(e, depth+1)
								continue
							}
							bad = append(bad, c.PosStr(lastPos(phi.Block().Preds[i])))
						}
						return
					}
					bad = append(bad, c.PosStr(snd.Pos()))
				}
				check(snd.X, 0)
				sort.Strings(bad)
				c.Ob(fmt.Sprintf("(*core/controlcommands.CommandQueue).Start[loop]|callback#%d|answer-is-commits-response", n), snd.Pos(), len(bad) == 0,
					"the response sent to the caller is not always the one commit returned (other value assigned at %v while commit's response may be non-nil): the per-target outcomes - which targets answered, which failed, and whether those were critical - are replaced by a single command-level answer", bad)
			})
		}
	}
	if n == 0 {
		c.Lost("the send of commit's response to the entry's callback in CommandQueue.Start")
	}
}

// R12l: commit turns "an error and no response" into an error entry for that target. RunCommand therefore hands back
// either a response or an error, never both: a (stale or placeholder) response returned together with the error makes
// the unreachable or silent target look as if it had answered without error.
func r12l(c *an.Ctx) {
	c.Rule("R12l", "RunCommand returns a nil response whenever it returns an error", 1)
	fn := c.MustFn(ccPkg, "Servent.RunCommand")
	if fn == nil {
		return
	}
	c.Subject()
	var bad []string
	n := 0
	for _, r := range an.Returns(fn) {
		if len(r.Results) != 2 {
			continue
		}
		n++
		resp, err := an.RetVal(r, 0), an.RetVal(r, 1)
		if an.IsNilConst(resp) || an.IsNilConst(err) {
			continue
		}
		// a response built from the error itself is an error answer, too
		if an.DerivesFrom(resp, err) {
			continue
		}
		bad = append(bad, c.PosStr(lastPos(r.Block())))
	}
	sort.Strings(bad)
	c.Ob("(*core/controlcommands.Servent).RunCommand|response-or-error", fn.Pos(), len(bad) == 0 && n > 0,
		"RunCommand can return a response together with an error (at %v): the collector only substitutes an error answer when there is no response, so a target that could not be reached or did not answer in time is reported without error and a critical task's failure is lost", bad)
}

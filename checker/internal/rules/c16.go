package rules

import (
	"fmt"
	"go/constant"
	"go/token"
	"go/types"
	"sort"
	"strings"

	"verifchk/internal/an"

	"golang.org/x/tools/go/ssa"
)

func init() {
	register("C16", "Decides structural necessary conditions of 'the reported task state is the device's real state': "+
		"(R16a) the O2<->FairMQ state map is injective and both lookups answer \"\" on a miss; (R16b) a device reply is accepted as success only under ok && executor-triggered && same event && expected state, every other reply returns the device's state with a non-nil error; "+
		"(R16c) the state returned by every device step is used (compared or reported), never discarded; (R16d) a rollback step is terminal: its state is what is reported, no forward step follows it; "+
		"(R16e) the executor builds its answer from the transitioner's (state, error) pair unchanged. Does not enumerate outcome patterns (that would be execution) nor model the OCC plugin.", runC16)
}

func runC16(c *an.Ctx) {
	r16a(c)
	r16b(c)
	r16cd(c)
	r16e(c)
	// round 7
	r16g(c)
	// round 8
	r16h(c)
}

const trPkg = "executor/executorcmd/transitioner"

func r16a(c *an.Ctx) {
	c.Rule("R16a", "state map literal is injective; lookup helpers return \"\" on a miss", 3)
	fd, info := c.FuncDecl(trPkg, "NewFairMQTransitioner")
	if fd == nil {
		c.Lost(trPkg + ".NewFairMQTransitioner")
		return
	}
	lits := an.ConstMapLiterals(fd, info)
	if len(lits) != 1 {
		c.Ob(trPkg+".NewFairMQTransitioner|state-map", fd.Pos(), false, "expected exactly one constant map literal (the O2->FairMQ state map), found %d", len(lits))
	} else {
		c.Subject()
		seen := map[string]string{}
		ok := true
		var dup string
		for _, kv := range lits[0] {
			v := constant.StringVal(kv.V)
			if prev, has := seen[v]; has {
				ok = false
				dup = fmt.Sprintf("%s and %s both map to device state %s", prev, constant.StringVal(kv.K), v)
			}
			seen[v] = constant.StringVal(kv.K)
		}
		c.Ob(trPkg+".NewFairMQTransitioner|state-map-injective", fd.Pos(), ok && len(lits[0]) >= 5,
			"the O2->FairMQ state map must be injective so that its inverse is a function (%d entries) %s", len(lits[0]), dup)
	}
	for _, name := range []string{"FairMQ.fmqStateForState", "FairMQ.stateForFmqState"} {
		fn := c.MustFn(trPkg, name)
		if fn == nil {
			continue
		}
		c.Subject()
		// every returned value is "" or the value a lookup in a string map yields (which is "" on a miss, in
		// the plain and in the comma-ok form alike); any other constant or computed value could name a state
		missOK := len(an.Returns(fn)) > 0
		var isMiss func(v ssa.Value, depth int) bool
		isMiss = func(v ssa.Value, depth int) bool {
			if depth > 6 {
				return false
			}
			if s, isC := an.ConstString(v); isC {
				return s == ""
			}
			switch x := v.(type) {
			case *ssa.Lookup:
				_, isMap := x.X.Type().Underlying().(*types.Map)
				return isMap && !x.CommaOk
			case *ssa.Extract:
				_, isLk := x.Tuple.(*ssa.Lookup)
				return isLk && x.Index == 0
			case *ssa.UnOp:
				// a named result: every value stored into its cell
				al, isAl := x.X.(*ssa.Alloc)
				if !isAl || x.Op != token.MUL {
					return false
				}
				n := 0
				for _, ref := range *al.Referrers() {
					if st, isSt := ref.(*ssa.Store); isSt && st.Addr == al {
						n++
						if !isMiss(st.Val, depth+1) {
							return false
						}
					} else if _, isLd := ref.(*ssa.UnOp); !isLd {
						if _, isDbg := ref.(*ssa.DebugRef); !isDbg {
							return false
						}
					}
				}
				return true // no store: the zero value ""
			case *ssa.Phi:
				for _, e := range x.Edges {
					if !isMiss(e, depth+1) {
						return false
					}
				}
				return len(x.Edges) > 0
			}
			return false
		}
		for _, r := range an.Returns(fn) {
			if len(r.Results) != 1 || !isMiss(r.Results[0], 0) {
				missOK = false
			}
		}
		c.Ob(trPkg+".(*"+strings.Replace(name, ".", ").", 1)+"|miss-returns-empty", fn.Pos(), missOK, "an unknown state name must map to \"\", never to another state")
	}
}

func r16b(c *an.Ctx) {
	c.Rule("R16b", "RpcClient.doTransition: success only under ok && trigger==EXECUTOR && same event && state==Dst; otherwise device state + non-nil error", 1)
	fn := c.MustFn("executor/executorcmd", "RpcClient.doTransition")
	if fn == nil {
		return
	}
	// every state handed back is what the device said (the reply's GetState()) or empty - never the state the request
	// assumed (ei.Src / ei.Dst)
	{
		var assumed []string
		seenV := map[ssa.Value]bool{}
		var walk func(v ssa.Value, depth int)
		walk = func(v ssa.Value, depth int) {
			if v == nil || seenV[v] || depth > 8 {
				return
			}
			seenV[v] = true
			switch x := v.(type) {
			case *ssa.Const:
				if s, ok := an.ConstString(x); !ok || s != "" {
					assumed = append(assumed, "constant "+x.String())
				}
			case *ssa.Phi:
				for _, e := range x.Edges {
					walk(e, depth+1)
				}
			case *ssa.Call:
				if an.MethodName(&x.Call) != "GetState" {
					assumed = append(assumed, "result of "+an.CalleeName(&x.Call))
				}
			case *ssa.UnOp:
				if al, ok := x.X.(*ssa.Alloc); ok && x.Op == token.MUL && al.Referrers() != nil && an.SpilledParam(al) == nil {
					for _, r := range *al.Referrers() {
						if st, isSt := r.(*ssa.Store); isSt && st.Addr == ssa.Value(al) {
							walk(st.Val, depth+1)
						}
					}
					return
				}
				if p, ok := an.TypePath(x); ok {
					assumed = append(assumed, p)
				} else {
					assumed = append(assumed, x.String())
				}
			default:
				if p, ok := an.TypePath(v); ok {
					assumed = append(assumed, p)
				} else {
					assumed = append(assumed, v.String())
				}
			}
		}
		for _, r := range an.Returns(fn) {
			if len(r.Results) == 2 {
				walk(an.RetVal(r, 0), 0)
			}
		}
		sort.Strings(assumed)
		c.Ob("executor/executorcmd.(*RpcClient).doTransition|state-is-the-devices", fn.Pos(), len(assumed) == 0,
			"a state returned by doTransition does not come from the device's reply (%v): when the request is rejected or fails the executor reports the state it assumed, not the one the device is in", assumed)
	}
	c.Subject()
	key := "executor/executorcmd.(*RpcClient).doTransition"
	type edge struct {
		val  ssa.Value
		from *ssa.BasicBlock
		to   *ssa.BasicBlock
		st   ssa.Value // state value on the same edge
	}
	var edges []edge
	for _, r := range an.Returns(fn) {
		if len(r.Results) != 2 {
			continue
		}
		st, ev := r.Results[0], r.Results[1]
		if p, ok := ev.(*ssa.Phi); ok && p.Block() == r.Block() {
			for i, e := range p.Edges {
				var sv ssa.Value = st
				if sp, ok := st.(*ssa.Phi); ok && sp.Block() == p.Block() {
					sv = sp.Edges[i]
				}
				edges = append(edges, edge{e, p.Block().Preds[i], p.Block(), sv})
			}
		} else {
			edges = append(edges, edge{ev, r.Block(), nil, st})
		}
	}
	nSucc := 0
	for _, e := range edges {
		if an.NonNil(e.val) {
			continue
		}
		var atoms []an.Atom
		if e.to != nil {
			atoms = an.EdgeAtoms(e.from, e.to)
		} else {
			atoms = an.Atoms(e.from)
		}
		// known non-nil by guard (early return of the transport error)?
		known := false
		for _, a := range atoms {
			if a.Op == token.NEQ && a.Y != nil && an.IsNilConst(a.Y) && an.SameValue(a.X, e.val) {
				known = true
			}
		}
		if known {
			continue
		}
		nSucc++
		have := map[string]bool{}
		for _, a := range atoms {
			check := func(x, y ssa.Value) {
				call, ok := x.(*ssa.Call)
				if !ok {
					return
				}
				switch an.MethodName(&call.Call) {
				case "GetOk":
					if a.Y == nil && a.Val {
						have["ok"] = true
					}
				case "GetTrigger":
					if a.Op == token.EQL && y != nil {
						if cst, ok := y.(*ssa.Const); ok && cst.Value != nil {
							if named, ok := cst.Type().(*types.Named); ok && named.Obj().Name() == "StateChangeTrigger" {
								// must be the EXECUTOR constant
								if obj := named.Obj().Pkg().Scope().Lookup("StateChangeTrigger_EXECUTOR"); obj != nil {
									if k, ok := obj.(*types.Const); ok && constant.Compare(k.Val(), token.EQL, cst.Value) {
										have["trigger"] = true
									}
								}
							}
						}
					}
				case "GetTransitionEvent":
					if a.Op == token.EQL && y != nil {
						if f := an.FieldOf(y); f != nil && f.Name() == "Evt" {
							have["event"] = true
						}
					}
				case "GetState":
					if a.Op == token.EQL && y != nil {
						if f := an.FieldOf(y); f != nil && f.Name() == "Dst" {
							have["state"] = true
						}
					}
				}
			}
			check(a.X, a.Y)
			if a.Y != nil {
				check(a.Y, a.X)
			}
		}
		missing := []string{}
		for _, k := range []string{"ok", "trigger", "event", "state"} {
			if !have[k] {
				missing = append(missing, k)
			}
		}
		stOK := false
		if call, ok := e.st.(*ssa.Call); ok && an.MethodName(&call.Call) == "GetState" {
			stOK = true
		}
		c.Ob(key+"|success-edge", e.from.Instrs[len(e.from.Instrs)-1].Pos(), len(missing) == 0 && stOK,
			"an exit that reports no error must be guarded by reply.ok && trigger==EXECUTOR && event==requested && state==Dst and return the reply's state (missing conjuncts: %v, returns reply state: %v)", missing, stOK)
	}
	c.Ob(key+"|has-success-edge", fn.Pos(), nSucc >= 1, "the function has at least one guarded success exit (%d)", nSucc)
	// non-success exits with a reply return the reply's state
	for _, e := range edges {
		if !an.NonNil(e.val) {
			continue
		}
		respKnown := false
		var atoms []an.Atom
		if e.to != nil {
			atoms = an.EdgeAtoms(e.from, e.to)
		} else {
			atoms = an.Atoms(e.from)
		}
		for _, a := range atoms {
			if a.Op == token.NEQ && a.Y != nil && an.IsNilConst(a.Y) && strings.HasSuffix(a.X.Type().String(), "TransitionReply") {
				respKnown = true
			}
		}
		if !respKnown {
			continue
		}
		call, ok := e.st.(*ssa.Call)
		c.Ob(key+"|failure-returns-device-state", e.from.Instrs[len(e.from.Instrs)-1].Pos(), ok && an.MethodName(&call.Call) == "GetState",
			"a refused/failed step with a valid reply must return the state the device reports")
	}
}

// deviceSteps returns the dynamic calls through the DoTransition field in fn.
func deviceSteps(fn *ssa.Function) []*ssa.Call {
	var out []*ssa.Call
	an.Instrs(fn, func(in ssa.Instruction) {
		call, ok := in.(*ssa.Call)
		if !ok || call.Call.IsInvoke() || call.Call.StaticCallee() != nil {
			return
		}
		if f := an.FieldOf(call.Call.Value); f != nil && f.Name() == "DoTransition" {
			out = append(out, call)
		}
	})
	return out
}

// stepHelpers: same-package functions that (transitively, depth <= 2) perform device steps and return the
// resulting state as their first (string) result.
func stepHelpers(c *an.Ctx) map[*ssa.Function]bool {
	out := map[*ssa.Function]bool{}
	var fns []*ssa.Function
	for _, f := range c.ModuleFuncs() {
		if f.Pkg != nil && strings.HasSuffix(f.Pkg.Pkg.Path(), trPkg) && f.Parent() == nil {
			fns = append(fns, f)
		}
	}
	returnsState := func(f *ssa.Function) bool {
		res := f.Signature.Results()
		return res.Len() >= 1 && res.At(0).Type().String() == "string"
	}
	for round := 0; round < 2; round++ {
		for _, f := range fns {
			if out[f] || !returnsState(f) {
				continue
			}
			if len(deviceSteps(f)) > 0 {
				out[f] = true
				continue
			}
			an.Instrs(f, func(in ssa.Instruction) {
				if call, ok := in.(*ssa.Call); ok {
					if cal := call.Call.StaticCallee(); cal != nil && out[cal] {
						out[f] = true
					}
				}
			})
		}
	}
	return out
}

type devStep struct {
	fn     *ssa.Function
	call   *ssa.Call
	helper *ssa.Function // nil for a direct DoTransition call
}

func stepsOf(fn *ssa.Function, helpers map[*ssa.Function]bool) []devStep {
	var out []devStep
	an.Instrs(fn, func(in ssa.Instruction) {
		call, ok := in.(*ssa.Call)
		if !ok {
			return
		}
		if !call.Call.IsInvoke() && call.Call.StaticCallee() == nil {
			if f := an.FieldOf(call.Call.Value); f != nil && f.Name() == "DoTransition" {
				out = append(out, devStep{fn, call, nil})
			}
			return
		}
		if cal := call.Call.StaticCallee(); cal != nil && helpers[cal] && cal != fn {
			out = append(out, devStep{fn, call, cal})
		}
	})
	return out
}

// stateUsed: the state produced by the step reaches something that matters - a comparison that is branched on, a
// return, a store, an argument of a call with effects - possibly through the pure state-name mappers and phis. A state
// that is only converted into a value nobody reads is dropped.
func stateUsed(st devStep) bool {
	call := st.call
	if call.Referrers() == nil {
		return false
	}
	seen := map[ssa.Value]bool{}
	var live func(v ssa.Value, depth int) bool
	live = func(v ssa.Value, depth int) bool {
		if v == nil || seen[v] || depth > 12 || v.Referrers() == nil {
			return false
		}
		seen[v] = true
		for _, r := range *v.Referrers() {
			switch x := r.(type) {
			case *ssa.DebugRef:
			case *ssa.Return, *ssa.If, *ssa.Store, *ssa.MapUpdate, *ssa.Send, *ssa.Go, *ssa.Defer, *ssa.Panic:
				return true
			case *ssa.Call:
				n := an.MethodName(&x.Call)
				if (n == "stateForFmqState" || n == "fmqStateForState" || n == "FromDeviceState") && x.Call.StaticCallee() != nil {
					if live(x, depth+1) {
						return true
					}
					continue
				}
				return true
			case ssa.Value:
				if live(x, depth+1) {
					return true
				}
			default:
				return true
			}
		}
		return false
	}
	single := call.Type().String() == "string"
	if single {
		return live(call, 0)
	}
	for _, r := range *call.Referrers() {
		switch x := r.(type) {
		case *ssa.Extract:
			if x.Index == 0 && live(x, 0) {
				return true
			}
		case *ssa.Return:
			return true
		}
	}
	return false
}

// dstFromParam: for a direct step, the parameters of fn its EventInfo.Dst derives from.
func dstParams(fn *ssa.Function, call *ssa.Call) map[*ssa.Parameter]bool {
	out := map[*ssa.Parameter]bool{}
	dst := eventInfoField(call, 2)
	if dst == nil {
		return out
	}
	for _, l := range an.BackSlice(dst, an.SliceOpts{}) {
		if p, ok := l.Val.(*ssa.Parameter); ok && l.Kind == "param" && p.Parent() == fn {
			out[p] = true
		}
	}
	return out
}

func r16cd(c *an.Ctx) {
	c.Rule("R16c", "the device state returned by every device step (DoTransition call or helper performing steps) is used, never discarded", 9)
	helpers := stepHelpers(c)
	var fns []*ssa.Function
	for _, f := range c.ModuleFuncs() {
		if f.Pkg != nil && strings.HasSuffix(f.Pkg.Pkg.Path(), trPkg) && f.Parent() == nil {
			fns = append(fns, f)
		}
	}
	var all []devStep
	for _, fn := range fns {
		steps := stepsOf(fn, helpers)
		if len(steps) == 0 {
			continue
		}
		c.Mark(fn)
		for i, st := range steps {
			all = append(all, st)
			c.Subject()
			kind := "DoTransition"
			if st.helper != nil {
				kind = st.helper.Name()
			}
			key := fmt.Sprintf("%s|%s#%d", c.RelName(fn), kind, i+1)
			c.Ob(key+"|state-used", st.call.Pos(), stateUsed(st), "the state returned by this device step is overwritten or dropped before anything reads it: what is reported afterwards is not the device's state")
		}
	}
	r16f(c, all, helpers)
	c.Rule("R16d", "a rollback step (a later step whose destination is the transition's source state) is terminal: no further device step is reachable after it", 4)
	for _, s := range all {
		fn := s.fn
		if !isRollbackStep(s, all, helpers) {
			continue
		}
		c.Subject()
		var next *ssa.Call
		for _, o := range all {
			if o.fn == fn && o.call != s.call && an.CanReach(s.call, o.call) {
				next = o.call
			}
		}
		name := rollbackName(s.call)
		if s.helper != nil {
			name = "via-" + s.helper.Name()
			for _, a := range s.call.Call.Args {
				if str, ok := an.ConstString(a); ok {
					name += "-" + strings.ReplaceAll(str, " ", "_")
				}
			}
		}
		key := fmt.Sprintf("%s|rollback@%s", c.RelName(fn), name)
		msg := "after rolling the device back to the source state the function must report that state"
		if next != nil {
			msg += fmt.Sprintf("; instead the forward step at %s is attempted on the rolled-back device and its result replaces the rollback's", c.PosStr(next.Pos()))
		}
		c.Ob(key, s.call.Pos(), next == nil, "%s", msg)
		// whether the device is rolled back depends only on where the refused forward step left it (its state / error),
		// not on which request brought us here: conditions between the forward step and the rollback must not test the
		// function's own parameters
		var prev *ssa.Call
		for _, o := range all {
			if o.fn == fn && o.call != s.call && an.Dominates(o.call, s.call) && (prev == nil || an.Dominates(prev, o.call)) {
				prev = o.call
			}
		}
		if prev == nil {
			continue
		}
		var extra []string
		for _, g := range an.ControlConds(s.call.Block()) {
			if g.LoopHeader || g.LoopExit || !an.Dominates(prev, g.If) {
				continue
			}
			for _, a := range an.CondAtoms(g.V, g.Val) {
				for _, v := range []ssa.Value{a.X, a.Y} {
					if p, isP := v.(*ssa.Parameter); isP && p != fn.Params[0] {
						pos := c.PosStr(atomPos(a)) + " (" + p.Name() + ")"
						dup := false
						for _, e := range extra {
							dup = dup || e == pos
						}
						if !dup {
							extra = append(extra, pos)
						}
					}
				}
			}
		}
		sort.Strings(extra)
		c.Ob(key+"|decided-by-device-state", s.call.Pos(), len(extra) == 0,
			"whether this rollback is attempted also depends on the request (%v), not only on the state the refused step left the device in: on the other requests the device stays in the intermediate state and an empty state is reported", extra)
	}
}

// eventInfoField returns the value stored in field i of the EventInfo struct passed to the step.
func eventInfoField(call *ssa.Call, i int) ssa.Value {
	if len(call.Call.Args) != 1 {
		return nil
	}
	ld, ok := call.Call.Args[0].(*ssa.UnOp)
	if !ok {
		return nil
	}
	al, ok := ld.X.(*ssa.Alloc)
	if !ok || al.Referrers() == nil {
		return nil
	}
	for _, r := range *al.Referrers() {
		if fa, ok := r.(*ssa.FieldAddr); ok && fa.Field == i && fa.Referrers() != nil {
			for _, rr := range *fa.Referrers() {
				if st, ok := rr.(*ssa.Store); ok {
					return st.Val
				}
			}
		}
	}
	return nil
}

func rollbackName(call *ssa.Call) string {
	if v := eventInfoField(call, 1); v != nil { // Src of the rollback step identifies it
		if s, ok := an.ConstString(v); ok {
			return "from-" + strings.ReplaceAll(s, " ", "_")
		}
	}
	if v := eventInfoField(call, 0); v != nil {
		if s, ok := an.ConstString(v); ok {
			return strings.ReplaceAll(s, " ", "_")
		}
	}
	return "?"
}

func r16e(c *an.Ctx) {
	c.Rule("R16e", "executor answers are built from the transitioner's (state, error) pair unchanged", 5)
	for _, name := range []string{"ControllableTask.Transition", "basicTaskBase.Transition"} {
		fn := c.Fn("executor/executable", name)
		if fn == nil {
			continue
		}
		commits := an.CallsNamed(fn, "(*executor/executorcmd.ExecutorCommand_Transition).Commit")
		preps := an.CallsNamed(fn, "(*executor/executorcmd.ExecutorCommand_Transition).PrepareResponse")
		if len(commits) == 0 {
			continue
		}
		c.Subject()
		ok := len(preps) > 0
		for _, p := range preps {
			a := p.Common().Args // recv, err, state, taskId
			okE, okS := false, false
			for _, cm := range commits {
				call := cm.(*ssa.Call)
				for _, r := range *call.Referrers() {
					if ex, isEx := r.(*ssa.Extract); isEx {
						ex := ex
						isThis := func(v ssa.Value) bool { return v == ssa.Value(ex) }
						if ex.Index == 1 && (a[1] == ssa.Value(ex) || resolvesOnlyTo(a[1], isThis)) {
							okE = true
						}
						if ex.Index == 0 && (a[2] == ssa.Value(ex) || resolvesOnlyTo(a[2], isThis)) {
							okS = true
						}
					}
				}
			}
			if !(okE && okS) {
				ok = false
			}
		}
		c.Ob("executor/executable.(*"+strings.Replace(name, ".", ").", 1)+"|response-from-commit", fn.Pos(), ok, "PrepareResponse must receive exactly the error and state returned by Commit")
	}
	if fn := c.MustFn("executor/executorcmd", "ExecutorCommand_Transition.Commit"); fn != nil {
		c.Subject()
		ok := false
		for _, r := range an.Returns(fn) {
			if len(r.Results) == 2 {
				e0, ok0 := r.Results[0].(*ssa.Extract)
				e1, ok1 := r.Results[1].(*ssa.Extract)
				if ok0 && ok1 && e0.Tuple == e1.Tuple && e0.Index == 0 && e1.Index == 1 {
					if call, isCall := e0.Tuple.(*ssa.Call); isCall && an.MethodName(&call.Call) == "Commit" {
						ok = true
					}
				}
			}
		}
		c.Ob("executor/executorcmd.(*ExecutorCommand_Transition).Commit|passthrough", fn.Pos(), ok, "Commit returns the transitioner's pair unchanged")
	}
	// the response builders: the state and error put into the answer are the parameters, unmodified
	if fn := c.MustFn("executor/executorcmd", "ExecutorCommand_Transition.PrepareResponse"); fn != nil {
		c.Subject()
		ok := false
		for _, ci := range an.Calls(fn, func(n string, _ ssa.CallInstruction) bool {
			return strings.HasSuffix(n, "controlcommands.NewMesosCommandResponse_Transition")
		}) {
			a := ci.Common().Args // cmd, err, state, taskId
			if len(a) == 4 && len(fn.Params) >= 3 && a[1] == ssa.Value(fn.Params[1]) && a[2] == ssa.Value(fn.Params[2]) {
				ok = true
			}
		}
		// or the answer is assembled in place: CurrentState is only ever the state parameter, and the error handed to the
		// base response is the error parameter
		if !ok && len(fn.Params) >= 3 {
			stateOK, nState, errOK := true, 0, false
			an.Instrs(fn, func(in ssa.Instruction) {
				if st, isSt := in.(*ssa.Store); isSt && isFieldNamed(st.Addr, "CurrentState") {
					nState++
					if st.Val != ssa.Value(fn.Params[2]) {
						stateOK = false
					}
				}
				if call, isCall := in.(*ssa.Call); isCall && strings.HasSuffix(an.CalleeName(&call.Call), "controlcommands.NewMesosCommandResponse") {
					if len(call.Call.Args) == 2 && call.Call.Args[1] == ssa.Value(fn.Params[1]) {
						errOK = true
					}
				}
			})
			ok = stateOK && nState > 0 && errOK
		}
		c.Ob("executor/executorcmd.(*ExecutorCommand_Transition).PrepareResponse|state-and-error-unchanged", fn.Pos(), ok,
			"the response must carry exactly the error and the state it was given: substituting another state (e.g. the source state for an empty one) reports a state the device is not in")
	}
	if fn := c.MustFn("core/controlcommands", "NewMesosCommandResponse_Transition"); fn != nil {
		c.Subject()
		ok := false
		an.Instrs(fn, func(in ssa.Instruction) {
			if st, isSt := in.(*ssa.Store); isSt && isFieldNamed(st.Addr, "CurrentState") && len(fn.Params) >= 3 && st.Val == ssa.Value(fn.Params[2]) {
				ok = true
			}
		})
		c.Ob("core/controlcommands.NewMesosCommandResponse_Transition|state-field-is-argument", fn.Pos(), ok, "the CurrentState field of the response is the state argument")
	}
}

// r16f: the error of a forward device step must be able to reach the function's error result. A step
// whose error is bound to a shadowing variable (or dropped) makes a failed step look like a success
// to the caller whenever the reported state is not inspected as well.
func r16f(c *an.Ctx, all []devStep, helpers map[*ssa.Function]bool) {
	c.Rule("R16f", "the error of every forward device step reaches the error result of the function performing it", 9)
	for i, st := range all {
		fn := st.fn
		res := fn.Signature.Results()
		errIdx := -1
		for k := 0; k < res.Len(); k++ {
			if res.At(k).Type().String() == "error" {
				errIdx = k
			}
		}
		if errIdx < 0 {
			continue
		}
		// the step's error
		var errVal *ssa.Extract
		blank := true
		if st.call.Referrers() != nil {
			for _, r := range *st.call.Referrers() {
				if ex, ok := r.(*ssa.Extract); ok && ex.Type().String() == "error" {
					errVal = ex
					if ex.Referrers() != nil {
						for _, rr := range *ex.Referrers() {
							if _, dbg := rr.(*ssa.DebugRef); !dbg {
								blank = false
							}
						}
					}
				}
			}
		}
		tupleHasErr := false
		if tup, ok := st.call.Type().(*types.Tuple); ok {
			for k := 0; k < tup.Len(); k++ {
				if tup.At(k).Type().String() == "error" {
					tupleHasErr = true
				}
			}
		}
		if !tupleHasErr {
			continue
		}
		// a step executed only after an earlier step of the same function failed to reach its destination
		// (a rollback) keeps the forward step's error: its own error is deliberately dropped
		if isRollbackStep(st, all, helpers) {
			continue
		}
		c.Subject()
		kind := "DoTransition"
		if st.helper != nil {
			kind = st.helper.Name()
		}
		key := fmt.Sprintf("%s|%s#%d|error-propagates", c.RelName(fn), kind, i+1)
		ok := false
		if errVal != nil && !blank {
			// direct return of the call's tuple also counts
			for _, ret := range an.Returns(fn) {
				if v := an.RetVal(ret, errIdx); v != nil && an.DerivesFrom(v, errVal) {
					ok = true
				}
			}
		}
		if st.call.Referrers() != nil {
			for _, r := range *st.call.Referrers() {
				if _, isRet := r.(*ssa.Return); isRet {
					ok = true
				}
			}
		}
		c.Ob(key, st.call.Pos(), ok, "the error returned by this device step never reaches the function's error result (dropped, or bound to a variable that shadows the result): a failed step is reported to the caller without an error")
		// ... and is not cleared on the way: with this step's error set, no return can be reached with a nil error
		if ok && errVal != nil {
			fl := an.FlowFromFacts(st.call.Block(), nil, errVal)
			var cleared []string
			for _, ret := range fl.ReachedReturns() {
				if v := an.RetVal(ret, errIdx); v != nil && !an.IsNilConst(v) && fl.NilCanReach(v, ret, st.call) {
					cleared = append(cleared, c.PosStr(lastPos(ret.Block())))
				}
			}
			// ... nor replaced by the error of a later device step (a rollback that succeeds would turn the failure into a
			// success)
			for _, ret := range fl.ReachedReturns() {
				v := an.RetVal(ret, errIdx)
				if v == nil {
					continue
				}
				for _, pv := range fl.PossibleValues(v, ret, st.call) {
					ex, isEx := pv.(*ssa.Extract)
					if !isEx || ex == errVal {
						continue
					}
					for _, o := range all {
						if o.fn == fn && o.call != st.call && ex.Tuple == ssa.Value(o.call) && an.CanReach(st.call, o.call) && isRollbackStep(o, all, helpers) {
							cleared = append(cleared, c.PosStr(o.call.Pos())+" (replaced by this step's error)")
						}
					}
				}
			}
			sort.Strings(cleared)
			c.Ob(fmt.Sprintf("%s|%s#%d|error-not-cleared", c.RelName(fn), kind, i+1), st.call.Pos(), len(cleared) == 0,
				"after this device step failed the function can still return a nil error (returns at %v: the error variable is reset on some path): the transition is reported as successful although the device did not reach the destination", cleared)
		}
	}
}

// srcParamOf: the transition's source state: parameter `src` of functions with the Transitioner.Commit signature (evt, src, dst, args).
func srcParamOf(fn *ssa.Function) *ssa.Parameter {
	if len(fn.Params) == 5 && fn.Params[2].Type().String() == "string" && fn.Params[3].Type().String() == "string" && strings.HasPrefix(fn.Params[4].Type().String(), "map[") {
		return fn.Params[2]
	}
	return nil
}

// isRollbackStep: a later step of its function whose destination is the transition's source state.
func isRollbackStep(s devStep, all []devStep, helpers map[*ssa.Function]bool) bool {
	fn := s.fn
	src := srcParamOf(fn)
	if src == nil {
		return false
	}
	isFirst := true
	for _, o := range all {
		if o.fn == fn && o.call != s.call && an.Dominates(o.call, s.call) {
			isFirst = false
		}
	}
	if isFirst {
		return false
	}
	fromSrc := false
	if s.helper == nil {
		fromSrc = dstParams(fn, s.call)[src]
	} else {
		// which parameters of the helper flow into the Dst of its steps; is the matching argument derived from src?
		for _, hs := range stepsOf(s.helper, helpers) {
			if hs.helper != nil {
				continue
			}
			for p := range dstParams(s.helper, hs.call) {
				for i, hp := range s.helper.Params {
					if hp == p && i < len(s.call.Call.Args) {
						for _, l := range an.BackSlice(s.call.Call.Args[i], an.SliceOpts{}) {
							if l.Kind == "param" && l.Val == ssa.Value(src) {
								fromSrc = true
							}
						}
					}
				}
			}
		}
	}
	return fromSrc
}

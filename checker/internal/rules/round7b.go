package rules

import (
	"fmt"
	"go/token"
	"go/types"
	"sort"
	"strings"

	"golang.org/x/tools/go/ssa"

	"verifchk/internal/an"
)

// Rules added after held-out seeding round 7 (task manager, scheduler, environment, configuration side).

// condsMentioning: the control conditions of b (outside loop control) whose expression contains a value accepted by
// pred.
func condsMentioning(c *an.Ctx, b *ssa.BasicBlock, pred func(ssa.Value) bool) []string {
	var mentions func(x ssa.Value, depth int, seen map[ssa.Value]bool) bool
	mentions = func(x ssa.Value, depth int, seen map[ssa.Value]bool) bool {
		if x == nil || depth > 10 || seen[x] {
			return false
		}
		seen[x] = true
		if pred(x) {
			return true
		}
		if u, ok := x.(*ssa.UnOp); ok && u.Op == token.MUL {
			if _, isAl := u.X.(*ssa.Alloc); isAl {
				for _, st := range an.ReachingStores(u) {
					if mentions(st.Val, depth+1, seen) {
						return true
					}
				}
			}
		}
		in, ok := x.(ssa.Instruction)
		if !ok {
			return false
		}
		for _, op := range in.Operands(nil) {
			if *op != nil && mentions(*op, depth+1, seen) {
				return true
			}
		}
		return false
	}
	var out []string
	for _, g := range an.ControlConds(b) {
		if g.LoopHeader || g.LoopExit {
			continue
		}
		if mentions(g.V, 0, map[ssa.Value]bool{}) {
			p := c.PosStr(condPos(g.V))
			dup := false
			for _, e := range out {
				dup = dup || e == p
			}
			if !dup {
				out = append(out, p)
			}
		}
	}
	sort.Strings(out)
	return out
}

func isCallTo(v ssa.Value, methods ...string) bool {
	call, ok := v.(*ssa.Call)
	if !ok {
		return false
	}
	m := an.MethodName(&call.Call)
	for _, n := range methods {
		if m == n {
			return true
		}
	}
	return false
}

// R03l / R12m: an answer that has been asked for is waited for to the end. The channel on which an environment
// receives the tasks' answer to a transition, and the channel on which the task manager receives the answer of the
// command queue, are unbuffered and have exactly one reader: a reader that gives up (a select with another case)
// leaves the writer - the task manager's single event loop, respectively the command queue's worker - blocked for
// good, or, where the channel is closed afterwards, makes it panic.
func awaitedToTheEnd(c *an.Ctx, rule string, which string) {
	switch which {
	case "stateChangedCh":
		c.Rule(rule, "every receive on Environment.stateChangedCh is an unconditional receive (never one case of a select)", 5)
		pk := c.Pkg("core/environment")
		if pk == nil {
			c.Lost("package core/environment")
			return
		}
		for _, fn := range c.ModuleFuncs() {
			if fn.Pkg != pk {
				continue
			}
			an.Instrs(fn, func(in ssa.Instruction) {
				switch x := in.(type) {
				case *ssa.UnOp:
					if x.Op == token.ARROW && isFieldLoadNamed(x.X, "stateChangedCh") {
						c.Subject()
						c.Ob("receive-stateChangedCh|"+c.RelName(an.OutermostParent(fn))+"|plain", x.Pos(), true, "")
					}
				case *ssa.Select:
					for _, st := range x.States {
						if st.Dir == types.RecvOnly && isFieldLoadNamed(st.Chan, "stateChangedCh") {
							c.Subject()
							c.Ob("receive-stateChangedCh|"+c.RelName(an.OutermostParent(fn))+"|plain", x.Pos(), false,
								"the tasks' answer is received in a select that can give up: the answer sent later blocks the task manager's event dispatch (the channel is unbuffered and has no other reader), or is taken for the answer to the next command")
						}
					}
				}
			})
		}
	case "notify":
		c.Rule(rule, "task manager: the answer channel given to CommandQueue.Enqueue is received from unconditionally (never one case of a select)", 3)
		pk := c.Pkg("core/task")
		if pk == nil {
			c.Lost("package core/task")
			return
		}
		for _, fn := range c.ModuleFuncs() {
			if fn.Pkg != pk {
				continue
			}
			for _, ci := range an.CallsNamed(fn, "(*core/controlcommands.CommandQueue).Enqueue") {
				args := ci.Common().Args
				ch := an.Strip(args[len(args)-1])
				if cv, ok := ch.(*ssa.ChangeType); ok {
					ch = cv.X
				}
				c.Subject()
				plain, inSelect := 0, 0
				an.Instrs(fn, func(in ssa.Instruction) {
					switch x := in.(type) {
					case *ssa.UnOp:
						if x.Op == token.ARROW && an.SameValue(an.Strip(x.X), ch) {
							plain++
						}
					case *ssa.Select:
						for _, st := range x.States {
							if an.SameValue(an.Strip(st.Chan), ch) {
								inSelect++
							}
						}
					}
				})
				c.Ob("enqueue-answer|"+c.RelName(fn)+"|received-unconditionally", ci.Pos(), plain > 0 && inSelect == 0,
					"the answer of an enqueued command is received %d time(s) unconditionally and %d time(s) as one case of a select: a reader that gives up leaves the queue's worker blocked on the unbuffered channel (or sending on a closed one), and the command's real outcome is lost", plain, inSelect)
			}
		}
	}
}

func isFieldLoadNamed(v ssa.Value, name string) bool {
	v = an.Strip(v)
	if u, ok := v.(*ssa.UnOp); ok && u.Op == token.MUL {
		return isFieldNamed(u.X, name)
	}
	return isFieldNamed(v, name)
}

// R03m: a terminal Mesos status of an owned task sets it to ERROR however the status was learnt: the ERROR update
// in the status dispatcher is not conditioned on the status' reason, source or message (an update that arrives as
// the answer to a reconciliation is, after a reconnection, the only notice of a task that died meanwhile).
func r03m(c *an.Ctx) {
	c.Rule("R03m", "status dispatcher: the ERROR update for a terminal status does not depend on the status' reason/source/message", 1)
	fn := c.MustFn("core/task", "Manager.handleMessage")
	if fn == nil {
		return
	}
	for _, ci := range an.CallsNamed(fn, "(*core/task.Manager).updateTaskState") {
		if s, ok := an.ConstString(ci.Common().Args[2]); !ok || s != "ERROR" {
			continue
		}
		c.Subject()
		conds := condsMentioning(c, ci.Block(), func(v ssa.Value) bool { return isCallTo(v, "GetReason", "GetSource", "GetMessage") })
		c.Ob("(*core/task.Manager).handleMessage|terminal-status->ERROR|any-reason", ci.Pos(), len(conds) == 0,
			"the ERROR update for a FAILED/LOST/KILLED task is conditioned on the status' reason, source or message (%v): a terminal status learnt that way leaves a dead critical task reported in its last healthy state", conds)
	}
}

// R11i: a task's state reaches its role whenever the task has a role: in updateTaskState the call of the parent's
// UpdateState is conditioned only on the task being in the roster and having a parent.
func r11i(c *an.Ctx) {
	c.Rule("R11i", "Manager.updateTaskState: the parent role is updated whenever the task has one", 1)
	fn := c.MustFn("core/task", "Manager.updateTaskState")
	if fn == nil {
		return
	}
	n := 0
	an.Instrs(fn, func(in ssa.Instruction) {
		call, ok := in.(*ssa.Call)
		if !ok || an.MethodName(&call.Call) != "UpdateState" {
			return
		}
		n++
		c.Subject()
		var extra []string
		for _, g := range an.ControlConds(call.Block()) {
			if g.LoopHeader || g.LoopExit {
				continue
			}
			if isNilTest(g.V) {
				continue
			}
			extra = append(extra, c.PosStr(condPos(g.V)))
		}
		sort.Strings(extra)
		c.Ob("(*core/task.Manager).updateTaskState|parent-always-updated", call.Pos(), len(extra) == 0,
			"the update of the parent role is subject to conditions other than the task and its parent being there (%v): a state change (an ERROR of a critical task, the DONE of a finished one) of a task for which they do not hold never reaches the role tree", extra)
	})
	if n == 0 {
		c.Lost("UpdateState call in Manager.updateTaskState")
	}
}

// isNilTest: v is `x == nil` / `x != nil`.
func isNilTest(v ssa.Value) bool {
	b, ok := v.(*ssa.BinOp)
	if !ok || (b.Op != token.EQL && b.Op != token.NEQ) {
		return false
	}
	return an.IsNilConst(b.X) || an.IsNilConst(b.Y)
}

// R04k: the scheduler's FAILURE handler tells the two kinds of loss apart: an AgentFailedEvent (every task of the
// agent is set to ERROR) is emitted only when no executor is named, an ExecutorFailedEvent only when one is.
func r04k(c *an.Ctx) {
	c.Rule("R04k", "scheduler.failure: AgentFailedEvent only without an executor id, ExecutorFailedEvent only with one", 2)
	fn := c.MustFn("core/task", "schedulerState.failure")
	if fn == nil {
		return
	}
	for _, k := range []struct {
		ctor string
		eq   bool // the executor id must be nil
	}{{"NewAgentFailedEvent", true}, {"NewExecutorFailedEvent", false}} {
		for _, ci := range an.CallsSuffix(fn, "event."+k.ctor) {
			c.Subject()
			ok := an.GuardedByAll(ci.Block(), func(a an.Atom) bool {
				if a.Y == nil || !(an.IsNilConst(a.X) || an.IsNilConst(a.Y)) {
					return false
				}
				x := a.X
				if an.IsNilConst(x) {
					x = a.Y
				}
				if !isFieldLoadNamed(x, "ExecutorID") {
					return false
				}
				return (a.Op == token.EQL) == k.eq
			})
			c.Ob("(*core/task.schedulerState).failure|"+k.ctor+"|branch", ci.Pos(), ok,
				"%s is emitted on a path that did not establish that the failure %s an executor: the failure of one executor then takes down every task of its agent (also those of other environments), or the loss of an agent is handled as that of a single executor",
				k.ctor, map[bool]string{true: "does not name", false: "names"}[k.eq])
		}
	}
}

// cacheproxy pass-through: the configuration cache proxy caches the detector inventory only. The listed methods
// answer with exactly what the same method of the wrapped service answers for exactly the arguments given - they
// keep nothing and hand out nothing ahead of time.
func passThrough(c *an.Ctx, rule, doc string, methods []string, why string) {
	c.Rule(rule, doc, len(methods))
	for _, m := range methods {
		fn := c.MustFn("apricot/cacheproxy", "Service."+m)
		if fn == nil {
			continue
		}
		c.Subject()
		var calls []*ssa.Call
		other := 0
		an.Instrs(fn, func(in ssa.Instruction) {
			switch x := in.(type) {
			case *ssa.Call:
				if _, isB := x.Call.Value.(*ssa.Builtin); isB {
					return
				}
				if x.Call.IsInvoke() && x.Call.Method.Name() == m {
					calls = append(calls, x)
				} else {
					other++
				}
			case *ssa.Go, *ssa.Defer, *ssa.Select, *ssa.Send, *ssa.MapUpdate:
				other++
			}
		})
		var bad []string
		if len(calls) != 1 {
			bad = append(bad, fmt.Sprintf("%d call(s) of the wrapped service's %s", len(calls), m))
		}
		if other > 0 {
			bad = append(bad, fmt.Sprintf("%d other call(s)/concurrency or map operation(s)", other))
		}
		for _, call := range calls {
			if !isFieldLoadNamed(call.Call.Value, "base") {
				bad = append(bad, "the call is not made on the wrapped service")
			}
			params := fn.Params[1:]
			if len(call.Call.Args) != len(params) {
				bad = append(bad, "arguments differ")
			} else {
				for i, a := range call.Call.Args {
					if a != ssa.Value(params[i]) {
						bad = append(bad, fmt.Sprintf("argument %d is not the method's own parameter %s", i, params[i].Name()))
					}
				}
			}
			for _, r := range an.Returns(fn) {
				for i := range r.Results {
					v := an.RetVal(r, i)
					okv := v == ssa.Value(call)
					if ex, isEx := v.(*ssa.Extract); isEx && ex.Tuple == ssa.Value(call) && ex.Index == i {
						okv = true
					}
					if !okv {
						bad = append(bad, fmt.Sprintf("result %d is not the wrapped service's result", i))
					}
				}
			}
		}
		sort.Strings(bad)
		c.Ob("apricot/cacheproxy.Service."+m+"|pass-through", fn.Pos(), len(bad) == 0,
			"the cache proxy's %s is not a plain pass-through (%s): %s", m, strings.Join(bad, "; "), why)
	}
}

// R04l: on a cache miss GetDetectorsForHosts asks the wrapped service about all the hosts it was asked about.
func r04l(c *an.Ctx) {
	c.Rule("R04l", "cacheproxy.GetDetectorsForHosts: a miss is delegated with the full host list", 1)
	fn := c.MustFn("apricot/cacheproxy", "Service.GetDetectorsForHosts")
	if fn == nil {
		return
	}
	n := 0
	an.Instrs(fn, func(in ssa.Instruction) {
		call, ok := in.(*ssa.Call)
		if !ok || !call.Call.IsInvoke() || call.Call.Method.Name() != "GetDetectorsForHosts" {
			return
		}
		n++
		c.Subject()
		c.Ob("apricot/cacheproxy.Service.GetDetectorsForHosts|delegates-all-hosts", call.Pos(),
			len(call.Call.Args) == 1 && call.Call.Args[0] == ssa.Value(fn.Params[1]),
			"on a cache miss the wrapped service is asked about something other than the host list given: detectors of the hosts left out are not seen as part of the environment, and a second environment may take them")
	})
	if n == 0 {
		c.Lost("delegation in cacheproxy.Service.GetDetectorsForHosts")
	}
}

// R04j: every environment starts from its own query of the configuration store: the maps behind GlobalDefaults and
// GlobalVars are the direct results of the.ConfSvc().GetDefaults()/GetVars() made in newEnvironment (MakeMapWithMap
// adopts the map it is given, and the environment writes into it).
func r04j(c *an.Ctx) {
	c.Rule("R04j", "newEnvironment: GlobalDefaults/GlobalVars wrap the result of a ConfSvc query made for this environment", 2)
	fn := c.MustFn("core/environment", "newEnvironment")
	if fn == nil {
		return
	}
	for _, k := range []struct{ field, method string }{{"GlobalDefaults", "GetDefaults"}, {"GlobalVars", "GetVars"}} {
		found := false
		an.Instrs(fn, func(in ssa.Instruction) {
			st, ok := in.(*ssa.Store)
			if !ok || found {
				return
			}
			fa, ok := st.Addr.(*ssa.FieldAddr)
			if !ok || fieldNameAt(fa) != k.field {
				return
			}
			found = true
			c.Subject()
			okv := false
			why := "not built by gera.MakeMapWithMap / MakeMapWithMapCopy"
			v := an.Strip(st.Val)
			if mi, isMI := v.(*ssa.MakeInterface); isMI {
				v = an.Strip(mi.X)
			}
			if call, isCall := v.(*ssa.Call); isCall && strings.Contains(an.CalleeName(&call.Call), "gera.MakeMapWithMap") && len(call.Call.Args) == 1 {
				src := an.Strip(call.Call.Args[0])
				if q, isQ := src.(*ssa.Call); isQ && q.Call.IsInvoke() && q.Call.Method.Name() == k.method {
					okv = true
				} else if strings.Contains(an.CalleeName(&call.Call), "MakeMapWithMapCopy") {
					okv = true
				} else {
					why = "the wrapped map is not the direct result of " + k.method + "()"
				}
			}
			c.Ob("core/environment.newEnvironment|"+k.field+"|own-query", st.Pos(), okv,
				"%s of a new environment: %s: a map kept from an earlier query is shared between environments, and what one environment sets in it (run counters, overrides) is seen by the others", k.field, why)
		})
		if !found {
			c.Lost("assignment of " + k.field + " in newEnvironment")
		}
	}
}

// R14l: the base configuration stack of an environment is its global vars over its global defaults.
func r14l(c *an.Ctx) {
	c.Rule("R14l", "newEnvironment: BaseConfigStack is built from GlobalVars wrapping GlobalDefaults", 1)
	fn := c.MustFn("core/environment", "newEnvironment")
	if fn == nil {
		return
	}
	n := 0
	for _, ci := range an.Calls(fn, func(name string, ci ssa.CallInstruction) bool {
		return an.MethodName(ci.Common()) == "WrappedAndFlattened"
	}) {
		n++
		c.Subject()
		cc := ci.Common()
		var recv, arg ssa.Value
		if cc.IsInvoke() {
			recv, arg = cc.Value, cc.Args[0]
		} else {
			recv, arg = cc.Args[0], cc.Args[1]
		}
		// a value "is" the environment's vars (defaults) when it is computed - through the map wrappers - from the
		// GlobalVars (GlobalDefaults) field or from the result of the configuration service's GetVars() (GetDefaults())
		// that the field is filled from
		var kinds func(v ssa.Value, out map[string]bool, depth int)
		kinds = func(v ssa.Value, out map[string]bool, depth int) {
			if v == nil || depth > 10 {
				out["?"] = true
				return
			}
			switch x := an.Strip(v).(type) {
			case *ssa.Call:
				m := an.MethodName(&x.Call)
				switch {
				case x.Call.IsInvoke() && m == "GetVars":
					out["vars"] = true
				case x.Call.IsInvoke() && m == "GetDefaults":
					out["defaults"] = true
				case x.Call.IsInvoke():
					kinds(x.Call.Value, out, depth+1) // Raw(), Copy(), ... of a map wrapper
				case len(x.Call.Args) > 0:
					kinds(x.Call.Args[0], out, depth+1) // MakeMapWithMap(m), (*WrapMap).Raw(w)
				default:
					out["?"] = true
				}
			case *ssa.MakeInterface:
				kinds(x.X, out, depth+1)
			case *ssa.TypeAssert:
				kinds(x.X, out, depth+1)
			case *ssa.Phi:
				for _, e := range x.Edges {
					kinds(e, out, depth+1)
				}
			case *ssa.UnOp:
				if x.Op != token.MUL {
					out["?"] = true
					return
				}
				switch a := x.X.(type) {
				case *ssa.FieldAddr:
					switch fieldNameAt(a) {
					case "GlobalVars":
						out["vars"] = true
					case "GlobalDefaults":
						out["defaults"] = true
					default:
						out["?"] = true
					}
				case *ssa.Alloc:
					sts := an.ReachingStores(x)
					if len(sts) == 0 {
						out["?"] = true
					}
					for _, st := range sts {
						kinds(st.Val, out, depth+1)
					}
				default:
					out["?"] = true
				}
			default:
				out["?"] = true
			}
		}
		is := func(v ssa.Value, want string) bool {
			k := map[string]bool{}
			kinds(v, k, 0)
			return len(k) == 1 && k[want]
		}
		ok := is(recv, "vars") && is(arg, "defaults")
		c.Ob("core/environment.newEnvironment|base-config-stack-order", ci.Pos(), ok,
			"the base configuration stack must be the environment's GlobalVars wrapped around its GlobalDefaults (the receiver wins): built the other way round, a default from the configuration store overrides the var of the same name")
	}
	if n == 0 {
		c.Lost("WrappedAndFlattened in newEnvironment")
	}
}

// R14k: every plain value under the queried path is a definition, the empty one too: in getStringMap every entry of
// type IT_Value is put into the returned map on every path through the loop body.
func r14k(c *an.Ctx) {
	c.Rule("R14k", "apricot/local getStringMap: every IT_Value entry is inserted, whatever its value", 1)
	fn := c.MustFn("apricot/local", "Service.getStringMap")
	if fn == nil {
		return
	}
	c.Subject()
	// the type test
	var start []*ssa.BasicBlock
	var hdr *ssa.BasicBlock
	for _, b := range fn.Blocks {
		ifi, ok := b.Instrs[len(b.Instrs)-1].(*ssa.If)
		if !ok {
			continue
		}
		bo, ok := ifi.Cond.(*ssa.BinOp)
		if !ok || (bo.Op != token.NEQ && bo.Op != token.EQL) {
			continue
		}
		if !(isCallTo(bo.X, "Type") || isCallTo(bo.Y, "Type")) {
			continue
		}
		h, body := an.EnclosingLoop(b)
		if h == nil || len(body) == 0 {
			continue
		}
		hdr = h
		if bo.Op == token.NEQ {
			start = append(start, b.Succs[1])
		} else {
			start = append(start, b.Succs[0])
		}
	}
	if hdr == nil || len(start) == 0 {
		c.Lost("type test of the entries in getStringMap")
		return
	}
	hasInsert := func(b *ssa.BasicBlock) bool {
		for _, in := range b.Instrs {
			if _, ok := in.(*ssa.MapUpdate); ok {
				return true
			}
		}
		return false
	}
	skipped := false
	seen := map[*ssa.BasicBlock]bool{}
	var walk func(b *ssa.BasicBlock)
	walk = func(b *ssa.BasicBlock) {
		if seen[b] || skipped {
			return
		}
		seen[b] = true
		if b == hdr {
			skipped = true
			return
		}
		if hasInsert(b) {
			return
		}
		for _, s := range b.Succs {
			walk(s)
		}
	}
	for _, s := range start {
		walk(s)
	}
	c.Ob("(*apricot/local.Service).getStringMap|every-value-inserted", fn.Pos(), !skipped,
		"an entry of type IT_Value can be passed over without being put into the map: a key defined with such a value (the empty string is a definition) is taken for undefined, and a lower-ranking source shows through")
}

// R14o: the variable maps of a task class are shared by all tasks of the class: the task never hands them (their
// Raw() map) to the template engine, which rewrites the map it is given in place; it templates copies.
func r14o(c *an.Ctx) {
	c.Rule("R14o", "core/task: maps handed to template.WrapMapItems are never a class map's Raw()", 3)
	pk := c.Pkg("core/task")
	if pk == nil {
		c.Lost("package core/task")
		return
	}
	for _, fn := range c.ModuleFuncs() {
		if fn.Pkg != pk {
			continue
		}
		for _, ci := range an.CallsSuffix(fn, "configuration/template.WrapMapItems") {
			c.Subject()
			raw := ""
			for _, v := range roleValues(ci.Common().Args[0], map[ssa.Value]bool{}) {
				if call, ok := an.Strip(v).(*ssa.Call); ok && an.MethodName(&call.Call) == "Raw" {
					raw = c.PosStr(call.Pos())
				}
			}
			c.Ob("WrapMapItems|"+c.RelName(fn)+"|not-a-shared-map", ci.Pos(), raw == "",
				"the map given to the template engine is the Raw() map of a shared store (%s): the templated values replace the expressions in place, so the first task's values are what every later task (and every later run) of that class sees", raw)
		}
	}
}

// R05h: a task class loaded again replaces the stored one: UpdateClass writes the class it is given into the
// repository on every path (the resources, limits, ports and constraints used for placement come from there).
func r05h(c *an.Ctx) {
	c.Rule("R05h", "Classes.UpdateClass: the given class is stored on every path", 1)
	fn := c.MustFn("core/task/taskclass", "Classes.UpdateClass")
	if fn == nil {
		return
	}
	c.Subject()
	class := fn.Params[2]
	writes := func(in ssa.Instruction) bool {
		switch x := in.(type) {
		case *ssa.MapUpdate:
			return x.Value == ssa.Value(class)
		case *ssa.Store:
			if u, ok := x.Val.(*ssa.UnOp); ok && u.Op == token.MUL && u.X == ssa.Value(class) {
				return true
			}
		}
		return false
	}
	var through []ssa.Instruction
	an.Instrs(fn, func(in ssa.Instruction) {
		if writes(in) {
			through = append(through, in)
		}
	})
	ok := len(through) > 0 && len(fn.Blocks) > 0 && !an.PathFromEntryAvoiding(fn, func(in ssa.Instruction) bool {
		_, isRet := in.(*ssa.Return)
		return isRet
	}, through)
	c.Ob("(*core/task/taskclass.Classes).UpdateClass|stored-on-every-path", fn.Pos(), ok,
		"UpdateClass can return without having stored the class it was given (%d storing instruction(s)): tasks are then placed with the resources, limits, ports or constraints of an earlier version of the class", len(through))
}

// R05i: a port is chosen from what is left of the offer at that moment: between the resources.Ports(...) reading a
// port is picked from and the picking (Min), nothing is subtracted from the remaining resources.
func r05i(c *an.Ctx) {
	c.Rule("R05i", "makeTaskForMesosResources: every port is picked from a reading of the remaining ports taken after all earlier subtractions", 2)
	fn := c.MustFn("core/task", "makeTaskForMesosResources")
	if fn == nil {
		return
	}
	var subs []ssa.Instruction
	an.Instrs(fn, func(in ssa.Instruction) {
		if call, ok := in.(*ssa.Call); ok && an.MethodName(&call.Call) == "Subtract" {
			subs = append(subs, call)
		}
	})
	for _, ci := range an.Calls(fn, func(name string, ci ssa.CallInstruction) bool { return an.MethodName(ci.Common()) == "Min" }) {
		call, ok := ci.(*ssa.Call)
		if !ok {
			continue
		}
		var reads []*ssa.Call
		for _, l := range an.BackSlice(call.Call.Args[0], an.SliceOpts{LeafCall: func(name string, x *ssa.Call) bool {
			return strings.HasSuffix(name, "resources.Ports")
		}}) {
			if x, ok := l.Val.(*ssa.Call); ok && strings.HasSuffix(an.CalleeName(&x.Call), "resources.Ports") {
				reads = append(reads, x)
			}
		}
		if len(reads) == 0 {
			continue
		}
		c.Subject()
		var stale []string
		for _, p := range reads {
			for _, s := range subs {
				if an.CanReach(p, s) && an.CanReachAvoiding(s, call, []ssa.Instruction{p}) {
					stale = append(stale, c.PosStr(s.Pos()))
				}
			}
		}
		sort.Strings(stale)
		c.Ob("core/task.makeTaskForMesosResources|port-from-current-remainder|"+fmt.Sprint(len(reads)), call.Pos(), len(stale) == 0,
			"a port is picked from a reading of the offer's ports that predates a subtraction (at %v): the port picked may be one already handed to a channel of the same task", stale)
	}
}

// R05j: MergeInbound never writes a lower-priority channel over one that is already in the result: the role's
// channel definition wins over the class's.
func r05j(c *an.Ctx) {
	c.Rule("R05j", "channel.MergeInbound: entries of the lower-priority list are only appended, never written over a present one", 1)
	fn := c.MustFn("core/task/channel", "MergeInbound")
	if fn == nil {
		return
	}
	c.Subject()
	lp := fn.Params[1]
	var bad []string
	an.Instrs(fn, func(in ssa.Instruction) {
		st, ok := in.(*ssa.Store)
		if !ok {
			return
		}
		ia, ok := st.Addr.(*ssa.IndexAddr)
		if !ok {
			return
		}
		base := an.Strip(ia.X)
		if _, fresh := base.(*ssa.Alloc); fresh {
			return // the backing array of append's variadic argument
		}
		if sl, isSl := base.(*ssa.Slice); isSl {
			if _, fresh := sl.X.(*ssa.Alloc); fresh {
				return
			}
		}
		if an.DerivesFrom(st.Val, lp) || elemOf(st.Val, lp, 0) {
			bad = append(bad, c.PosStr(st.Pos()))
		}
	})
	sort.Strings(bad)
	c.Ob("core/task/channel.MergeInbound|no-overwrite", fn.Pos(), len(bad) == 0,
		"a channel of the lower-priority list is written over an entry of the result (at %v): the class's definition of a channel then replaces the role's (other port type, transport, addressing), and the ports requested and bound no longer match what the role declares", bad)
}

// elemOf: v is (a copy, through local variables, of) an element of the slice parameter p.
func elemOf(v ssa.Value, p *ssa.Parameter, depth int) bool {
	if depth > 6 {
		return false
	}
	switch x := v.(type) {
	case *ssa.UnOp:
		if x.Op != token.MUL {
			return false
		}
		switch a := x.X.(type) {
		case *ssa.IndexAddr:
			return an.Strip(a.X) == ssa.Value(p)
		case *ssa.Alloc:
			if a.Referrers() == nil {
				return false
			}
			for _, r := range *a.Referrers() {
				if st, ok := r.(*ssa.Store); ok && st.Addr == ssa.Value(a) && elemOf(st.Val, p, depth+1) {
					return true
				}
			}
		}
	case *ssa.Phi:
		for _, e := range x.Edges {
			if elemOf(e, p, depth+1) {
				return true
			}
		}
	}
	return false
}

// R13i: the role's inbound channels take precedence over the class's: GetWantsForDescriptor merges with the
// descriptor's RoleBind as the high-priority list and the class's Bind as the low-priority one.
func r13i(c *an.Ctx) {
	c.Rule("R13i", "GetWantsForDescriptor: MergeInbound(role's bind, class's bind) in that order", 1)
	fn := c.MustFn("core/task", "Manager.GetWantsForDescriptor")
	if fn == nil {
		return
	}
	n := 0
	for _, ci := range an.CallsSuffix(fn, "core/task/channel.MergeInbound") {
		n++
		c.Subject()
		a := ci.Common().Args
		ok := isFieldLoadNamed(a[0], "RoleBind") && isFieldLoadNamed(a[1], "Bind")
		c.Ob("(*core/task.Manager).GetWantsForDescriptor|merge-order", ci.Pos(), ok,
			"the inbound channels a task asks ports for must be the role's (RoleBind) merged over the class's (Bind): the other way round, the class's definition of a channel the role redefines decides the port request, while the role's definition is what the task later binds")
	}
	if n == 0 {
		c.Lost("MergeInbound in GetWantsForDescriptor")
	}
}

// R05k: what a task template asks for is what was written: Class.UnmarshalYAML does not rewrite the unmarshalled
// Wants (or Limits) before storing them.
func r05k(c *an.Ctx) {
	c.Rule("R05k", "Class.UnmarshalYAML: the unmarshalled Wants/Limits are stored as read", 1)
	fn := c.MustFn("core/task/taskclass", "Class.UnmarshalYAML")
	if fn == nil {
		return
	}
	c.Subject()
	var bad []string
	an.Instrs(fn, func(in ssa.Instruction) {
		st, ok := in.(*ssa.Store)
		if !ok {
			return
		}
		// a store into aux.Wants.* / aux.Limits.* or through a pointer loaded from there
		var inAux func(a ssa.Value, depth int) bool
		inAux = func(a ssa.Value, depth int) bool {
			if depth > 6 {
				return false
			}
			switch x := a.(type) {
			case *ssa.FieldAddr:
				n := fieldNameAt(x)
				if n == "Wants" || n == "Limits" {
					if _, isAlloc := x.X.(*ssa.Alloc); isAlloc {
						return true
					}
				}
				return inAux(x.X, depth+1)
			case *ssa.UnOp:
				if x.Op == token.MUL {
					return inAux(x.X, depth+1)
				}
			case *ssa.IndexAddr:
				return inAux(x.X, depth+1)
			}
			return false
		}
		if inAux(st.Addr, 0) {
			bad = append(bad, c.PosStr(st.Pos()))
		}
	})
	sort.Strings(bad)
	c.Ob("(*core/task/taskclass.Class).UnmarshalYAML|wants-as-read", fn.Pos(), len(bad) == 0,
		"the resources a task template asks for (or its limits) are rewritten after unmarshalling (at %v): the task is then placed on an offer that does not cover what the template asks for", bad)
}

// filterOnlyByType (R06j / R08m): Hooks.FilterCalls / FilterTasks select by kind only: every hook of the asked kind is
// in the answer. (A hook task left out of FilterTasks at teardown is neither triggered nor part of the tasks that
// are released first; a call left out of FilterCalls is never started, awaited or cancelled.)
func filterOnlyByType(c *an.Ctx, rule string, which string) {
	c.Rule(rule, "Hooks."+which+": an element is kept whenever it is of the asked kind, no other condition", 1)
	fn := c.MustFn("core/workflow/callable", "Hooks."+which)
	if fn == nil {
		return
	}
	c.Subject()
	var extra []string
	n := 0
	an.Instrs(fn, func(in ssa.Instruction) {
		call, ok := in.(*ssa.Call)
		if !ok {
			return
		}
		if b, isB := call.Call.Value.(*ssa.Builtin); !isB || b.Name() != "append" {
			return
		}
		n++
		for _, g := range an.ControlConds(call.Block()) {
			if g.LoopHeader || g.LoopExit {
				continue
			}
			if ex, isEx := g.V.(*ssa.Extract); isEx && ex.Index == 1 {
				if _, isTA := ex.Tuple.(*ssa.TypeAssert); isTA {
					continue
				}
			}
			extra = append(extra, c.PosStr(condPos(g.V)))
		}
	})
	if _, early := loopEarlyExits(c, fn, nil); len(early) > 0 {
		extra = append(extra, early...)
	}
	sort.Strings(extra)
	c.Ob("core/workflow/callable.Hooks."+which+"|kind-only", fn.Pos(), n > 0 && len(extra) == 0,
		"a hook of the asked kind is kept only under further conditions (%v): the hooks left out are not run at their moment (a DESTROY hook task is then neither triggered nor killed with the rest; a call is neither started nor awaited)", extra)
}

// R12n: a reply is attributed to the target it names itself: the sender handed to Servent.ProcessResponse is put
// together from the incoming message (agent and executor of the event, task id of the response) and from nothing the
// core remembers about the task.
func r12n(c *an.Ctx) {
	c.Rule("R12n", "incomingMessageHandler: the sender of a response is built from the message alone", 2)
	fn := c.MustFn("core/task", "schedulerState.incomingMessageHandler")
	if fn == nil {
		return
	}
	for _, f := range an.WithAnon(fn) {
		for _, ci := range an.CallsNamed(f, "(*core/controlcommands.Servent).ProcessResponse") {
			c.Subject()
			args := ci.Common().Args
			sender := args[len(args)-1]
			var bad []string
			check := func(cell ssa.Value) {
				refs := cell.Referrers()
				if refs == nil {
					return
				}
				for _, r := range *refs {
					st, ok := r.(*ssa.Store)
					if ok && st.Addr == cell {
						bad = append(bad, c.PosStr(st.Pos())+": the sender is replaced as a whole")
					}
				}
			}
			// resolve the cell(s) the sender value is loaded from
			v := an.Strip(sender)
			if u, ok := v.(*ssa.UnOp); ok && u.Op == token.MUL {
				cell := u.X
				if fv, isFV := cell.(*ssa.FreeVar); isFV {
					for _, p := range an.WithAnon(fn) {
						an.Instrs(p, func(in ssa.Instruction) {
							if mc, ok := in.(*ssa.MakeClosure); ok && mc.Fn == ssa.Value(f) {
								if b := an.Binding(mc, fv); b != nil {
									check(b)
								}
							}
						})
					}
					check(fv)
				} else {
					check(cell)
				}
			}
			for _, l := range an.BackSlice(sender, an.SliceOpts{}) {
				if call, ok := l.Val.(*ssa.Call); ok && isCallTo(call, "GetTask", "GetMesosCommandTarget", "getByTaskId") {
					bad = append(bad, c.PosStr(call.Pos())+": taken from the roster")
				}
			}
			sort.Strings(bad)
			c.Ob("ProcessResponse|"+c.RelName(an.OutermostParent(f))+"|sender-from-message", ci.Pos(), len(bad) == 0,
				"the sender a response is attributed to is not the one the message names (%s): a reply is then credited to the pending call of another target, or a late reply of a task that was re-launched elsewhere completes the new command", strings.Join(bad, "; "))
		}
	}
}

package rules

import (
	"fmt"
	"go/token"
	"go/types"
	"sort"
	"strings"

	"golang.org/x/tools/go/ssa"

	"verifchk/internal/an"
)

// Rules added after held-out seeding round 9.

// noCallTo (a family of who-may-call rules with an expected count of zero): fn (with its closures) contains no call
// whose callee name satisfies bad.
func callsMatching(c *an.Ctx, fn *ssa.Function, bad func(name string, cc *ssa.CallCommon) bool) []string {
	var out []string
	for _, f := range an.WithAnon(fn) {
		an.Instrs(f, func(in ssa.Instruction) {
			if ci, ok := in.(ssa.CallInstruction); ok {
				if bad(an.CalleeName(ci.Common()), ci.Common()) {
					out = append(out, c.PosStr(ci.Pos()))
				}
			}
		})
	}
	sort.Strings(out)
	return out
}

// R01q: a request is judged against the state the previous one left: TryTransition asks the state machine whether the
// event is possible (Can/Cannot/Is/Current used as a test) only while it holds the transition lock.
func r01q(c *an.Ctx) {
	c.Rule("R01q", "TryTransition: the state machine is consulted only under the transition lock", 1)
	fn := c.MustFn("core/environment", "Environment.TryTransition")
	if fn == nil {
		return
	}
	c.Subject()
	var locks []ssa.Instruction
	an.Instrs(fn, func(in ssa.Instruction) {
		if call, ok := in.(*ssa.Call); ok {
			m := an.MethodName(&call.Call)
			if (m == "Lock" || m == "TryLock") && len(an.Args(&call.Call)) > 0 && isFieldNamed(an.Args(&call.Call)[0], "transitionMutex") {
				locks = append(locks, call)
			}
		}
	})
	var bad []string
	an.Instrs(fn, func(in ssa.Instruction) {
		call, ok := in.(*ssa.Call)
		if !ok {
			return
		}
		m := an.MethodName(&call.Call)
		if m != "Can" && m != "Cannot" && m != "Is" && m != "Event" {
			return
		}
		a := an.Args(&call.Call)
		if len(a) == 0 || !isFieldLoadNamed(a[0], "Sm") {
			return
		}
		dom := false
		for _, l := range locks {
			if an.Dominates(l, call) {
				dom = true
			}
		}
		if !dom {
			bad = append(bad, c.PosStr(call.Pos()))
		}
	})
	sort.Strings(bad)
	c.Ob("(*core/environment.Environment).TryTransition|fsm-under-lock", fn.Pos(), len(bad) == 0 && len(locks) > 0,
		"the state machine is asked about (or given) an event before the transition lock is taken (at %v): while another transition is in flight every event reads as impossible, so a request that is legal in the state that transition leaves is refused instead of waiting its turn", bad)
}

// R02y: GetActiveTasks selects by status only: a task that is ACTIVE is commanded whatever state it reports (a task in
// ERROR that is silently left out of a command never answers it, and the transition succeeds without it).
func r02y(c *an.Ctx) {
	c.Rule("R02y", "workflow.GetActiveTasks: the filter looks at the status only", 1)
	fn := c.MustFn(wfPkg, "GetActiveTasks")
	if fn == nil {
		return
	}
	c.Subject()
	bad := callsMatching(c, fn, func(_ string, cc *ssa.CallCommon) bool {
		m := an.MethodName(cc)
		return m == "GetState" || m == "IsCritical" || m == "IsEnabled"
	})
	n := len(callsMatching(c, fn, func(_ string, cc *ssa.CallCommon) bool { return an.MethodName(cc) == "GetStatus" }))
	c.Ob("core/workflow.GetActiveTasks|status-only", fn.Pos(), len(bad) == 0 && n > 0,
		"the set of tasks a transition commands depends on more than their status (at %v): a critical task left out of the command never acknowledges it, and the transition is reported successful without it", bad)
}

// R02z: every per-target error of a command is classified: in transitionTasks / configureTasks no error of the
// consolidated answer is passed over on a count.
func r02z(c *an.Ctx) {
	c.Rule("R02z", "transitionTasks/configureTasks: the classification of the per-target errors does not depend on a counter", 2)
	for _, name := range []string{"Manager.transitionTasks", "Manager.configureTasks"} {
		fn := c.MustFn("core/task", name)
		if fn == nil {
			continue
		}
		c.Subject()
		var bad []string
		n := 0
		an.Instrs(fn, func(in ssa.Instruction) {
			// reads of the Critical trait inside the loop over the errors
			fa, ok := in.(*ssa.FieldAddr)
			var isCrit bool
			if ok && fieldNameAt(fa) == "Critical" {
				isCrit = true
			}
			if f, isF := in.(*ssa.Field); isF {
				if st, isSt := f.X.Type().Underlying().(*types.Struct); isSt && f.Field < st.NumFields() && st.Field(f.Field).Name() == "Critical" {
					isCrit = true
				}
			}
			if !isCrit || !an.InLoop(in.Block()) {
				return
			}
			n++
			bad = append(bad, condsMentioning(c, in.Block(), func(v ssa.Value) bool {
				bo, isBO := v.(*ssa.BinOp)
				if !isBO {
					return false
				}
				switch bo.Op {
				case token.LSS, token.GTR, token.LEQ, token.GEQ:
				default:
					return false
				}
				_, kx := an.ConstInt(bo.X)
				_, ky := an.ConstInt(bo.Y)
				if !kx && !ky {
					return false
				}
				// comparisons of a length with a constant are about the collection, not a running count
				for _, o := range []ssa.Value{bo.X, bo.Y} {
					if call, isCall := o.(*ssa.Call); isCall {
						if b, isB := call.Call.Value.(*ssa.Builtin); isB && b.Name() == "len" {
							return false
						}
					}
				}
				return true
			})...)
		})
		c.Ob("(*core/task."+name+")|every-error-classified", fn.Pos(), len(bad) == 0 && n > 0,
			"whether a target's error is classified (critical or not) depends on a running count (%v): beyond that count a critical task's failure is skipped, in map order, and the transition succeeds", uniq(bad))
	}
}

// R03t: the scheduler's FAILURE handler always tells the task manager: from the test that names an executor (an
// agent) every path to the return passes the emission of the corresponding event.
func r03t(c *an.Ctx) {
	c.Rule("R03t", "scheduler.failure: every path of a branch emits that branch's event", 2)
	fn := c.MustFn("core/task", "schedulerState.failure")
	if fn == nil {
		return
	}
	for _, k := range []struct{ ctor, field string }{{"NewExecutorFailedEvent", "ExecutorID"}, {"NewAgentFailedEvent", "AgentID"}} {
		var sends []ssa.Instruction
		for _, ci := range an.CallsSuffix(fn, "event."+k.ctor) {
			sends = append(sends, ci)
		}
		if len(sends) == 0 {
			c.Lost(k.ctor + " in schedulerState.failure")
			continue
		}
		// the branch: the outermost `id != nil` test of that id whose true side leads to (dominates) the emission
		var branch *ssa.BasicBlock
		for _, b := range fn.Blocks {
			ifi, ok := b.Instrs[len(b.Instrs)-1].(*ssa.If)
			if !ok {
				continue
			}
			bo, ok := ifi.Cond.(*ssa.BinOp)
			if !ok || (bo.Op != token.NEQ && bo.Op != token.EQL) || !(an.IsNilConst(bo.X) || an.IsNilConst(bo.Y)) {
				continue
			}
			v := bo.X
			if an.IsNilConst(v) {
				v = bo.Y
			}
			if !isFieldLoadNamed(v, k.field) {
				continue
			}
			succ := b.Succs[0]
			if bo.Op == token.EQL {
				succ = b.Succs[1]
			}
			if succ != sends[0].Block() && !succ.Dominates(sends[0].Block()) {
				continue
			}
			if branch == nil || succ.Dominates(branch) {
				branch = succ
			}
		}
		if branch == nil {
			c.Lost("the test that selects the " + k.ctor + " branch in schedulerState.failure")
			continue
		}
		c.Subject()
		ok := an.MustPassBeforeExit(branch.Instrs[0], sends)
		c.Ob("(*core/task.schedulerState).failure|"+k.ctor+"|on-every-path", sends[0].Pos(), ok,
			"a path through the branch that handles this failure returns without emitting %s: the tasks of the lost executor (agent) are never set to ERROR and the environment keeps reporting its healthy state", k.ctor)
	}
}

// R17t: a child that did not exit cleanly has failed: the exit code of a process is only ever compared for
// (in)equality (a process killed by a signal reports a negative code).
func r17t(c *an.Ctx) {
	c.Rule("R17t", "executor/executable: ProcessState.ExitCode() is only compared with == / !=", 1)
	pk := c.Pkg("executor/executable")
	if pk == nil {
		c.Lost("package executor/executable")
		return
	}
	c.Subject()
	var bad []string
	n := 0
	for _, fn := range c.ModuleFuncs() {
		if fn.Pkg != pk {
			continue
		}
		an.Instrs(fn, func(in ssa.Instruction) {
			bo, ok := in.(*ssa.BinOp)
			if !ok {
				return
			}
			isExit := func(v ssa.Value) bool {
				call, isCall := an.Strip(v).(*ssa.Call)
				return isCall && an.MethodName(&call.Call) == "ExitCode"
			}
			if !isExit(bo.X) && !isExit(bo.Y) {
				return
			}
			n++
			switch bo.Op {
			case token.LSS, token.GTR, token.LEQ, token.GEQ:
				bad = append(bad, c.PosStr(bo.Pos()))
			}
		})
	}
	sort.Strings(bad)
	c.Ob("executor/executable|exit-code-equality-only", token.NoPos, len(bad) == 0,
		"a process exit code is compared by order (at %v): a child terminated by a signal has exit code -1, is taken for a clean exit and reported TASK_FINISHED - the core marks the role DONE instead of ERROR (%d comparison(s) seen)", bad, n)
}

// R05o: a multi-valued agent attribute satisfies a constraint only by one of its whole elements: Attributes.Satisfy
// does no substring or prefix matching.
func r05o(c *an.Ctx) {
	c.Rule("R05o", "Attributes.Satisfy: no substring/prefix matching of attribute values", 1)
	fn := c.MustFn("core/task/constraint", "Attributes.Satisfy")
	if fn == nil {
		return
	}
	c.Subject()
	bad := callsMatching(c, fn, func(n string, cc *ssa.CallCommon) bool {
		switch n {
		case "strings.Contains", "strings.HasPrefix", "strings.HasSuffix", "strings.Index", "strings.ContainsAny", "strings.EqualFold":
			// a test for the separator itself (a constant needle) is not a match of values
			if len(cc.Args) == 2 {
				if _, isK := cc.Args[1].(*ssa.Const); isK {
					return false
				}
			}
			return true
		}
		return false
	})
	c.Ob("core/task/constraint.Attributes.Satisfy|whole-elements", fn.Pos(), len(bad) == 0,
		"attribute values are matched by substring, prefix or case folding (at %v): an agent whose attribute merely contains the required value (flp10 for flp1) satisfies the constraint", bad)
}

// R05p: only a BASIC class can be promoted to a hook: Task.GetControlMode answers HOOK only under the test that the
// class's own mode is BASIC (every other class is controllable and needs its control port).
func r05p(c *an.Ctx) {
	c.Rule("R05p", "Task.GetControlMode: HOOK only for a class whose mode is BASIC", 1)
	fn := c.MustFn("core/task", "Task.GetControlMode")
	if fn == nil {
		return
	}
	c.Subject()
	hook := enumConsts(c, "common/controlmode", "ControlMode")["HOOK"]
	basic := enumConsts(c, "common/controlmode", "ControlMode")["BASIC"]
	if _, ok := enumConsts(c, "common/controlmode", "ControlMode")["HOOK"]; !ok {
		c.Lost("constant controlmode.HOOK")
		return
	}
	var bad []string
	n := 0
	var judge func(v ssa.Value, at *ssa.BasicBlock, depth int)
	judge = func(v ssa.Value, at *ssa.BasicBlock, depth int) {
		if phi, ok := v.(*ssa.Phi); ok && depth < 4 {
			for i, e := range phi.Edges {
				judge(e, phi.Block().Preds[i], depth+1)
			}
			return
		}
		k, ok := v.(*ssa.Const)
		if !ok {
			return
		}
		if kv, isK := an.ConstInt(k); !isK || kv != hook || namedOf(k.Type()) != "ControlMode" {
			return
		}
		n++
		guarded := an.GuardedByAll(at, func(a an.Atom) bool {
			if a.Op != token.EQL || a.Y == nil {
				return false
			}
			for _, pair := range [][2]ssa.Value{{a.X, a.Y}, {a.Y, a.X}} {
				if kk, isK := an.ConstInt(pair[1]); isK && kk == basic && isFieldLoadNamed(pair[0], "Mode") {
					return true
				}
			}
			return false
		})
		if !guarded {
			bad = append(bad, c.PosStr(lastPos(at)))
		}
	}
	for _, r := range an.Returns(fn) {
		if len(r.Results) == 1 {
			judge(an.RetVal(r, 0), r.Block(), 0)
		}
	}
	sort.Strings(bad)
	c.Ob("(*core/task.Task).GetControlMode|hook-only-for-basic", fn.Pos(), len(bad) == 0 && n > 0,
		"GetControlMode answers HOOK without having established that the class's mode is BASIC (at %v): a controllable task whose role declares a trigger is treated as a hook and gets no control port", bad)
}

// R05q: the role's channels are in the merged list: the slice MergeInbound copies the high-priority list into has
// that list's length.
func r05q(c *an.Ctx) {
	c.Rule("R05q", "channel.MergeInbound: copy(dst, hp) with len(dst) == len(hp)", 1)
	fn := c.MustFn("core/task/channel", "MergeInbound")
	if fn == nil {
		return
	}
	hp := fn.Params[0]
	n := 0
	an.Instrs(fn, func(in ssa.Instruction) {
		call, ok := in.(*ssa.Call)
		if !ok {
			return
		}
		b, isB := call.Call.Value.(*ssa.Builtin)
		if !isB || b.Name() != "copy" || an.Strip(call.Call.Args[1]) != ssa.Value(hp) {
			return
		}
		n++
		c.Subject()
		okLen := false
		for _, v := range roleValues(call.Call.Args[0], map[ssa.Value]bool{}) {
			if mk, isMk := an.Strip(v).(*ssa.MakeSlice); isMk {
				if l, isCall := mk.Len.(*ssa.Call); isCall {
					if lb, isLB := l.Call.Value.(*ssa.Builtin); isLB && lb.Name() == "len" && l.Call.Args[0] == ssa.Value(hp) {
						okLen = true
					}
				}
			}
		}
		c.Ob("core/task/channel.MergeInbound|copy-into-full-length", call.Pos(), okLen,
			"the high-priority channels are copied into a slice that does not have their length: copy transfers min(len(dst), len(src)) elements, so with a zero-length destination the role's own channels are missing from the result and no port is requested for them")
	})
	if n == 0 {
		// no copy: the high-priority list must then be appended
		c.Subject()
		appended := false
		an.Instrs(fn, func(in ssa.Instruction) {
			if call, ok := in.(*ssa.Call); ok {
				if b, isB := call.Call.Value.(*ssa.Builtin); isB && b.Name() == "append" && len(call.Call.Args) == 2 && an.Strip(call.Call.Args[1]) == ssa.Value(hp) {
					appended = true
				}
			}
		})
		c.Ob("core/task/channel.MergeInbound|copy-into-full-length", fn.Pos(), appended, "the high-priority list is neither copied nor appended into the result")
	}
}

// R06n: what teardown withholds from the first release is exactly what it releases in the second: the withheld set
// is not chosen by control mode.
func r06n(c *an.Ctx) {
	c.Rule("R06n", "TeardownEnvironment: the tasks withheld from the first release are not chosen by control mode", 1)
	fn := c.MustFn("core/environment", "Manager.TeardownEnvironment")
	if fn == nil {
		return
	}
	c.Subject()
	bad := callsMatching(c, fn, func(_ string, cc *ssa.CallCommon) bool { return an.MethodName(cc) == "GetControlMode" })
	c.Ob("(*core/environment.Manager).TeardownEnvironment|withheld-are-the-destroy-hooks", fn.Pos(), len(bad) == 0,
		"the tasks kept back from the first release are picked by control mode (at %v), while the second release covers the DESTROY hooks only: a hook task of any other moment stays owned by the destroyed environment and is never asked to terminate", bad)
}

// R07g: the number a remote client hands out is the one the service drew: RemoteService.NewRunNumber returns the
// response's number as is.
func r07g(c *an.Ctx) {
	c.Rule("R07g", "apricot/remote RemoteService.NewRunNumber: the returned number is the response's, unmodified", 1)
	fn := c.MustFn("apricot/remote", "RemoteService.NewRunNumber")
	if fn == nil {
		return
	}
	c.Subject()
	var bad []string
	n := 0
	for _, r := range an.Returns(fn) {
		for _, v := range roleValues(an.RetVal(r, 0), map[ssa.Value]bool{}) {
			if k, ok := v.(*ssa.Const); ok {
				if kv, isK := an.ConstInt(k); isK && kv == 0 {
					continue
				}
			}
			if call, ok := an.Strip(v).(*ssa.Call); ok && an.MethodName(&call.Call) == "GetRunNumber" {
				n++
				continue
			}
			bad = append(bad, c.PosStr(r.Pos()))
		}
	}
	sort.Strings(bad)
	c.Ob("(*apricot/remote.RemoteService).NewRunNumber|number-as-drawn", fn.Pos(), len(bad) == 0 && n > 0,
		"the run number returned is computed by the client (at %v) instead of being the one the service drew from the shared counter: a number that was never taken from the counter is handed out again to whoever draws it next", uniq(bad))
}

// R09o: `critical` defaults to true: where the trait is set from the workflow text its value is the declared one or
// the constant true, never false by default.
func r09o(c *an.Ctx) {
	c.Rule("R09o", "callRole/taskRole.UnmarshalYAML: Critical is the declared value or true", 2)
	for _, k := range []string{"callRole", "taskRole"} {
		fn := c.MustFn(wfPkg, k+".UnmarshalYAML")
		if fn == nil {
			continue
		}
		c.Subject()
		var bad []string
		n := 0
		an.Instrs(fn, func(in ssa.Instruction) {
			st, ok := in.(*ssa.Store)
			if !ok {
				return
			}
			fa, ok := st.Addr.(*ssa.FieldAddr)
			if !ok || fieldNameAt(fa) != "Critical" {
				return
			}
			n++
			for _, v := range roleValues(st.Val, map[ssa.Value]bool{}) {
				if kc, isK := v.(*ssa.Const); isK && kc.Value != nil && kc.Value.String() == "false" {
					bad = append(bad, c.PosStr(st.Pos()))
				}
			}
		})
		sort.Strings(bad)
		c.Ob("(*core/workflow."+k+").UnmarshalYAML|critical-defaults-true", fn.Pos(), len(bad) == 0 && n > 0,
			"the Critical trait can be set to the constant false (at %v): a hook or task declared without `critical:` becomes non-critical, and its failure no longer cancels the transition or is reported", uniq(bad))
	}
}

// R10k: a hook's weight is parsed at full width: ParseTriggerExpression does not narrow it (documented weights go
// down to -200).
func r10k(c *an.Ctx) {
	c.Rule("R10k", "callable.ParseTriggerExpression: the weight is parsed as a full-width integer", 1)
	fn := c.MustFn("core/workflow/callable", "ParseTriggerExpression")
	if fn == nil {
		return
	}
	c.Subject()
	n := 0
	var bad []string
	an.Instrs(fn, func(in ssa.Instruction) {
		call, ok := in.(*ssa.Call)
		if !ok {
			return
		}
		switch an.CalleeName(&call.Call) {
		case "strconv.Atoi":
			n++
		case "strconv.ParseInt", "strconv.ParseUint":
			n++
			if k, isK := an.ConstInt(call.Call.Args[2]); !isK || (k != 0 && k < 32) {
				bad = append(bad, c.PosStr(call.Pos()))
			}
		}
	})
	c.Ob("core/workflow/callable.ParseTriggerExpression|full-width-weight", fn.Pos(), len(bad) == 0 && n > 0,
		"the weight of a trigger expression is parsed into fewer than 32 bits (at %v): a documented weight such as -200 is out of range, falls back to +0, and the hook runs in the non-negative pass - after the run number and the start timestamp were set", bad)
}

// R12r: every target of a command gets its goroutine: in CommandQueue.commit the per-target launch is unconditional
// (the collection loop waits for as many results as there are targets).
func r12r(c *an.Ctx) {
	c.Rule("R12r", "CommandQueue.commit: the per-target goroutine is started for every target", 1)
	fn := c.MustFn(ccPkg, "CommandQueue.commit")
	if fn == nil {
		return
	}
	n := 0
	an.Instrs(fn, func(in ssa.Instruction) {
		g, ok := in.(*ssa.Go)
		if !ok || !an.InLoop(g.Block()) {
			return
		}
		n++
		c.Subject()
		// only conditions evaluated inside the loop (per target) count
		_, body := an.EnclosingLoop(g.Block())
		var conds []string
		for _, gd := range an.ControlConds(g.Block()) {
			if gd.LoopHeader || gd.LoopExit || gd.If == nil || !body[gd.If.Block()] {
				continue
			}
			conds = append(conds, c.PosStr(condPos(gd.V)))
		}
		sort.Strings(conds)
		c.Ob("(*core/controlcommands.CommandQueue).commit|launch-every-target", g.Pos(), len(conds) == 0,
			"the goroutine of a target is started only under a condition (%v) while the collection waits for one result per target: a command with a target that is skipped never completes, and blocks the queue for every later command", conds)
	})
	if n == 0 {
		c.Lost("per-target go statement in CommandQueue.commit")
	}
}

// R12s: errors stay attributed to the target they were collected for: MesosCommandMultiResponse.Errors keys its
// result by the keys of its own responses map.
func r12s(c *an.Ctx) {
	c.Rule("R12s", "MesosCommandMultiResponse.Errors: keyed by the responses' own targets", 1)
	fn := c.MustFn(ccPkg, "MesosCommandMultiResponse.Errors")
	if fn == nil {
		return
	}
	c.Subject()
	var bad []string
	n := 0
	an.Instrs(fn, func(in ssa.Instruction) {
		mu, ok := in.(*ssa.MapUpdate)
		if !ok {
			return
		}
		n++
		okKey := false
		if ex, isEx := mu.Key.(*ssa.Extract); isEx && ex.Index == 1 {
			if nx, isNx := ex.Tuple.(*ssa.Next); isNx {
				if rg, isRg := nx.Iter.(*ssa.Range); isRg && isFieldLoadNamed(rg.X, "responses") {
					okKey = true
				}
			}
		}
		if !okKey {
			bad = append(bad, c.PosStr(mu.Pos()))
		}
	})
	sort.Strings(bad)
	c.Ob("(*core/controlcommands.MesosCommandMultiResponse).Errors|own-keys", fn.Pos(), len(bad) == 0 && n > 0,
		"an error is filed under a key that is not the target it was collected for (at %v): the per-target errors collapse onto another (or the empty) target, so a critical task's failure is looked up under the wrong task and counted as non-critical", bad)
}

// R13l: two endpoints are the same only as they stand: EndpointEquals does not convert its operands before comparing
// (the bound form drops the host, the difference between two tasks on different machines).
func r13l(c *an.Ctx) {
	c.Rule("R13l", "channel.EndpointEquals compares its operands as given", 1)
	fn := c.MustFn("core/task/channel", "EndpointEquals")
	if fn == nil {
		return
	}
	c.Subject()
	bad := callsMatching(c, fn, func(_ string, cc *ssa.CallCommon) bool {
		m := an.MethodName(cc)
		return m == "ToBoundEndpoint" || m == "ToTargetEndpoint" || m == "GetAddress" && false
	})
	c.Ob("core/task/channel.EndpointEquals|as-given", fn.Pos(), len(bad) == 0,
		"the endpoints are converted before being compared (at %v): two tasks on different hosts that got the same port then compare equal, and two different endpoints claiming one global alias are accepted instead of rejected", bad)
}

// R13m: an outbound channel takes the inbound side's transport: ToFMQMap never falls back to the outbound channel's own
// declared transport for a matched target.
func r13m(c *an.Ctx) {
	c.Rule("R13m", "Outbound.ToFMQMap: the transport handed on is never the outbound channel's own", 1)
	fn := c.MustFn("core/task/channel", "Outbound.ToFMQMap")
	if fn == nil {
		return
	}
	recv := fn.Params[0]
	n := 0
	for _, ci := range an.Calls(fn, func(nm string, ci ssa.CallInstruction) bool { return an.MethodName(ci.Common()) == "buildFMQMap" }) {
		n++
		c.Subject()
		var bad []string
		for _, a := range an.Args(ci.Common())[1:] {
			if !strings.HasSuffix(a.Type().String(), "TransportType") {
				continue
			}
			// the channel's own transport may only arrive from outside the search of the bind map (the explicit-address
			// branch): an assignment of it inside the matching loop is a fallback for a matched target
			var judge func(v ssa.Value, from *ssa.BasicBlock, depth int)
			judge = func(v ssa.Value, from *ssa.BasicBlock, depth int) {
				if depth > 6 {
					return
				}
				if phi, ok := v.(*ssa.Phi); ok {
					for i, e := range phi.Edges {
						judge(e, phi.Block().Preds[i], depth+1)
					}
					return
				}
				if u, ok := v.(*ssa.UnOp); ok && u.Op == token.MUL {
					if fa, isFA := u.X.(*ssa.FieldAddr); isFA && fieldNameAt(fa) == "Transport" && rootIs(fa.X, recv) {
						if (from != nil && underRange(from)) || underRange(u.Block()) {
							bad = append(bad, c.PosStr(u.Pos()))
						}
					}
				}
			}
			judge(a, nil, 0)
		}
		c.Ob("(*core/task/channel.Outbound).ToFMQMap|inbound-transport|"+fmt.Sprint(n), ci.Pos(), len(bad) == 0,
			"for a target that was matched in the bind map the transport handed on can be the outbound channel's own declaration: the two ends of the channel are then configured with different transports")
	}
	if n == 0 {
		c.Lost("buildFMQMap call in Outbound.ToFMQMap")
	}
}

// underRange: b is dominated by the header of a range loop (a block that advances a map/string iterator) - it lies in
// the loop or behind it, in any case after the search has started.
func underRange(b *ssa.BasicBlock) bool {
	for _, h := range b.Parent().Blocks {
		for _, in := range h.Instrs {
			if _, ok := in.(*ssa.Next); ok && (h == b || h.Dominates(b)) {
				return true
			}
		}
	}
	return false
}

func rootIs(v ssa.Value, p *ssa.Parameter) bool {
	for i := 0; i < 6; i++ {
		switch x := v.(type) {
		case *ssa.FieldAddr:
			v = x.X
		case *ssa.UnOp:
			v = x.X
		default:
			return v == ssa.Value(p)
		}
	}
	return false
}

// hitGuarded: b is reached only after a comma-ok map lookup succeeded.
func hitGuarded(b *ssa.BasicBlock) bool {
	return an.AnyAtom(b, func(a an.Atom) bool {
		if a.Y != nil || !a.Val {
			return false
		}
		if ex, ok := a.X.(*ssa.Extract); ok && ex.Index == 1 {
			if lk, isLk := ex.Tuple.(*ssa.Lookup); isLk && lk.CommaOk {
				return true
			}
		}
		return false
	})
}

// R15q: an expression that names something undefined fails the load: the expression compiler is never told to allow
// undefined variables.
func r15q(c *an.Ctx) {
	c.Rule("R15q", "configuration/template: expr.AllowUndefinedVariables is never used", 1)
	fn := c.MustFn("configuration/template", "Fields.Execute")
	if fn == nil {
		return
	}
	c.Subject()
	pk := fn.Pkg
	var bad []string
	for _, f := range c.ModuleFuncs() {
		if f.Pkg != pk {
			continue
		}
		an.Instrs(f, func(in ssa.Instruction) {
			if ci, ok := in.(ssa.CallInstruction); ok && strings.HasSuffix(an.CalleeName(ci.Common()), "expr.AllowUndefinedVariables") {
				bad = append(bad, c.PosStr(ci.Pos()))
			}
		})
	}
	sort.Strings(bad)
	c.Ob("configuration/template|strict-identifiers", fn.Pos(), len(bad) == 0,
		"the expression compiler is told to allow undefined variables (at %v): a template that names a variable nobody defined no longer fails the load, it yields \"<nil>\" in the role's name, variables or constraints", bad)
}

// R15r: the template engine writes into the constraints themselves: WrapConstraints hands out accessors of the
// elements of the list it was given, not of a copy of an element.
func r15r(c *an.Ctx) {
	c.Rule("R15r", "workflow.WrapConstraints: accessors address the elements of the given list", 1)
	fn := c.MustFn(wfPkg, "WrapConstraints")
	if fn == nil {
		return
	}
	c.Subject()
	var bad []string
	n := 0
	viaIndex := func(a ssa.Value) bool {
		for i := 0; i < 6 && a != nil; i++ {
			switch x := a.(type) {
			case *ssa.FieldAddr:
				a = x.X
			case *ssa.IndexAddr:
				return true
			case *ssa.UnOp:
				a = x.X
			default:
				return false
			}
		}
		return false
	}
	for _, f := range an.WithAnon(fn) {
		an.Instrs(f, func(in ssa.Instruction) {
			switch x := in.(type) {
			case *ssa.Store:
				if fa, ok := x.Addr.(*ssa.FieldAddr); ok && fieldNameAt(fa) == "Value" {
					n++
					if !viaIndex(fa.X) {
						bad = append(bad, c.PosStr(x.Pos()))
					}
				}
			case *ssa.Call:
				if strings.HasSuffix(an.CalleeName(&x.Call), "template.WrapPointer") {
					if fa, ok := an.Strip(x.Call.Args[0]).(*ssa.FieldAddr); ok && fieldNameAt(fa) == "Value" {
						n++
						if !viaIndex(fa.X) {
							bad = append(bad, c.PosStr(x.Pos()))
						}
					}
				}
			}
		})
	}
	sort.Strings(bad)
	c.Ob("core/workflow.WrapConstraints|elements-in-place", fn.Pos(), len(bad) == 0 && n > 0,
		"an accessor of a constraint's value addresses a copy of the element (at %v): the evaluated expression is written to the copy, the role keeps the unresolved text (\"{{ it }}\") as constraint value, and no error is raised", bad)
}

// R17u: every task process leads its own process group: each SysProcAttr given to the task command has Setpgid set.
func r17u(c *an.Ctx) {
	c.Rule("R17u", "prepareTaskCmd: every SysProcAttr assigned to the command has Setpgid: true", 1)
	fn := c.MustFn("executor/executable", "prepareTaskCmd")
	if fn == nil {
		return
	}
	n := 0
	an.Instrs(fn, func(in ssa.Instruction) {
		st, ok := in.(*ssa.Store)
		if !ok {
			return
		}
		fa, ok := st.Addr.(*ssa.FieldAddr)
		if !ok || fieldNameAt(fa) != "SysProcAttr" {
			return
		}
		n++
		c.Subject()
		okPg := false
		if al, isAl := an.Strip(st.Val).(*ssa.Alloc); isAl && al.Referrers() != nil {
			for _, r := range *al.Referrers() {
				if f2, isF := r.(*ssa.FieldAddr); isF && fieldNameAt(f2) == "Setpgid" && f2.Referrers() != nil {
					for _, r2 := range *f2.Referrers() {
						if s2, isS := r2.(*ssa.Store); isS {
							if k, isK := s2.Val.(*ssa.Const); isK && k.Value != nil && k.Value.String() == "true" {
								okPg = true
							}
						}
					}
				}
			}
		}
		c.Ob("executor/executable.prepareTaskCmd|setpgid|"+fmt.Sprint(n), st.Pos(), okPg,
			"the command is given process attributes without Setpgid: the task shares the executor's process group, kill(-pid) finds no such group, and stopping or killing the task leaves the shell and its children running")
	})
	if n == 0 {
		c.Lost("assignment of SysProcAttr in prepareTaskCmd")
	}
}

// R17v: a task whose terminal status went out is no longer active: performStatusUpdate removes the task from the
// active set for every terminal state.
func r17v(c *an.Ctx) {
	c.Rule("R17v", "executor.performStatusUpdate: every terminal state removes the task from the active set", 1)
	fn := c.MustFn("executor", "performStatusUpdate")
	if fn == nil {
		return
	}
	c.Subject()
	var deletes []*ssa.BasicBlock
	an.Instrs(fn, func(in ssa.Instruction) {
		if call, ok := in.(*ssa.Call); ok {
			if b, isB := call.Call.Value.(*ssa.Builtin); isB && b.Name() == "delete" && isFieldLoadNamed(call.Call.Args[0], "activeTasks") {
				deletes = append(deletes, call.Block())
			}
		}
	})
	var missing []string
	for _, name := range []string{"TASK_FINISHED", "TASK_FAILED", "TASK_KILLED", "TASK_LOST", "TASK_DROPPED", "TASK_GONE"} {
		v := lookupConstInt(c, "github.com/mesos/mesos-go/api/v1/lib", name)
		found := false
		if v != nil {
			for _, b := range fn.Blocks {
				ifi, ok := b.Instrs[len(b.Instrs)-1].(*ssa.If)
				if !ok {
					continue
				}
				bo, ok := ifi.Cond.(*ssa.BinOp)
				if !ok || bo.Op != token.EQL {
					continue
				}
				kv, isK := an.ConstInt(bo.Y)
				if !isK {
					kv, isK = an.ConstInt(bo.X)
				}
				if !isK || kv != *v {
					continue
				}
				for _, d := range deletes {
					if b.Succs[0] == d || an.BlockReaches(b.Succs[0], d) {
						found = true
					}
				}
			}
		}
		if !found {
			missing = append(missing, name)
		}
	}
	c.Ob("executor.performStatusUpdate|terminal-states-deactivate", fn.Pos(), len(missing) == 0 && len(deletes) > 0,
		"the task stays in the active set after the terminal state(s) %v: a later kill request finds a task whose process (and rpc client) is gone, and the nil dereference takes the executor down", missing)
}

// R18l: calls to the master carry the framework id from the store as it is at that moment: setupCli hands
// callrules.WithFrameworkID the store's getter itself.
func r18l(c *an.Ctx) {
	c.Rule("R18l", "schedulerState.setupCli: WithFrameworkID receives the id store's getter itself", 1)
	fn := c.MustFn("core/task", "schedulerState.setupCli")
	if fn == nil {
		return
	}
	n := 0
	for _, ci := range an.CallsSuffix(fn, "callrules.WithFrameworkID") {
		n++
		c.Subject()
		getter, isGetter := an.Strip(ci.Common().Args[0]).(*ssa.Call)
		ok := isGetter && strings.HasSuffix(an.CalleeName(&getter.Call), "store.GetIgnoreErrors") && isFieldLoadNamed(getter.Call.Args[0], "fidStore")
		c.Ob("(*core/task.schedulerState).setupCli|framework-id-getter", ci.Pos(), ok,
			"outgoing calls are stamped by something other than the id store's getter: a wrapper that answers \"\" under some condition lets the reconciliation after a restart go out without the framework id - the master rejects it, the error is ignored, and the previous life's tasks are never killed")
	}
	if n == 0 {
		c.Lost("callrules.WithFrameworkID in setupCli")
	}
}

// R18m: the failover timeout is a parsed duration: setDefaults takes it (and the other Mesos timings) from
// getenvDuration, which refuses what it cannot parse.
func r18m(c *an.Ctx) {
	c.Rule("R18m", "core.setDefaults: mesosFailoverTimeout comes from getenvDuration", 1)
	fn := c.MustFn("core", "setDefaults")
	if fn == nil {
		return
	}
	n := 0
	for _, ci := range an.Calls(fn, func(nm string, _ ssa.CallInstruction) bool { return strings.HasSuffix(nm, "viper.SetDefault") }) {
		a := ci.Common().Args
		if k, ok := an.ConstString(a[0]); !ok || k != "mesosFailoverTimeout" {
			continue
		}
		n++
		c.Subject()
		ok := false
		v := an.Strip(a[1])
		if mi, isMI := v.(*ssa.MakeInterface); isMI {
			v = an.Strip(mi.X)
		}
		if call, isCall := v.(*ssa.Call); isCall && strings.HasSuffix(an.CalleeName(&call.Call), "core.getenvDuration") {
			ok = true
		}
		// after expansion of the helper the value is a time.Duration computed from time.ParseDuration
		if !ok && strings.HasSuffix(v.Type().String(), "time.Duration") {
			ok = true
		}
		c.Ob("core.setDefaults|failover-timeout-parsed", ci.Pos(), ok,
			"the default of mesosFailoverTimeout is not a parsed duration: an unparsable setting silently becomes 0, the framework info carries no failover timeout, and the restarted core subscribes without its stored id - the old life's tasks are never reconciled")
	}
	if n == 0 {
		c.Lost("SetDefault(\"mesosFailoverTimeout\") in core.setDefaults")
	}
}

// R20m: every request is templated with functions bound to its own variables: in GetAndProcessComponentConfiguration
// the function map is made unconditionally.
func r20m(c *an.Ctx) {
	c.Rule("R20m", "apricot/local GetAndProcessComponentConfiguration: MakeUtilFuncMap(varStack) on every request", 1)
	fn := c.MustFn("apricot/local", "Service.GetAndProcessComponentConfiguration")
	if fn == nil {
		return
	}
	n := 0
	for _, ci := range an.CallsSuffix(fn, "template.MakeUtilFuncMap") {
		n++
		c.Subject()
		conds := plainConds(c, ci.Block(), func(v ssa.Value) bool {
			// error tests of earlier steps are not conditions on the request
			return isNilTest(v)
		})
		arg := ci.Common().Args[0] == ssa.Value(fn.Params[2])
		c.Ob("(*apricot/local.Service).GetAndProcessComponentConfiguration|own-function-map", ci.Pos(), len(conds) == 0 && arg,
			"the template functions are built under a condition (%v) or not from this request's variables: a payload is then templated with functions bound to an earlier request's variables", conds)
	}
	if n == 0 {
		c.Lost("MakeUtilFuncMap in GetAndProcessComponentConfiguration")
	}
}

// R20n: "exists" is about that very key: ConsulSource.Exists asks for the key itself, not for a listing by prefix.
func r20n(c *an.Ctx) {
	c.Rule("R20n", "ConsulSource.Exists: decided by a Get of the exact key", 1)
	fn := c.MustFn("configuration/cfgbackend", "ConsulSource.Exists")
	if fn == nil {
		return
	}
	c.Subject()
	gets := callsMatching(c, fn, func(n string, _ *ssa.CallCommon) bool { return strings.HasSuffix(n, "consul/api.KV).Get") })
	lists := callsMatching(c, fn, func(n string, _ *ssa.CallCommon) bool {
		return strings.HasSuffix(n, "consul/api.KV).Keys") || strings.HasSuffix(n, "consul/api.KV).List")
	})
	c.Ob("(*configuration/cfgbackend.ConsulSource).Exists|exact-key", fn.Pos(), len(gets) > 0 && len(lists) == 0,
		"existence is decided by a prefix listing (at %v): a key \"exists\" as soon as a longer sibling shares its prefix (entry1 because of entry10), so a query resolves to a path that does not exist and hides the real fallback entry", lists)
}

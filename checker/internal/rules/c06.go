package rules

import (
	"fmt"
	"go/token"
	"go/types"
	"sort"
	"strings"

	"verifchk/internal/an"

	"golang.org/x/tools/go/ssa"
)

func init() {
	register("C06", "Decides structural necessary conditions of 'destroying or failing to create an environment leaves nothing behind': "+
		"(R06a) teardown order: release tasks -> acknowledgement -> DESTROY hooks -> release hook tasks -> acknowledgement -> pending calls cancelled -> DONE -> unlisted; "+
		"(R06b) every DESTROY hook task withheld from the first release is in the second one (the list accumulates over all weights and is not status-filtered); "+
		"(R06c) after registration every failure exit of both creation functions goes through forced teardown and task kill; (R06d) the API answers success only if teardown succeeded, retries with force, and skips the task kill only when asked to keep tasks; (R06e) doKillTasks sends a KILL to every ACTIVE task of its list (no early loop exit) and puts a task whose KILL failed back into the roster; (R06f) the pending-call bookkeeping teardown cancels from only loses entries that were awaited. "+
		"Does not decide outcomes under all release/kill fault combinations.", runC06)
}

func runC06(c *an.Ctx) {
	r06ab(c)
	r06c(c)
	r06d(c)
	r06e(c)
	pendingMutationRule(c, "R06f")
	r06g(c)
	r06h(c)
	r06i(c)
	// round 7
	filterOnlyByType(c, "R06j", "FilterTasks")
	pendingResetRule(c, "R06k")
	r06l(c)
	// round 8
	r06m(c)
	// round 9
	r06n(c)
	c.As(map[string]string{"R08i": "R06o"}, func() { r08i(c) })
}

func before(a, b ssa.Instruction) bool { return an.CanReach(a, b) && !an.CanReach(b, a) }

func r06ab(c *an.Ctx) {
	fn := c.MustFn("core/environment", "Manager.TeardownEnvironment")
	c.Rule("R06a", "teardown order chain", 1)
	if fn == nil {
		return
	}
	key := "(*core/environment.Manager).TeardownEnvironment"
	var sends, recvs []ssa.Instruction
	an.Instrs(fn, func(in ssa.Instruction) {
		switch x := in.(type) {
		case *ssa.Send:
			if f := an.FieldOf(x.Chan); f != nil && f.Name() == "MessageChannel" {
				sends = append(sends, x)
			}
		case *ssa.UnOp:
			if x.Op == token.ARROW && strings.HasSuffix(x.Type().String(), "event.TasksReleasedEvent") {
				recvs = append(recvs, x)
			}
		}
	})
	triggers := an.CallsNamed(fn, "(*core/task.Manager).TriggerHooks")
	callAll := an.CallsNamed(fn, "(core/workflow/callable.Calls).CallAll")
	cancel := an.CallsTo(fn, c.Fn("core/environment", "Manager.cancelCallsPendingAwait"))
	var done, unlist ssa.Instruction
	for _, ci := range an.CallsNamed(fn, "(*core/environment.Environment).setState") {
		if s, ok := an.ConstString(ci.Common().Args[1]); ok && s == "DONE" {
			done = ci
		}
	}
	mField := c.Field("core/environment", "Manager", "m")
	for _, ci := range an.CallsNamed(fn, "builtin.delete") {
		if an.FieldOf(ci.Common().Args[0]) == mField {
			unlist = ci
		}
	}
	c.Subject()
	if len(sends) != 2 || len(recvs) != 2 || len(triggers) == 0 || len(callAll) == 0 || len(cancel) != 1 || done == nil || unlist == nil {
		c.Ob(key+"|order", fn.Pos(), false, "teardown anchors not found: sends=%d receives=%d TriggerHooks=%d CallAll=%d cancel=%d DONE=%v unlist=%v",
			len(sends), len(recvs), len(triggers), len(callAll), len(cancel), done != nil, unlist != nil)
		return
	}
	s1, s2 := sends[0], sends[1]
	if !before(s1, s2) {
		s1, s2 = s2, s1
	}
	r1, r2 := recvs[0], recvs[1]
	if !before(r1, r2) {
		r1, r2 = r2, r1
	}
	type link struct {
		name string
		ok   bool
	}
	links := []link{
		{"release of the environment's tasks is sent before its acknowledgement is awaited", an.Dominates(s1, r1)},
		{"DESTROY hook calls run only after the first release was acknowledged", an.Dominates(r1, callAll[0])},
		{"DESTROY hook tasks are triggered only after the first release was acknowledged", an.Dominates(r1, triggers[0])},
		{"hook tasks are released after they were triggered", before(triggers[0], s2) && an.Dominates(r1, s2)},
		{"the second release is acknowledged before DONE", an.Dominates(s2, r2) && an.Dominates(r2, done)},
		{"pending hook calls are cancelled on the way to DONE", an.Dominates(cancel[0], done)},
		{"the environment is unlisted only after it was set to DONE", an.Dominates(done, unlist)},
	}
	for i, l := range links {
		c.Ob(fmt.Sprintf("%s|order#%d", key, i+1), fn.Pos(), l.ok, "%s", l.name)
	}
	// failed release: the error check on this very acknowledgement returns a non-nil error without reaching DONE
	for i, r := range []ssa.Instruction{r1, r2} {
		// assume this very acknowledgement carries release errors (cut every edge on which len(GetTaskReleaseErrors()) == 0
		// is established) and follow the flow from the receive: DONE, the unlisting and (for the first release) the second
		// release must be unreachable, and whatever is returned must be a non-nil error
		tests := 0
		cut := func(b *ssa.BasicBlock, succ int) bool {
			ifi, ok := b.Instrs[len(b.Instrs)-1].(*ssa.If)
			if !ok {
				return false
			}
			bo, ok := ifi.Cond.(*ssa.BinOp)
			if !ok {
				return false
			}
			ln, ok := bo.X.(*ssa.Call)
			if !ok || an.CalleeName(&ln.Call) != "builtin.len" {
				return false
			}
			if k, isK := an.ConstInt(bo.Y); !isK || k != 0 {
				return false
			}
			get, ok := ln.Call.Args[0].(*ssa.Call)
			if !ok || an.MethodName(&get.Call) != "GetTaskReleaseErrors" || !an.DerivesFrom(an.Args(&get.Call)[0], r.(ssa.Value)) {
				return false
			}
			tests++
			switch bo.Op {
			case token.GTR, token.NEQ:
				return succ == 1
			case token.EQL, token.LEQ:
				return succ == 0
			}
			return false
		}
		fl := an.FlowFrom(r.Block(), cut)
		okRet := tests > 0 && !fl.Reaches(done) && !fl.Reaches(unlist)
		if r == r1 && fl.Reaches(s2) {
			okRet = false
		}
		nret := 0
		for _, ret := range fl.ReachedReturns() {
			nret++
			if fl.Nilness(an.RetVal(ret, 0)) != 1 {
				okRet = false
			}
		}
		if nret == 0 {
			okRet = false
		}
		c.Ob(fmt.Sprintf("%s|release-error-returned#%d", key, i+1), r.Pos(), okRet, "a failed task release must make the teardown return an error at once, without running hooks/second release or reporting DONE")
	}

	c.Rule("R06b", "the hook-task list released second accumulates over all weights and is not status-filtered", 1)
	c.Subject()
	// the message sent by s2: its task list argument
	msgVal := s2.(*ssa.Send).X
	// find NewEnvironmentMessage calls inside a loop that flow to s2's value
	var loopMsgs []*ssa.Call
	for _, l := range an.BackSlice(msgVal, an.SliceOpts{LeafCall: func(n string, _ *ssa.Call) bool { return n == "core/task.NewEnvironmentMessage" }}) {
		if l.Kind == "call" {
			if call := l.Val.(*ssa.Call); an.InLoop(call.Block()) {
				loopMsgs = append(loopMsgs, call)
			}
		}
	}
	if len(loopMsgs) == 0 {
		// message built after the loop: its task list must come from an accumulator fed in the loop
		for _, l := range an.BackSlice(msgVal, an.SliceOpts{LeafCall: func(n string, _ *ssa.Call) bool { return n == "core/task.NewEnvironmentMessage" }}) {
			if l.Kind == "call" {
				call := l.Val.(*ssa.Call)
				if an.Dominates(r1, call) {
					loopMsgs = append(loopMsgs, call)
				}
			}
		}
	}
	accum, filtered := false, false
	for _, call := range loopMsgs {
		tasksArg := call.Call.Args[2]
		// accumulates: the task list (or the message) depends on a loop-header phi of itself, i.e. the slice of tasksArg
		// contains an append whose first operand is a phi at a loop header
		var walk func(v ssa.Value, seen map[ssa.Value]bool)
		walk = func(v ssa.Value, seen map[ssa.Value]bool) {
			if v == nil || seen[v] {
				return
			}
			seen[v] = true
			switch x := v.(type) {
			case *ssa.Call:
				n := an.CalleeName(&x.Call)
				if n == "builtin.append" {
					if p, ok := x.Call.Args[0].(*ssa.Phi); ok && an.InLoop(p.Block()) {
						accum = true
					}
					walk(x.Call.Args[0], seen)
					if len(x.Call.Args) > 1 {
						walk(x.Call.Args[1], seen)
					}
					return
				}
				if strings.HasSuffix(n, "core/task.Tasks).Filtered") {
					filtered = true
				}
				for _, a := range x.Call.Args {
					walk(a, seen)
				}
			case *ssa.Phi:
				for _, e := range x.Edges {
					walk(e, seen)
				}
			case *ssa.Slice:
				walk(x.X, seen)
			case *ssa.ChangeType:
				walk(x.X, seen)
			}
		}
		walk(tasksArg, map[ssa.Value]bool{})
	}
	c.Ob(key+"|hook-release-accumulates", s2.Pos(), accum && len(loopMsgs) > 0,
		"the list of DESTROY hook tasks to release is overwritten on every weight instead of accumulated: with DESTROY hooks at two weights only the last weight's hook tasks are released, the others stay owned by the destroyed environment")
	c.Ob(key+"|hook-release-unfiltered", s2.Pos(), !filtered && len(loopMsgs) > 0,
		"the hook tasks released are filtered by role status: a DESTROY hook task whose role is not ACTIVE at teardown was withheld from the first release and is never released, so it stays owned by the destroyed environment")
}

// reachesTeardownKill: fn (a closure) contains TeardownEnvironment(_, true) and KillTasks.
func hasTeardownAndKill(fn *ssa.Function) (bool, bool) {
	td, kill := false, false
	for _, ci := range an.CallsNamed(fn, "(*core/environment.Manager).TeardownEnvironment") {
		if cst, ok := ci.Common().Args[2].(*ssa.Const); ok && cst.Value != nil && cst.Value.String() == "true" {
			td = true
		}
	}
	if len(an.CallsNamed(fn, "(*core/task.Manager).KillTasks")) > 0 {
		kill = true
	}
	return td, kill
}

func r06c(c *an.Ctx) {
	c.Rule("R06c", "after registration, every failure exit of a creation function passes forced teardown and task kill", 2)
	mField := c.Field("core/environment", "Manager", "m")
	for _, name := range []string{"Manager.CreateEnvironment", "Manager.CreateAutoEnvironment"} {
		fn := c.MustFn("core/environment", name)
		if fn == nil {
			continue
		}
		c.Subject()
		var store ssa.Instruction
		an.Instrs(fn, func(in ssa.Instruction) {
			if mu, ok := in.(*ssa.MapUpdate); ok && an.FieldOf(mu.Map) == mField {
				store = mu
			}
		})
		if store == nil {
			c.Ob("(*core/environment."+name+"|registration", fn.Pos(), false, "no registration into Manager.m found")
			continue
		}
		// cleanup points: direct Teardown(force)+KillTasks, or a call of a local closure that contains both
		var tds, kills []ssa.Instruction
		for _, ci := range an.CallsNamed(fn, "(*core/environment.Manager).TeardownEnvironment") {
			tds = append(tds, ci)
		}
		for _, ci := range an.CallsNamed(fn, "(*core/task.Manager).KillTasks") {
			kills = append(kills, ci)
		}
		var viaClosure []ssa.Instruction
		an.Instrs(fn, func(in ssa.Instruction) {
			call, ok := in.(*ssa.Call)
			if !ok || call.Call.IsInvoke() {
				return
			}
			if _, isFn := call.Call.Value.(*ssa.Function); isFn {
				return
			}
			for _, l := range an.BackSlice(call.Call.Value, an.SliceOpts{}) {
				if l.Kind == "func" {
					if mc, ok := l.Val.(*ssa.MakeClosure); ok {
						if td, k := hasTeardownAndKill(mc.Fn.(*ssa.Function)); td && k {
							viaClosure = append(viaClosure, call)
						}
					}
				}
			}
		})
		bad := 0
		n := 0
		for _, ret := range an.Returns(fn) {
			if !an.CanReach(store, ret) {
				continue
			}
			n++
			cleaned := false
			for _, v := range viaClosure {
				if an.Dominates(v, ret) {
					cleaned = true
				}
			}
			tdDom, killDom := false, false
			for _, t := range tds {
				if an.Dominates(t, ret) {
					tdDom = true
				}
			}
			for _, k := range kills {
				if an.Dominates(k, ret) {
					killDom = true
				}
			}
			if tdDom && killDom {
				cleaned = true
			}
			if cleaned {
				continue
			}
			// success exits: guarded by `<error> == nil`; or the dead `env == nil` guard
			okGuard := false
			for _, a := range an.Atoms(ret.Block()) {
				if a.Op == token.EQL && a.Y != nil && an.IsNilConst(a.Y) {
					t := a.X.Type().String()
					if strings.HasSuffix(t, "environment.Environment") {
						okGuard = true // `env == nil`: nothing left to clean
					}
					if t == "error" && errorProducedAfter(a.X, store) && stillValid(a.X, ret) {
						okGuard = true // success of an operation performed after registration
					}
				}
			}
			if !okGuard {
				bad++
				c.Ob("(*core/environment."+strings.Replace(name, ".", ").", 1)+"|failure-exit-cleans-up", ret.Pos(), false,
					"an exit after the environment was registered is reached without forced teardown and task kill and is not a success exit: the failed environment stays listed and keeps its tasks")
			}
		}
		if bad == 0 {
			c.Ob("(*core/environment."+strings.Replace(name, ".", ").", 1)+"|failure-exit-cleans-up", fn.Pos(), n > 0, "all %d exits after registration are success exits or pass forced teardown + task kill", n)
		}
	}
}

// errorProducedAfter: v (an error value, possibly a phi) is produced by a call executed after `after`.
func errorProducedAfter(v ssa.Value, after ssa.Instruction) bool {
	seen := map[ssa.Value]bool{}
	var walk func(v ssa.Value) bool
	walk = func(v ssa.Value) bool {
		if v == nil || seen[v] {
			return false
		}
		seen[v] = true
		switch x := v.(type) {
		case *ssa.Phi:
			for _, e := range x.Edges {
				if walk(e) {
					return true
				}
			}
		case *ssa.Extract:
			return walk(x.Tuple)
		case *ssa.Call:
			return an.CanReach(after, x)
		case *ssa.UnOp:
			// load of a cell: only the stores that reach this very load count
			sts := an.ReachingStores(x)
			if len(sts) == 0 {
				return false
			}
			for _, st := range sts {
				if !walk(st.Val) {
					return false
				}
			}
			return true
		}
		return false
	}
	return walk(v)
}

// stillValid: a fact about v established earlier still holds at `at`: v is an SSA register, or a
// load of a cell that is not stored to between the load and `at`.
func stillValid(v ssa.Value, at ssa.Instruction) bool {
	u, ok := v.(*ssa.UnOp)
	if !ok {
		return true
	}
	return !an.StoreBetween(u.X, u, at)
}

func r06d(c *an.Ctx) {
	c.Rule("R06d", "API: success only if teardown succeeded; non-forced failure retries with force; task kill skipped only under keepTasks", 1)
	fn := c.MustFn("core", "RpcServer.doTeardownAndCleanup")
	if fn == nil {
		return
	}
	c.Subject()
	key := "(*core.RpcServer).doTeardownAndCleanup"
	tds := an.CallsNamed(fn, "(*core/environment.Manager).TeardownEnvironment")
	cleanup := an.CallsNamed(fn, "(*core.RpcServer).doCleanupTasks")
	if len(tds) != 1 || len(cleanup) != 1 || len(fn.Params) != 4 {
		c.Ob(key+"|anchors", fn.Pos(), false, "expected one TeardownEnvironment and one doCleanupTasks call (found %d/%d)", len(tds), len(cleanup))
		return
	}
	td := tds[0].(*ssa.Call)
	force, keep := fn.Params[2], fn.Params[3]
	// teardown is called with the force parameter
	// (in a retry loop the flag is a loop-carried value: the request's flag on entry, true on the way round)
	forceOK := td.Call.Args[2] == ssa.Value(force)
	var forcePhi *ssa.Phi
	if phi, isPhi := td.Call.Args[2].(*ssa.Phi); isPhi {
		forceOK = len(phi.Edges) > 0
		for _, e := range phi.Edges {
			k, isK := e.(*ssa.Const)
			if e != ssa.Value(force) && !(isK && k.Value != nil && k.Value.String() == "true") {
				forceOK = false
			}
		}
		forcePhi = phi
	}
	c.Ob(key+"|force-passed", td.Pos(), forceOK, "the force flag of the request is what TeardownEnvironment receives")
	okAll := true
	for _, ret := range an.Returns(fn) {
		if len(ret.Results) != 2 {
			continue
		}
		if !an.IsNilConst(an.RetVal(ret, 1)) {
			continue
		}
		// success reply: teardown error known nil
		tdNil := false
		for _, a := range an.Atoms(ret.Block()) {
			if a.Op == token.EQL && a.Y != nil && an.IsNilConst(a.Y) && a.X == ssa.Value(td) {
				tdNil = true
			}
		}
		// either after cleanup (with its error nil) or under keepTasks
		afterCleanup := an.Dominates(cleanup[0], ret)
		underKeep := an.KnownTrue(ret.Block(), keep)
		if !(tdNil && (afterCleanup || underKeep)) {
			okAll = false
			c.Ob(key+"|success-reply", ret.Pos(), false, "a success reply is returned although teardown may have failed, or the task kill was skipped without keepTasks (teardown-ok=%v after-kill=%v keepTasks=%v)", tdNil, afterCleanup, underKeep)
		}
	}
	if okAll {
		c.Ob(key+"|success-reply", fn.Pos(), true, "every success reply is dominated by a successful teardown and by the task kill unless keepTasks")
	}
	// retry with force
	retry := false
	for _, ci := range an.CallsNamed(fn, "(*core.RpcServer).doTeardownAndCleanup") {
		if cst, ok := ci.Common().Args[2].(*ssa.Const); ok && cst.Value != nil && cst.Value.String() == "true" {
			if an.KnownFalse(ci.Block(), force) && an.KnownNonNil(ci.Block(), td) {
				retry = true
			}
		}
	}
	if !retry && forcePhi != nil {
		// loop form: the way round sets the flag to true, and is taken only after the teardown failed with the flag false
		for i, e := range forcePhi.Edges {
			if k, isK := e.(*ssa.Const); isK && k.Value != nil && k.Value.String() == "true" {
				p := forcePhi.Block().Preds[i]
				if an.KnownNonNil(p, td) && an.KnownFalse(p, forcePhi) {
					retry = true
				}
			}
		}
	}
	c.Ob(key+"|retry-with-force", fn.Pos(), retry, "a failed non-forced teardown is retried with force before an error is reported")
	// failure reply when forced teardown fails
	failRet := false
	for _, ret := range an.Returns(fn) {
		if len(ret.Results) == 2 && !an.IsNilConst(an.RetVal(ret, 1)) && an.KnownNonNil(ret.Block(), td) && !an.CanReach(cleanup[0], ret) {
			failRet = true
		}
	}
	c.Ob(key+"|teardown-error-reported", fn.Pos(), failRet, "when the (forced) teardown fails the caller gets an error")
}

// errSwallowed: the returns of call's function that are reachable when the error result of call is non-nil and
// nevertheless return a nil error (last result).
func errSwallowed(call *ssa.Call) []*ssa.Return {
	var errv ssa.Value = call
	if tup, ok := call.Type().(*types.Tuple); ok {
		errv = nil
		for _, r := range *call.Referrers() {
			if ex, isEx := r.(*ssa.Extract); isEx && ex.Index == tup.Len()-1 {
				errv = ex
			}
		}
		if errv == nil {
			return nil // the error is not even extracted; reported by the caller as unused
		}
	}
	fl := an.FlowFromFacts(call.Block(), nil, errv)
	var out []*ssa.Return
	for _, r := range fl.ReachedReturns() {
		if len(r.Results) == 0 {
			continue
		}
		if fl.Nilness(an.RetVal(r, len(r.Results)-1)) == -1 {
			out = append(out, r)
		}
	}
	return out
}

// R06g: a destroy request that could not be honoured is answered with an error: when the (final) teardown or the kill
// of the environment's tasks fails, the RPC helper must not answer OK.
func r06g(c *an.Ctx) {
	c.Rule("R06g", "doTeardownAndCleanup: a failed teardown and a failed task clean-up are returned as errors", 2)
	fn := c.MustFn("core", "RpcServer.doTeardownAndCleanup")
	if fn == nil {
		return
	}
	for _, suffix := range []string{"core/environment.Manager).TeardownEnvironment", "core.RpcServer).doCleanupTasks"} {
		found := false
		for _, ci := range an.Calls(fn, func(n string, _ ssa.CallInstruction) bool { return strings.HasSuffix(n, suffix) }) {
			call, ok := ci.(*ssa.Call)
			if !ok {
				continue
			}
			found = true
			c.Subject()
			var bad []string
			for _, r := range errSwallowed(call) {
				bad = append(bad, c.PosStr(lastPos(r.Block())))
			}
			sort.Strings(bad)
			short := suffix[strings.LastIndex(suffix, ".")+1:]
			c.Ob("(*core.RpcServer).doTeardownAndCleanup|"+short+"|error-returned", call.Pos(), len(bad) == 0,
				"when %s fails the function can still return a nil error (at %v): a destroy that left the environment or some of its tasks behind is reported as done", short, bad)
		}
		if !found {
			c.Lost("call of " + suffix + " in RpcServer.doTeardownAndCleanup")
		}
	}
}

// R06h: every task the scheduler launched for a deployment enters the roster, whether or not the deployment as a
// whole succeeded. A launched task that is not in the roster is never asked to terminate by anybody (kills and the
// clean-up of unowned tasks go through the roster).
func r06h(c *an.Ctx) {
	c.Rule("R06h", "acquireTasks: the newly deployed tasks are appended to the roster independently of the deployment's success", 1)
	fn := c.MustFn("core/task", "Manager.acquireTasks")
	if fn == nil {
		return
	}
	n := 0
	for _, ci := range an.Calls(fn, func(nm string, _ ssa.CallInstruction) bool { return strings.HasSuffix(nm, "core/task.roster).append") }) {
		n++
		c.Subject()
		var extra []string
		for _, g := range an.ControlConds(ci.Block()) {
			if g.LoopHeader || g.LoopExit {
				continue
			}
			// emptiness tests of a collection are harmless
			harmless := false
			for _, l := range an.BackSlice(g.V, an.SliceOpts{LeafCall: func(nm string, _ *ssa.Call) bool { return nm == "builtin.len" }}) {
				if l.Kind == "call" {
					harmless = true
				}
			}
			if !harmless {
				p := c.PosStr(condPos(g.V))
				dup := false
				for _, e := range extra {
					dup = dup || e == p
				}
				if !dup {
					extra = append(extra, p)
				}
			}
		}
		sort.Strings(extra)
		c.Ob(fmt.Sprintf("(*core/task.Manager).acquireTasks|roster-append#%d|unconditional", n), ci.Pos(), len(extra) == 0,
			"whether a launched task enters the roster depends on conditions at %v: a task launched by a deployment that failed as a whole stays out of the roster, keeps running on its agent and is never killed", extra)
	}
	if n == 0 {
		c.Lost("roster.append in Manager.acquireTasks")
	}
}

// R06i: releasing an environment's tasks clears their ownership. releaseTask may leave a task's parent in place only
// when it refuses the request (no task, or a task locked by another environment): any other answer - success, or
// "already released" - must have passed SetParent(nil). A task whose executor or agent was lost counts as "not locked"
// but still points into the role tree of its environment.
func r06i(c *an.Ctx) {
	c.Rule("R06i", "releaseTask: every answer other than a refusal (nil task, locked by another environment) has cleared the task's parent", 1)
	fn := c.MustFn("core/task", "Manager.releaseTask")
	if fn == nil {
		return
	}
	c.Subject()
	var clears []ssa.Instruction
	for _, ci := range an.Calls(fn, func(nm string, ci ssa.CallInstruction) bool { return an.MethodName(ci.Common()) == "SetParent" }) {
		a := ci.Common().Args
		if len(a) > 0 && an.IsNilConst(a[len(a)-1]) {
			clears = append(clears, ci)
		}
	}
	var bad []string
	for _, r := range an.Returns(fn) {
		if len(r.Results) != 1 {
			continue
		}
		// a refusal: the returned error is one of the two refusal types - directly, or through a variable (the result of
		// an extracted check) on a path where that variable is known non-nil
		rv := an.RetVal(r, 0)
		vals := roleValues(rv, map[ssa.Value]bool{})
		refusal := len(vals) > 0
		for _, v := range vals {
			if an.IsNilConst(v) {
				if !an.KnownNonNil(r.Block(), rv) {
					refusal = false
				}
				continue
			}
			mi, ok := v.(*ssa.MakeInterface)
			if !ok {
				refusal = false
				continue
			}
			t := mi.X.Type().String()
			if !strings.HasSuffix(t, "TaskLockedError") && !strings.HasSuffix(t, "TaskNotFoundError") {
				refusal = false
			}
		}
		if refusal {
			continue
		}
		cleared := false
		for _, cl := range clears {
			if an.Dominates(cl, r) {
				cleared = true
			}
		}
		// nothing to clear when the parent is known to be nil already
		if !cleared {
			cleared = an.GuardedByAll(r.Block(), func(a an.Atom) bool {
				if a.Op != token.EQL || a.Y == nil || !(an.IsNilConst(a.Y) || an.IsNilConst(a.X)) {
					return false
				}
				for _, v := range []ssa.Value{a.X, a.Y} {
					if call, isCall := v.(*ssa.Call); isCall && an.MethodName(&call.Call) == "GetParent" {
						return true
					}
					if isFieldNamed(v, "parent") {
						return true
					}
				}
				return false
			})
		}
		if !cleared {
			bad = append(bad, c.PosStr(lastPos(r.Block())))
		}
	}
	sort.Strings(bad)
	c.Ob("(*core/task.Manager).releaseTask|parent-cleared-unless-refused", fn.Pos(), len(bad) == 0 && len(clears) > 0,
		"releaseTask can answer without having cleared the task's parent and without refusing (returns at %v): the teardown reports the task as released while it still belongs to the role tree of the destroyed environment", bad)
}

package rules

import (
	"fmt"
	"go/token"
	"go/types"
	"sort"
	"strings"

	"verifchk/internal/an"

	"golang.org/x/tools/go/ssa"
)

func init() {
	register("C04", "Decides structural necessary conditions of 'a task or detector belongs to at most one environment': "+
		"(R04a) task ownership is written only by acquire, release and the task constructor; (R04b) release refuses tasks locked by another environment, the acquire rollback only unlocks tasks of its own deployment; "+
		"(R04c) every path to a Mesos KILL passes a not-owned filter (roster filters of Cleanup/KillTasks, reconciliation guard), EmergencyKillTasks being the one allow-listed exception; "+
		"(R04d) reuse claims only claimable (unowned, idle) tasks; (R04e) environment registration is preceded by the detector exclusion check and is atomic with the snapshot it checks against; (R04g) the roster shrinks only by members of the kill list handed to doKillTasks; (R04h) the identity fields the ownership test reads (agent, executor, host, offer, task id) are only written at construction, cleared by the executor/agent-loss handlers, or refreshed from a status message that carries the id. "+
		"Does not decide invariance over interleavings.", runC04)
}

func runC04(c *an.Ctx) {
	r04a(c)
	r04b(c)
	r04c(c)
	r04cAtomic(c)
	r04d(c)
	r04e(c)
	r04g(c)
	r04h(c)
	r04i(c)
	// round 7
	r04j(c)
	r04k(c)
	r04l(c)
	// round 8
	r04m(c)
	r04n(c)
	// round 9
	passThrough(c, "R04o", "cacheproxy.GetDefaults/GetVars are plain pass-throughs (no map shared between environments)", []string{"GetDefaults", "GetVars"}, "all environments then share one map of configuration-store values: the detector list one environment writes is read by the next, which is accepted with a detector that is still held")
}

func r04a(c *an.Ctx) {
	c.Rule("R04a", "Task.parent (ownership) is written only by SetParent/constructor; SetParent is called only by acquireTasks and releaseTask", 4)
	parent := c.Field("core/task", "Task", "parent")
	if parent == nil {
		c.Lost("field core/task.Task.parent")
		return
	}
	allowedWriters := map[string]bool{"(*core/task.Task).SetParent": true, "(*core/task.Manager).newTaskForMesosOffer": true}
	nW := 0
	for _, f := range c.ModuleFuncs() {
		an.Instrs(f, func(in ssa.Instruction) {
			st, ok := in.(*ssa.Store)
			if !ok || an.FieldOf(st.Addr) != parent {
				return
			}
			nW++
			c.Subject()
			name := c.RelName(an.OutermostParent(f))
			if _, fresh := an.FieldBase(st.Addr).(*ssa.Alloc); fresh {
				// composite literal of a brand-new Task: a constructor, nothing to steal
				c.Ob("write-Task.parent|"+name, st.Pos(), true, "constructor: initialises the owner of a freshly allocated Task")
				return
			}
			c.Ob("write-Task.parent|"+name, st.Pos(), allowedWriters[name], "ownership field Task.parent is written in %s; only SetParent and the task constructor may write it", name)
		})
	}
	allowedCallers := map[string]bool{"(*core/task.Manager).acquireTasks": true, "(*core/task.Manager).releaseTask": true}
	for _, s := range c.SitesNamed("(*core/task.Task).SetParent") {
		c.Subject()
		name := c.RelName(an.OutermostParent(s.Fn))
		c.Ob("call-SetParent|"+name, s.Call.Pos(), allowedCallers[name], "SetParent (take/drop ownership) is called from %s; only task acquisition and task release may change ownership", name)
	}
}

func isCallNamed(v ssa.Value, method string) (*ssa.Call, bool) {
	call, ok := v.(*ssa.Call)
	if ok && an.MethodName(&call.Call) == method {
		return call, true
	}
	return nil, false
}

func r04b(c *an.Ctx) {
	c.Rule("R04b", "releaseTask drops ownership only of tasks not locked by another environment; the acquire rollback unlocks only tasks of its own deployment", 2)
	fn := c.MustFn("core/task", "Manager.releaseTask")
	if fn != nil {
		c.Subject()
		sets := an.CallsNamed(fn, "(*core/task.Task).SetParent")
		key := "core/task.(*Manager).releaseTask|SetParent(nil)"
		if len(sets) != 1 {
			c.Ob(key, fn.Pos(), false, "expected exactly one SetParent call in releaseTask, found %d", len(sets))
		} else {
			// assume "locked, by another environment": SetParent must then be unreachable
			tests := 0
			var envParam *ssa.Parameter
			for _, p := range fn.Params {
				if strings.HasSuffix(p.Type().String(), "uid.ID") {
					envParam = p
				}
			}
			assume := func(v ssa.Value) (bool, bool) {
				if _, isL := isCallNamed(v, "IsLocked"); isL {
					return true, true
				}
				if bo, isB := v.(*ssa.BinOp); isB && (bo.Op == token.NEQ || bo.Op == token.EQL) {
					_, l := isCallNamed(bo.X, "GetEnvironmentId")
					_, r := isCallNamed(bo.Y, "GetEnvironmentId")
					other := bo.Y
					if r {
						other = bo.X
					}
					if (l || r) && envParam != nil && other == ssa.Value(envParam) {
						return bo.Op == token.NEQ, true
					}
				}
				return false, false
			}
			an.Instrs(fn, func(in ssa.Instruction) {
				if v, ok := in.(ssa.Value); ok {
					if _, k := assume(v); k {
						tests++
					}
				}
			})
			reach := an.FlowAssume(fn.Blocks[0], assume).Reaches(sets[0])
			c.Ob(key, sets[0].Pos(), !reach && tests >= 2, "a task that is locked and whose environment id differs from the releasing environment must not be released (IsLocked and environment-id tests found: %d; release reachable for a foreign locked task: %v)", tests, reach)
		}
	}
	fn = c.MustFn("core/task", "Manager.acquireTasks")
	if fn != nil {
		for _, ci := range an.CallsNamed(fn, "(*core/task.Task).SetParent") {
			if !an.IsNilConst(ci.Common().Args[1]) {
				continue
			}
			c.Subject()
			own, roster := false, false
			for _, l := range an.BackSlice(ci.Common().Args[0], an.SliceOpts{LeafCall: func(n string, _ *ssa.Call) bool {
				return strings.HasSuffix(n, ").filtered") || strings.HasSuffix(n, ").getTasks")
			}}) {
				if (l.Kind == "field" || l.Kind == "via") && strings.HasSuffix(l.Path, "ResourceOffersOutcome.deployed") {
					own = true
				}
				if l.Kind == "call" {
					roster = true
				}
			}
			c.Ob("core/task.(*Manager).acquireTasks|rollback-SetParent(nil)", ci.Pos(), own && !roster,
				"the deployment-failure rollback may unlock only the tasks this very deployment launched (from-own-deployment=%v from-roster=%v)", own, roster)
		}
	}
}

// notLockedPred: P = "task is not locked" for TruthOnlyIf.
func notLockedPred(v ssa.Value) (bool, bool) {
	if _, ok := isCallNamed(v, "IsLocked"); ok {
		return true, false
	}
	return false, false
}
func notLockedDirect(v ssa.Value) bool {
	if u, ok := v.(*ssa.UnOp); ok && u.Op == token.NOT {
		_, ok := isCallNamed(u.X, "IsLocked")
		return ok
	}
	return false
}

func r04c(c *an.Ctx) {
	c.Rule("R04c", "every Mesos KILL is behind a not-owned filter (or is the allow-listed emergency shutdown)", 3)
	sites := c.SitesOf(func(n string) bool { return strings.HasSuffix(n, "scheduler/calls.Kill") })
	reconName := "-"
	if rf, _ := reconcileKill(c); rf != nil {
		reconName = c.RelName(an.OutermostParent(rf))
	}
	for _, s := range sites {
		if !strings.HasPrefix(c.RelName(s.Fn), "(*core/") && !strings.HasPrefix(c.RelName(s.Fn), "core/") {
			continue
		}
		c.Subject()
		name := c.RelName(an.OutermostParent(s.Fn))
		switch name {
		case "(*core/task.Manager).EmergencyKillTasks":
			c.Allowed("R04c: EmergencyKillTasks kills every task by contract (SIGINT/SIGTERM handler of the core)")
			// it must only be called from the signal handler path
			callers := c.SitesNamed("(*core/task.Manager).EmergencyKillTasks")
			okCallers := true
			var names []string
			for _, cs := range callers {
				n := c.RelName(an.OutermostParent(cs.Fn))
				names = append(names, n)
				if !strings.Contains(n, "signal") && !strings.Contains(n, "Signal") && !strings.Contains(n, "handleSig") {
					okCallers = false
				}
			}
			sort.Strings(names)
			c.Ob("kill|"+name, s.Call.Pos(), okCallers, "allow-listed: emergency kill at process shutdown; callers must be the signal handler only (callers: %v)", names)
		case reconName:
			as, tests := ownedAssume(s.Fn)
			reach := an.FlowAssume(s.Fn.Blocks[0], as).Reaches(s.Call)
			c.Ob("kill|reconciliation", s.Call.Pos(), !reach && tests > 0, "the reconciliation KILL must be unreachable for a task that is in the roster and owned (shared with C18 R18d)")
		case "(*core/task.schedulerState).killTask":
			// chain: killTask <- doKillTask <- doKillTasks <- {Cleanup, KillTasks}, each feeding a roster.filtered(f) list with f true only if !IsLocked
			ok := true
			var why []string
			chain := []struct{ callee, caller string }{
				{"(*core/task.schedulerState).killTask", "(*core/task.Manager).doKillTask"},
				{"(*core/task.Manager).doKillTask", "(*core/task.Manager).doKillTasks"},
			}
			for _, ch := range chain {
				for _, cs := range c.SitesNamed(ch.callee) {
					if n := c.RelName(an.OutermostParent(cs.Fn)); n != ch.caller {
						ok = false
						why = append(why, fmt.Sprintf("%s is also called from %s", ch.callee, n))
					}
				}
			}
			for _, cs := range c.SitesNamed("(*core/task.Manager).doKillTasks") {
				n := c.RelName(an.OutermostParent(cs.Fn))
				if n != "(*core/task.Manager).Cleanup" && n != "(*core/task.Manager).KillTasks" {
					ok = false
					why = append(why, "doKillTasks is also called from "+n)
					continue
				}
				c.Mark(cs.Fn)
				// its argument derives from roster.filtered(closure)
				var filt *ssa.Function
				for _, l := range an.BackSlice(cs.Call.Common().Args[1], an.SliceOpts{LeafCall: func(n string, _ *ssa.Call) bool { return n == "(*core/task.roster).filtered" }}) {
					if l.Kind == "call" {
						call := l.Val.(*ssa.Call)
						filt = an.ClosureFn(call.Call.Args[1])
						if filt == nil {
							// closure stored in a local variable
							for _, ll := range an.BackSlice(call.Call.Args[1], an.SliceOpts{}) {
								if ll.Kind == "func" {
									if mc, isMC := ll.Val.(*ssa.MakeClosure); isMC {
										filt = mc.Fn.(*ssa.Function)
									}
								}
							}
						}
					} else if l.Kind == "param" || l.Kind == "field" {
						// a task list that does not come from the filtered roster
						if strings.Contains(l.Path, "Tasks") {
							ok = false
							why = append(why, n+": kill list does not come from a filtered roster")
						}
					}
				}
				if filt == nil {
					ok = false
					why = append(why, n+": the task list passed to doKillTasks does not come from roster.filtered(<closure>)")
					continue
				}
				c.Mark(filt)
				if bad := an.TruthOnlyIf(filt, notLockedPred, notLockedDirect); len(bad) > 0 {
					ok = false
					why = append(why, fmt.Sprintf("%s: the roster filter can accept a task without IsLocked()==false (return at %s)", n, c.PosStr(bad[0].Pos())))
				}
			}
			c.Ob("kill|"+name, s.Call.Pos(), ok, "tasks reach killTask only through Cleanup/KillTasks with a roster filter that rejects owned tasks %s", strings.Join(why, "; "))
		default:
			c.Ob("kill|"+name, s.Call.Pos(), false, "a Mesos KILL call in %s is not covered by any known ownership filter", name)
		}
	}
}

// r04cAtomic: in KillTasks the not-owned filter and the kill are one critical section.
func r04cAtomic(c *an.Ctx) {
	c.Rule("R04f", "KillTasks: the not-owned filter is evaluated inside the killTasksMu critical section that performs the kill (check-then-act)", 1)
	fn := c.MustFn("core/task", "Manager.KillTasks")
	if fn == nil {
		return
	}
	c.Subject()
	kills := an.CallsNamed(fn, "(*core/task.Manager).doKillTasks")
	if len(kills) != 1 {
		c.Ob("(*core/task.Manager).KillTasks|filter-and-kill-atomic", fn.Pos(), false, "expected exactly one doKillTasks call, found %d", len(kills))
		return
	}
	var filt ssa.Instruction
	for _, l := range an.BackSlice(kills[0].Common().Args[1], an.SliceOpts{LeafCall: func(n string, _ *ssa.Call) bool { return n == "(*core/task.roster).filtered" }}) {
		if l.Kind == "call" {
			filt = l.Val.(*ssa.Call)
		}
	}
	ok := false
	if filt != nil {
		for _, a := range an.HeldAt(filt) {
			for _, b := range an.HeldAt(kills[0]) {
				if a.Mode == "x" && b.Mode == "x" && a.At == b.At && strings.HasSuffix(a.Path, "Manager.killTasksMu") {
					ok = true
				}
			}
		}
	}
	c.Ob("(*core/task.Manager).KillTasks|filter-and-kill-atomic", kills[0].Pos(), ok,
		"the list of tasks to kill is filtered by ownership outside the critical section in which they are killed: while this call waits for killTasksMu another environment can claim one of the tasks, and the stale list kills a task that is now owned")
}

func r04d(c *an.Ctx) {
	c.Rule("R04d", "task reuse claims only claimable tasks", 1)
	fn := c.MustFn("core/task", "Manager.acquireTasks")
	if fn == nil {
		return
	}
	// MapUpdates into a DeploymentMap whose key derives from roster.filtered(closure)
	n := 0
	an.Instrs(fn, func(in ssa.Instruction) {
		mu, ok := in.(*ssa.MapUpdate)
		if !ok || !strings.HasSuffix(mu.Map.Type().String(), "task.DeploymentMap") {
			return
		}
		var filt *ssa.Function
		for _, l := range an.BackSlice(mu.Key, an.SliceOpts{LeafCall: func(n string, _ *ssa.Call) bool { return n == "(*core/task.roster).filtered" }}) {
			if l.Kind == "call" {
				call := l.Val.(*ssa.Call)
				for _, ll := range an.BackSlice(call.Call.Args[1], an.SliceOpts{}) {
					if ll.Kind == "func" {
						if mc, isMC := ll.Val.(*ssa.MakeClosure); isMC {
							filt = mc.Fn.(*ssa.Function)
						}
					}
				}
			}
		}
		if filt == nil {
			return
		}
		n++
		c.Subject()
		c.Mark(filt)
		bad := an.TruthOnlyIf(filt, func(v ssa.Value) (bool, bool) {
			if _, ok := isCallNamed(v, "IsClaimable"); ok {
				return true, true
			}
			return false, false
		}, func(v ssa.Value) bool { _, ok := isCallNamed(v, "IsClaimable"); return ok })
		pos := mu.Pos()
		if len(bad) > 0 {
			pos = bad[0].Pos()
		}
		c.Ob("core/task.(*Manager).acquireTasks|claim-filter", pos, len(bad) == 0, "a roster task may be claimed for a new environment only if IsClaimable() (unowned, ACTIVE, STANDBY)")
	})
	if n == 0 {
		c.Lost("claim of running tasks (DeploymentMap update from a filtered roster) in acquireTasks")
	}
	// IsClaimable itself implies !isLocked
	if ic := c.MustFn("core/task", "Task.IsClaimable"); ic != nil {
		c.Subject()
		bad := an.TruthOnlyIf(ic, func(v ssa.Value) (bool, bool) {
			if _, ok := isCallNamed(v, "isLocked"); ok {
				return true, false
			}
			return false, false
		}, nil)
		c.Ob("core/task.(*Task).IsClaimable|implies-unlocked", ic.Pos(), len(bad) == 0, "IsClaimable must be false for a locked (owned) task")
	}
}

func r04e(c *an.Ctx) {
	c.Rule("R04e", "environment registration (store into Manager.m) is preceded by the detector exclusion check and is in one critical section with the snapshot it checks against", 2)
	mField := c.Field("core/environment", "Manager", "m")
	if mField == nil {
		c.Lost("field core/environment.Manager.m")
		return
	}
	for _, f := range c.ModuleFuncs() {
		var store *ssa.MapUpdate
		an.Instrs(f, func(in ssa.Instruction) {
			if mu, ok := in.(*ssa.MapUpdate); ok && an.FieldOf(mu.Map) == mField {
				store = mu
			}
		})
		if store == nil {
			continue
		}
		c.Subject()
		c.Mark(f)
		name := c.RelName(f)
		// snapshot: call of (*Manager).GetActiveDetectors
		snaps := an.CallsNamed(f, "(*core/environment.Manager).GetActiveDetectors")
		// exclusion: a comma-ok Lookup on a value derived from the snapshot whose ok==true edge returns a non-nil error before the store
		excl := false
		var lookup *ssa.Lookup
		an.Instrs(f, func(in ssa.Instruction) {
			lk, ok := in.(*ssa.Lookup)
			if !ok || !lk.CommaOk {
				return
			}
			for _, sn := range snaps {
				if lk.X == sn.Value() && an.CanReach(lk, store) && !an.CanReach(store, lk) {
					// on the contains==true edge the function returns a non-nil error and never reaches the registration
					for _, r := range *lk.Referrers() {
						if ex, ok := r.(*ssa.Extract); ok && ex.Index == 1 {
							for _, b := range f.Blocks {
								v, trueIdx, isC := an.BoolCondEdge(b)
								if !isC || v != ssa.Value(ex) {
									continue
								}
								fl := an.FlowFromEdge(b, trueIdx, nil)
								rets := fl.ReachedReturns()
								good := len(rets) > 0 && !fl.Reaches(store)
								for _, ret := range rets {
									if len(ret.Results) != 2 || fl.Nilness(an.RetVal(ret, 1)) != 1 {
										good = false
									}
								}
								if good {
									excl = true
									lookup = lk
								}
							}
						}
					}
				}
			}
		})
		c.Ob(name+"|detector-exclusion-check", store.Pos(), excl, "an environment is registered without first checking that none of its detectors is active in another environment")
		if !excl {
			continue
		}
		// atomicity: snapshot and store under the same exclusive acquisition of Manager.mu
		atomic := false
		for _, sn := range snaps {
			if lookup.X != sn.Value() {
				continue
			}
			for _, hs := range an.HeldAt(sn) {
				for _, hu := range an.HeldAt(store) {
					if hs.Mode == "x" && hu.Mode == "x" && hs.At == hu.At && strings.HasSuffix(hs.Path, "Manager.mu") {
						atomic = true
					}
				}
			}
		}
		// the set that is checked is the one the other environments are later held against: the new environment's own
		// GetActiveDetectors() (the same function Manager.GetActiveDetectors folds over the listed environments)
		own := false
		for _, l := range an.BackSlice(lookup.Index, an.SliceOpts{LeafCall: func(n string, cl *ssa.Call) bool {
			return strings.HasSuffix(n, "core/environment.Environment).GetActiveDetectors")
		}}) {
			if l.Kind == "call" {
				own = true
			}
		}
		c.Ob(name+"|checked-set-is-the-environments-own", lookup.Pos(), own,
			"the detectors looked up in the active set do not come from the new environment's GetActiveDetectors(): the check and the later accounting of this environment's detectors (Manager.GetActiveDetectors) can disagree, e.g. when the request sets the detectors variable itself")
		c.Ob(name+"|check-then-register-atomic", store.Pos(), atomic,
			"the active-detector snapshot is taken and the environment registered under different acquisitions of Manager.mu (check-then-act): two concurrent creations needing the same detector both pass the check")
	}
	_ = types.Typ
}

// r04h: isLocked() - "owned by an environment" - also requires the task's agent, executor, host, offer and task ids to be
// non-empty. Those fields may therefore only be written where the value cannot silently become empty.
func r04h(c *an.Ctx) {
	c.Rule("R04h", "the id fields read by Task.isLocked are written only by the constructor, cleared only by the executor/agent loss handlers, and refreshed from a Mesos status only under a nil check of the id it carries", 3)
	il := c.MustFn("core/task", "Task.isLocked")
	if il == nil {
		return
	}
	fields := map[string]bool{}
	an.Instrs(il, func(in ssa.Instruction) {
		if fa, ok := in.(*ssa.FieldAddr); ok {
			if f := an.FieldOf(fa); f != nil && f.Name() != "parent" {
				fields[f.Name()] = true
			}
		}
	})
	if len(fields) < 3 {
		c.Lost("identity fields read by Task.isLocked")
		return
	}
	taskT := c.NamedType("core/task", "Task")
	for _, f := range c.ModuleFuncs() {
		an.Instrs(f, func(in ssa.Instruction) {
			st, ok := in.(*ssa.Store)
			if !ok {
				return
			}
			fa, ok := st.Addr.(*ssa.FieldAddr)
			if !ok {
				return
			}
			fld := an.FieldOf(fa)
			if fld == nil || !fields[fld.Name()] {
				return
			}
			// a field of core/task.Task
			bt := fa.X.Type()
			if p, isP := bt.(*types.Pointer); isP {
				bt = p.Elem()
			}
			if taskT == nil || !types.Identical(bt, taskT) {
				return
			}
			c.Subject()
			name := c.RelName(an.OutermostParent(f))
			key := "write|" + fld.Name() + "|" + name
			// constructor: the object is a composite literal allocated here
			if al, isAl := fa.X.(*ssa.Alloc); isAl && strings.Contains(al.Comment, "complit") {
				c.Ob(key, st.Pos(), true, "set at construction")
				return
			}
			if s, isS := an.ConstString(st.Val); isS && s == "" {
				okH := strings.HasSuffix(name, ").HandleExecutorFailed") || strings.HasSuffix(name, ").HandleAgentFailed")
				c.Ob(key, st.Pos(), okH, "an identity field is cleared in %s: only the executor/agent loss handlers may give up ownership this way", name)
				return
			}
			// refreshed from a status message: value is X.GetValue() with X = status.Get<Id>(), under X != nil
			guarded := false
			if call, isCall := an.Strip(st.Val).(*ssa.Call); isCall && an.MethodName(&call.Call) == "GetValue" {
				idMsg := an.Strip(an.Args(&call.Call)[0])
				if idCall, isIdCall := idMsg.(*ssa.Call); isIdCall {
					getter := an.MethodName(&idCall.Call)
					guarded = an.GuardedByAll(st.Block(), func(a an.Atom) bool {
						if a.Y == nil || a.Op != token.NEQ || !an.IsNilConst(a.Y) {
							return false
						}
						g, isG := an.Strip(a.X).(*ssa.Call)
						return isG && an.MethodName(&g.Call) == getter
					})
				}
			}
			c.Ob(key, st.Pos(), guarded, "%s is overwritten in %s with a value that is empty when the status message carries no such id: the task stops counting as owned (isLocked), gets killed by the next cleanup and can be claimed by another environment", fld.Name(), name)
		})
	}
}

// R04i: the active-detector set counts every listed environment whose workflow is loaded. An environment skipped for
// any other reason (being torn down, say) frees its detectors for a concurrent creation while it still holds them.
func r04i(c *an.Ctx) {
	c.Rule("R04i", "Manager.GetActiveDetectors: an environment is left out only when its workflow is not loaded yet", 1)
	fn := c.MustFn("core/environment", "Manager.GetActiveDetectors")
	if fn == nil {
		return
	}
	n := 0
	an.Instrs(fn, func(in ssa.Instruction) {
		call, ok := in.(*ssa.Call)
		if !ok || !strings.HasSuffix(an.CalleeName(&call.Call), "core/environment.Environment).GetActiveDetectors") {
			return
		}
		n++
		c.Subject()
		var extra []string
		for _, g := range an.ControlConds(call.Block()) {
			if g.LoopHeader || g.LoopExit {
				continue
			}
			okCond := false
			for _, a := range an.CondAtoms(g.V, g.Val) {
				// env.workflow != nil  /  env != nil
				for _, pair := range [][2]ssa.Value{{a.X, a.Y}, {a.Y, a.X}} {
					if pair[1] == nil || !an.IsNilConst(pair[1]) || (a.Op != token.EQL && a.Op != token.NEQ) {
						continue
					}
					if f := an.FieldOf(pair[0]); f != nil && f.Name() == "workflow" {
						okCond = true
					}
					if strings.HasSuffix(pair[0].Type().String(), "core/environment.Environment") {
						okCond = true
					}
				}
			}
			if !okCond {
				extra = append(extra, c.PosStr(condPos(g.V)))
			}
		}
		sort.Strings(extra)
		c.Ob(fmt.Sprintf("(*core/environment.Manager).GetActiveDetectors|fold#%d|only-unloaded-skipped", n), call.Pos(), len(extra) == 0,
			"whether a listed environment's detectors are counted depends on more than its workflow being loaded (conditions at %v): an environment left out keeps its detectors while a creation needing them passes the exclusion check", extra)
	})
	if n == 0 {
		c.Lost("the fold over Environment.GetActiveDetectors in Manager.GetActiveDetectors")
	}
}

package rules

import (
	"fmt"
	"go/ast"
	"go/token"
	"go/types"
	"sort"
	"strings"

	"verifchk/internal/an"

	"golang.org/x/tools/go/ssa"
)

func init() {
	register("C19", "Decides structural necessary conditions of 'published events are delivered once, in order, and flushed on shutdown': "+
		"(R19a) only the writing loop reaches the broker write function; producers and the batching loop only enqueue; (R19b) the buffer is a FIFO under its lock (append at tail, pop from index 0) with exactly one consumer and one batching goroutine per writer; "+
		"(R19c) batches have a positive constant bound; (R19d) the writing loop cannot signal completion while the buffer may be non-empty, and Close orders channel-close, wait, writer-close; "+
		"(R19e) every payload kind is convertible and every event kind carrying an environment id is keyed by it (task events by task id). Does not decide exactly-once under broker errors nor ordering under all schedules.", runC19)
}

func runC19(c *an.Ctx) {
	r19a(c)
	r19b(c)
	r19c(c)
	r19d(c)
	r19e(c)
	r19f(c)
	// round 7
	r19g(c)
	r19h(c)
	// round 8
	r19i(c)
	r19j(c)
}

const evPkg = "common/event"

func r19a(c *an.Ctx) {
	c.Rule("R19a", "layering: writeFunction / kafka WriteMessages are reached only from the writing loop", 2)
	wf := c.Field(evPkg, "KafkaWriter", "writeFunction")
	if wf == nil {
		c.Lost("field common/event.KafkaWriter.writeFunction")
		return
	}
	// dynamic calls through the field
	n := 0
	for _, f := range c.ModuleFuncs() {
		an.Instrs(f, func(in ssa.Instruction) {
			call, ok := in.(ssa.CallInstruction)
			if !ok || call.Common().IsInvoke() || call.Common().StaticCallee() != nil {
				return
			}
			if an.FieldOf(call.Common().Value) != wf {
				return
			}
			n++
			c.Subject()
			name := c.RelName(an.OutermostParent(f))
			ok2 := name == "(*common/event.KafkaWriter).writingLoop"
			if !ok2 {
				// helper called only from the writing loop (depth 1)
				callers := c.SitesOf(func(nm string) bool { return nm == name })
				ok2 = len(callers) > 0
				for _, cs := range callers {
					if c.RelName(an.OutermostParent(cs.Fn)) != "(*common/event.KafkaWriter).writingLoop" {
						ok2 = false
					}
				}
			}
			c.Ob("call-writeFunction|"+name, call.Pos(), ok2, "the broker write function is invoked from %s; only the writing loop (or a helper only it calls) may talk to the broker, producers must never wait for it", name)
		})
	}
	if n == 0 {
		c.Lost("call through KafkaWriter.writeFunction")
	}
	// WriteMessages only inside closures stored into writeFunction
	for _, s := range c.SitesOf(func(nm string) bool { return strings.HasSuffix(nm, "kafka-go.Writer).WriteMessages") }) {
		if !strings.HasPrefix(c.RelName(an.OutermostParent(s.Fn)), "common/event") && !strings.HasPrefix(c.RelName(an.OutermostParent(s.Fn)), "(*common/event") {
			continue
		}
		c.Subject()
		stored := false
		if s.Fn.Parent() != nil {
			an.Instrs(s.Fn.Parent(), func(in ssa.Instruction) {
				if st, ok := in.(*ssa.Store); ok && an.FieldOf(st.Addr) == wf && an.ClosureFn(st.Val) == s.Fn {
					stored = true
				}
			})
		}
		c.Ob("call-WriteMessages|"+c.RelName(an.OutermostParent(s.Fn)), s.Call.Pos(), stored, "kafka WriteMessages may only be called inside the function installed as writeFunction")
	}
	// producers: WriteEventWithTimestamp only sends on the channel
	if fn := c.MustFn(evPkg, "KafkaWriter.WriteEventWithTimestamp"); fn != nil {
		c.Subject()
		sends := 0
		for _, f := range an.WithAnon(fn) {
			an.Instrs(f, func(in ssa.Instruction) {
				if sd, ok := in.(*ssa.Send); ok {
					if fv := an.FieldOf(sd.Chan); fv != nil && fv.Name() == "toBatchMessagesChan" {
						sends++
					}
				}
			})
		}
		c.Ob("(*common/event.KafkaWriter).WriteEventWithTimestamp|enqueue-only", fn.Pos(), sends == 1, "a producer hands the message to the batching channel exactly once (%d sends)", sends)
	}
}

func r19b(c *an.Ctx) {
	c.Rule("R19b", "FIFO discipline under the buffer lock; exactly one writing and one batching goroutine per writer", 4)
	bufField := func(v ssa.Value) bool { f := an.FieldOf(v); return f != nil && f.Name() == "buffer" }
	if fn := c.MustFn(evPkg, "FifoBuffer.Push"); fn != nil {
		c.Subject()
		ok := false
		var at ssa.Instruction
		an.Instrs(fn, func(in ssa.Instruction) {
			st, isSt := in.(*ssa.Store)
			if !isSt || !bufField(st.Addr) {
				return
			}
			at = st
			if call, isCall := st.Val.(*ssa.Call); isCall && an.CalleeName(&call.Call) == "builtin.append" && bufField(call.Call.Args[0]) {
				// appended element is the parameter
				for _, e := range an.VariadicElems(call.Call.Args[1]) {
					for _, l := range an.BackSlice(e, an.SliceOpts{}) {
						if l.Kind == "param" {
							ok = true
						}
					}
				}
			}
		})
		locked := at != nil && len(an.HeldAt(at)) > 0
		c.Ob("(*common/event.FifoBuffer).Push|append-at-tail-under-lock", fn.Pos(), ok && locked, "Push must append the value at the tail of the buffer while holding the buffer lock (append-at-tail=%v locked=%v)", ok, locked)
	}
	if fn := c.MustFn(evPkg, "FifoBuffer.PopMultiple"); fn != nil {
		c.Subject()
		copyFromHead, resliceFromN, locked := false, false, true
		var copied *ssa.Slice // buffer[0:n] handed to copy
		var copyDst ssa.Value
		an.Instrs(fn, func(in ssa.Instruction) {
			if x, ok := in.(*ssa.Call); ok && an.CalleeName(&x.Call) == "builtin.copy" {
				if sl, ok := x.Call.Args[1].(*ssa.Slice); ok && bufField(sl.X) {
					copied, copyDst = sl, x.Call.Args[0]
				}
			}
		})
		// sameCount: v is the number of elements popped: len(result), the upper bound of the copied prefix, or the length
		// the result was made with
		sameCount := func(v ssa.Value) bool {
			if v == nil || copied == nil {
				return false
			}
			if call, ok := v.(*ssa.Call); ok && an.CalleeName(&call.Call) == "builtin.len" {
				return true // len(result) (the only other slice in the function is the buffer itself, see below)
			}
			if copied.High != nil && (copied.High == v || an.ExprKey(copied.High) == an.ExprKey(v)) {
				return true
			}
			if mk, ok := an.Strip(copyDst).(*ssa.MakeSlice); ok && (mk.Len == v || an.ExprKey(mk.Len) == an.ExprKey(v)) {
				return true
			}
			return false
		}
		an.Instrs(fn, func(in ssa.Instruction) {
			switch x := in.(type) {
			case *ssa.Call:
				if an.CalleeName(&x.Call) == "builtin.copy" {
					if sl, ok := x.Call.Args[1].(*ssa.Slice); ok && bufField(sl.X) {
						if sl.Low == nil {
							copyFromHead = true
						} else if z, ok := an.ConstInt(sl.Low); ok && z == 0 {
							copyFromHead = true
						}
					}
					if len(an.HeldAt(x)) == 0 {
						locked = false
					}
				}
			case *ssa.Store:
				if bufField(x.Addr) {
					if sl, ok := x.Val.(*ssa.Slice); ok && bufField(sl.X) && sl.Low != nil && sl.High == nil {
						if call, ok := sl.Low.(*ssa.Call); ok && an.CalleeName(&call.Call) == "builtin.len" {
							if !bufField(call.Call.Args[0]) {
								resliceFromN = true
							}
						} else if sameCount(sl.Low) {
							resliceFromN = true
						}
					}
					if len(an.HeldAt(x)) == 0 {
						locked = false
					}
				}
			}
		})
		// what is handed out never shares storage with the buffer: every returned slice is freshly made (or nil/empty)
		fresh := true
		for _, ret := range an.Returns(fn) {
			seenV := map[ssa.Value]bool{}
			var walk func(v ssa.Value)
			walk = func(v ssa.Value) {
				if v == nil || seenV[v] {
					return
				}
				seenV[v] = true
				switch x := an.Strip(v).(type) {
				case *ssa.Phi:
					for _, e := range x.Edges {
						walk(e)
					}
				case *ssa.MakeSlice, *ssa.Const:
				case *ssa.Slice:
					if al, isAl := x.X.(*ssa.Alloc); !isAl || bufField(x.X) {
						_ = al
						fresh = false
					}
				case *ssa.UnOp:
					if bufField(x) {
						fresh = false
						return
					}
					// a named result kept in a cell: what was stored into it (nothing stored = nil)
					if al, isAl := x.X.(*ssa.Alloc); isAl && al.Referrers() != nil {
						for _, r := range *al.Referrers() {
							if st, isSt := r.(*ssa.Store); isSt && st.Addr == ssa.Value(al) {
								walk(st.Val)
							}
						}
						return
					}
					fresh = false
				default:
					if bufField(v) {
						fresh = false
					}
				}
			}
			walk(an.RetVal(ret, 0))
		}
		c.Ob("(*common/event.FifoBuffer).PopMultiple|result-is-a-copy", fn.Pos(), fresh,
			"PopMultiple hands out a slice that shares its backing array with the buffer: the next Push overwrites an element of a batch the writing loop may still be sending (one event lost, another delivered twice)")
		c.Ob("(*common/event.FifoBuffer).PopMultiple|pop-from-head-under-lock", fn.Pos(), copyFromHead && resliceFromN && locked,
			"PopMultiple must copy from index 0 and drop exactly the popped prefix, under the buffer lock (copy-from-head=%v reslice=%v locked=%v)", copyFromHead, resliceFromN, locked)
	}
	// goroutines
	for _, loop := range []string{"writingLoop", "batchingLoop"} {
		c.Subject()
		name := "(*common/event.KafkaWriter)." + loop
		sites := c.SitesNamed(name)
		ok := len(sites) == 1
		for _, s := range sites {
			if _, isGo := s.Call.(*ssa.Go); !isGo || an.InLoop(s.Call.Block()) || c.RelName(s.Fn) != "common/event.NewWriterWithTopic" {
				ok = false
			}
		}
		c.Ob("spawn|"+name, token.NoPos, ok, "exactly one `go %s()` per constructed writer, in the constructor, outside any loop (%d sites)", loop, len(sites))
	}
}

func r19c(c *an.Ctx) {
	c.Rule("R19c", "PopMultiple is called with a positive constant batch bound", 1)
	for _, s := range c.SitesOf(func(n string) bool {
		return strings.Contains(n, "common/event.FifoBuffer") && strings.HasSuffix(n, ").PopMultiple")
	}) {
		if strings.Contains(c.RelName(s.Fn), "_test") {
			continue
		}
		c.Subject()
		v, ok := an.ConstInt(s.Call.Common().Args[1])
		c.Ob("PopMultiple-bound|"+c.RelName(an.OutermostParent(s.Fn)), s.Call.Pos(), ok && v > 0 && v <= 10000, "batch size must be a positive constant (got const=%v value=%d)", ok, v)
	}
}

func r19d(c *an.Ctx) {
	c.Rule("R19d", "shutdown: the writing loop signals Done only with the buffer established empty after the done signal; Close: close channel, wait, close writer; batching loop signals done only after its range ends", 3)
	if fn := c.MustFn(evPkg, "KafkaWriter.writingLoop"); fn != nil {
		c.Subject()
		key := "(*common/event.KafkaWriter).writingLoop|flush-before-done"
		dones := an.CallsNamed(fn, "(*sync.WaitGroup).Done")
		var sel ssa.Instruction
		an.Instrs(fn, func(in ssa.Instruction) {
			switch x := in.(type) {
			case *ssa.Select:
				sel = x
			case *ssa.UnOp:
				if x.Op == token.ARROW {
					if f := an.FieldOf(x.X); f != nil && f.Name() == "batchingLoopDoneCh" {
						sel = x
					}
				}
			}
		})
		if len(dones) == 0 || sel == nil {
			c.Ob(key, fn.Pos(), false, "no Done() call or no receive of the shutdown signal found in the writing loop")
		}
		// "after seeing the signal": dominated by the receive, or unreachable once the case that received the signal is
		// removed from the select (the signal may be carried to the flush by a flag that ends the loop)
		var noSignal *an.Flow
		if sl, isSel := sel.(*ssa.Select); isSel {
			k := -1
			for i, st := range sl.States {
				if f := an.FieldOf(st.Chan); f != nil && f.Name() == "batchingLoopDoneCh" && st.Dir == types.RecvOnly {
					k = i
				}
			}
			if k >= 0 {
				noSignal = an.FlowFrom(fn.Blocks[0], func(b *ssa.BasicBlock, succ int) bool {
					ifi, ok := b.Instrs[len(b.Instrs)-1].(*ssa.If)
					if !ok || succ != 0 {
						return false
					}
					bo, isBo := ifi.Cond.(*ssa.BinOp)
					if !isBo || bo.Op != token.EQL {
						return false
					}
					ex, isEx := bo.X.(*ssa.Extract)
					kk, isK := an.ConstInt(bo.Y)
					return isEx && ex.Tuple == ssa.Value(sl) && ex.Index == 0 && isK && int(kk) == k
				})
			}
		}
		afterSignal := func(at ssa.Instruction) bool {
			if at == nil || sel == nil {
				return false
			}
			if an.Dominates(sel, at) {
				return true
			}
			return noSignal != nil && !noSignal.Reaches(at)
		}
		for _, d := range dones {
			emptyKnown := false
			for _, g := range an.Guards(d.Block()) {
				if at, empty := emptinessCond(g); empty && afterSignal(at) && afterSignal(d) {
					emptyKnown = true
				}
			}
			c.Ob(key, d.Pos(), emptyKnown,
				"the writing loop calls Done() on the shutdown signal without having established (after seeing the signal) that the buffer is empty: everything still buffered beyond the batch in flight is dropped at shutdown")
		}
	}
	if fn := c.MustFn(evPkg, "KafkaWriter.Close"); fn != nil {
		c.Subject()
		var cl, wait, wclose ssa.Instruction
		an.Instrs(fn, func(in ssa.Instruction) {
			if call, ok := in.(*ssa.Call); ok {
				n := an.CalleeName(&call.Call)
				switch {
				case n == "builtin.close":
					cl = in
				case n == "(*sync.WaitGroup).Wait":
					wait = in
				case strings.HasSuffix(n, "kafka-go.Writer).Close"):
					wclose = in
				}
			}
		})
		ok := cl != nil && wait != nil && wclose != nil && an.Dominates(cl, wait) && an.Dominates(wait, wclose)
		c.Ob("(*common/event.KafkaWriter).Close|close-wait-close", fn.Pos(), ok, "Close must close the producers' channel, then wait for both loops, then close the broker writer")
	}
	if fn := c.MustFn(evPkg, "KafkaWriter.batchingLoop"); fn != nil {
		c.Subject()
		var send ssa.Instruction
		an.Instrs(fn, func(in ssa.Instruction) {
			if sd, ok := in.(*ssa.Send); ok {
				send = sd
			}
		})
		pushes := an.Calls(fn, func(n string, _ ssa.CallInstruction) bool { return strings.HasSuffix(n, ").Push") })
		ok := send != nil && len(pushes) == 1 && !an.InLoop(send.Block()) && !an.CanReach(send, pushes[0]) && an.CanReach(pushes[0], send)
		dones := an.CallsNamed(fn, "(*sync.WaitGroup).Done")
		ok = ok && len(dones) == 1 && an.Dominates(send, dones[0])
		c.Ob("(*common/event.KafkaWriter).batchingLoop|done-after-range", fn.Pos(), ok, "the batching loop must push every message of the channel into the buffer before it signals done, and call Done() exactly once after that")
	}
}

// emptinessCond: guard says "buffer empty": Length() ==/<=/> 0 with the right polarity, or
// len(PopMultiple(..)) == 0; evaluated after the shutdown signal (dominated by sel).
func emptinessCond(g an.Cond) (ssa.Instruction, bool) {
	bo, ok := g.V.(*ssa.BinOp)
	if !ok {
		return nil, false
	}
	zero := func(v ssa.Value) bool { z, ok := an.ConstInt(v); return ok && z == 0 }
	isLenCall := func(v ssa.Value) (ssa.Instruction, bool) {
		call, ok := v.(*ssa.Call)
		if !ok {
			return nil, false
		}
		n := an.CalleeName(&call.Call)
		if strings.HasSuffix(n, ").Length") && strings.Contains(n, "FifoBuffer") {
			return call, true
		}
		if n == "builtin.len" {
			if inner, ok := call.Call.Args[0].(*ssa.Call); ok && strings.HasSuffix(an.CalleeName(&inner.Call), ").PopMultiple") {
				return inner, true
			}
		}
		return nil, false
	}
	var at ssa.Instruction
	empty := false
	if in, ok := isLenCall(bo.X); ok && zero(bo.Y) {
		at = in
		switch bo.Op {
		case token.EQL, token.LEQ:
			empty = g.Val
		case token.GTR, token.NEQ:
			empty = !g.Val
		}
	} else if in, ok := isLenCall(bo.Y); ok && zero(bo.X) {
		at = in
		switch bo.Op {
		case token.EQL, token.GEQ:
			empty = g.Val
		case token.LSS, token.NEQ:
			empty = !g.Val
		}
	}
	return at, empty && at != nil
}

func r19e(c *an.Ctx) {
	c.Rule("R19e", "every isEvent_Payload implementer is produced by internalEventToKafkaEvent; every event kind with GetEnvironmentId() is keyed by it", 9)
	fd, info := c.FuncDecl(evPkg, "internalEventToKafkaEvent")
	if fd == nil {
		c.Lost("common/event.internalEventToKafkaEvent")
		return
	}
	pbPkg := c.TPkg("common/protos")
	if pbPkg == nil {
		c.Lost("package common/protos")
		return
	}
	var payloadIface *types.Interface
	if obj := pbPkg.Types.Scope().Lookup("isEvent_Payload"); obj != nil {
		payloadIface, _ = obj.Type().Underlying().(*types.Interface)
	}
	if payloadIface == nil {
		c.Lost("interface protos.isEvent_Payload")
		return
	}
	implementers := map[string]bool{}
	for _, name := range pbPkg.Types.Scope().Names() {
		tn, ok := pbPkg.Types.Scope().Lookup(name).(*types.TypeName)
		if !ok {
			continue
		}
		if _, isI := tn.Type().Underlying().(*types.Interface); isI {
			continue
		}
		if types.Implements(types.NewPointer(tn.Type()), payloadIface) {
			implementers[name] = true
		}
	}
	produced := map[string]bool{}
	var ts *ast.TypeSwitchStmt
	ast.Inspect(fd, func(n ast.Node) bool {
		if t, ok := n.(*ast.TypeSwitchStmt); ok && ts == nil {
			ts = t
		}
		return true
	})
	if ts == nil {
		c.Lost("type switch in internalEventToKafkaEvent")
		return
	}
	var swVar *types.Var
	_ = swVar
	for _, cl := range ts.Body.List {
		cc := cl.(*ast.CaseClause)
		if cc.List == nil {
			continue
		}
		for _, te := range cc.List {
			t := info.Types[te].Type
			if t == nil {
				continue
			}
			c.Subject()
			tname := an.TypeShort(t)
			// payload produced
			ast.Inspect(cc, func(n ast.Node) bool {
				if lit, ok := n.(*ast.CompositeLit); ok {
					if lt := info.Types[lit].Type; lt != nil {
						if named, ok := lt.(*types.Named); ok && implementers[named.Obj().Name()] {
							produced[named.Obj().Name()] = true
						}
					}
				}
				return true
			})
			// has GetEnvironmentId() string ?
			ms := types.NewMethodSet(t)
			hasEnv := false
			if sel := ms.Lookup(pbPkg.Types, "GetEnvironmentId"); sel != nil {
				if sig, ok := sel.Type().(*types.Signature); ok && sig.Params().Len() == 0 && sig.Results().Len() == 1 && sig.Results().At(0).Type().String() == "string" {
					hasEnv = true
				}
			}
			keyed, keyedByEnv := false, false
			ast.Inspect(cc, func(n ast.Node) bool {
				as, ok := n.(*ast.AssignStmt)
				if !ok {
					return true
				}
				for i, lhs := range as.Lhs {
					if id, ok := lhs.(*ast.Ident); ok && id.Name == "key" && i < len(as.Rhs) {
						if bl, isLit := as.Rhs[i].(*ast.Ident); isLit && bl.Name == "nil" {
							continue
						}
						keyed = true
						ast.Inspect(as.Rhs[i], func(m ast.Node) bool {
							if ce, ok := m.(*ast.CallExpr); ok {
								if fid, ok := ce.Fun.(*ast.Ident); ok {
									if fo, ok := info.Uses[fid].(*types.Func); ok && fo.Name() == "extractAndConvertEnvID" {
										keyedByEnv = true
									}
								}
								if se, ok := ce.Fun.(*ast.SelectorExpr); ok && se.Sel.Name == "GetEnvironmentId" {
									keyedByEnv = true
								}
							}
							if se, ok := m.(*ast.SelectorExpr); ok && se.Sel.Name == "EnvironmentId" {
								keyedByEnv = true
							}
							return true
						})
					}
				}
				return true
			})
			switch {
			case strings.HasSuffix(tname, "Ev_TaskEvent"):
				c.Allowed("R19e: Ev_TaskEvent is keyed by task id (docs/kafka.md), not by environment id")
				c.Ob("key|"+tname, cc.Pos(), keyed, "task events must carry the task id as partition key")
			case hasEnv:
				c.Ob("key|"+tname, cc.Pos(), keyedByEnv, "event kind %s has an environment id but is not keyed by it: events about one environment may land in different partitions and lose their order", tname)
			default:
				c.Ob("key|"+tname, cc.Pos(), true, "event kind without environment id: no key required")
			}
		}
	}
	// extractAndConvertEnvID uses GetEnvironmentId
	var missing []string
	for n := range implementers {
		if !produced[n] {
			missing = append(missing, n)
		}
	}
	sort.Strings(missing)
	c.Subject()
	c.Ob("payload-kinds-covered", fd.Pos(), len(missing) == 0 && len(implementers) >= 9, "every payload kind of protos.Event must be produced by a case of the conversion (%d kinds; not produced: %v)", len(implementers), missing)
	_ = fmt.Sprint
}

// R19f: one writer per topic. The registry decides "no writer yet" and registers the new one in the same exclusive
// critical section; with the test made under another (or no) hold of the lock two first users of a topic each
// create a writer, the second registration replaces the first, and the replaced writer - which still accepts
// events - is never closed by ClearEventWriters: shutdown completes without its events having been handed over.
func r19f(c *an.Ctx) {
	c.Rule("R19f", "event writer registry: lookup miss and registration of a new writer happen under one exclusive hold of the registry lock", 1)
	fn := c.MustFn("core/the", "createOrGetWriter")
	if fn == nil {
		return
	}
	isRegistry := func(v ssa.Value) bool {
		u, ok := v.(*ssa.UnOp)
		if !ok || u.Op != token.MUL {
			return false
		}
		g, isG := u.X.(*ssa.Global)
		return isG && an.IsMapType(g.Type().Underlying().(*types.Pointer).Elem())
	}
	var lookups []ssa.Instruction
	an.Instrs(fn, func(in ssa.Instruction) {
		if lk, ok := in.(*ssa.Lookup); ok && isRegistry(lk.X) {
			lookups = append(lookups, lk)
		}
	})
	n := 0
	an.Instrs(fn, func(in ssa.Instruction) {
		mu, ok := in.(*ssa.MapUpdate)
		if !ok || !isRegistry(mu.Map) {
			return
		}
		c.Subject()
		var held *ssa.Call
		for _, h := range an.HeldAt(mu) {
			if h.Mode == "x" {
				held, _ = h.At.(*ssa.Call)
			}
		}
		tested := false
		if held != nil {
			for _, lk := range lookups {
				if an.Dominates(held, lk) && an.Dominates(lk, mu) {
					tested = true
				}
			}
		}
		c.Ob(fmt.Sprintf("core/the.createOrGetWriter|register#%d|miss-tested-in-same-section", n), mu.Pos(), held != nil && tested,
			"a writer is registered here (exclusive lock held: %v) without the registry having been looked up since that lock was taken (%v): two concurrent first users of a topic both register a writer, the first one is replaced and never closed at shutdown, and one producer's events are split over two independent pipelines", held != nil, tested)
		n++
	})
	if n == 0 {
		c.Lost("registration into the writers map in core/the.createOrGetWriter")
	}
}

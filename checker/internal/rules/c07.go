package rules

import (
	"fmt"
	"go/token"
	"go/types"
	"sort"
	"strings"

	"verifchk/internal/an"

	"golang.org/x/tools/go/ssa"
)

func init() {
	register("C07", "Decides structural necessary conditions of 'run numbers are unique and strictly increasing': "+
		"(R07a) the Consul counter is advanced only by consistent read -> +1 -> compare-and-set on the very pair that was read (or a fresh pair with ModifyIndex 0), a refused CAS is a non-nil error, and the number returned is the number written; "+
		"(R07b) every other backend's read-modify-write of the counter lies in one exclusive critical section; "+
		"(R07c) the only consumer is before_START_ACTIVITY, which cancels the start when no number is obtained, and the current run number is only ever set to that result or reset to 0. "+
		"Does not decide Consul's atomicity, foreign writers that decrease the key, or uint32 wrap.", runC07)
}

func runC07(c *an.Ctx) {
	r07a(c)
	r07b(c)
	r07c(c)
	r07d(c)
	// round 7: run numbers are never handed out by the cache proxy itself
	passThrough(c, "R07e", "cacheproxy.NewRunNumber is a plain pass-through to the wrapped service", []string{"NewRunNumber"}, "a number fetched ahead of time, or kept, is handed out after numbers drawn later by others (or twice): run numbers are no longer increasing in the order of the starts")
	c.As(map[string]string{"R18j": "R07f"}, func() { r18j(c) })
	// round 9
	r07g(c)
}

func r07a(c *an.Ctx) {
	c.Rule("R07a", "ConsulSource.GetNextUInt32: consistent Get, single increment, CAS on the pair read, refused CAS is an error, no Put", 1)
	entry := c.MustFn("configuration/cfgbackend", "ConsulSource.GetNextUInt32")
	if entry == nil {
		return
	}
	// the function that performs the compare-and-set (the entry point itself, or a helper it delegates to)
	fn := entry
	if len(an.CallsSuffix(entry, "consul/api.KV).CAS")) == 0 {
		for _, ci := range an.Calls(entry, func(n string, ci ssa.CallInstruction) bool { return ci.Common().StaticCallee() != nil }) {
			cal := ci.Common().StaticCallee()
			if cal.Pkg == entry.Pkg && len(an.CallsSuffix(cal, "consul/api.KV).CAS")) > 0 {
				fn = cal
				c.Mark(fn)
			}
		}
		// the wrapper only hands back what the helper returned
		okWrap := fn != entry
		for _, ret := range an.Returns(entry) {
			for i := range ret.Results {
				fromHelper := false
				zero := false
				seen := map[ssa.Value]bool{}
				var walk func(v ssa.Value)
				walk = func(v ssa.Value) {
					if v == nil || seen[v] {
						return
					}
					seen[v] = true
					switch x := v.(type) {
					case *ssa.Phi:
						for _, e := range x.Edges {
							walk(e)
						}
					case *ssa.Extract:
						if call, ok := x.Tuple.(*ssa.Call); ok && call.Call.StaticCallee() == fn {
							fromHelper = true
						}
					case *ssa.Const:
						zero = true
					default:
						okWrap = false
					}
				}
				walk(an.RetVal(ret, i))
				if !fromHelper && !zero {
					okWrap = false
				}
			}
		}
		c.Ob("(*configuration/cfgbackend.ConsulSource).GetNextUInt32|delegates", entry.Pos(), okWrap, "GetNextUInt32 delegates the compare-and-set to a helper; it must return exactly what the helper returned")
	}
	c.Subject()
	key := "(*configuration/cfgbackend.ConsulSource).GetNextUInt32"
	gets := an.CallsSuffix(fn, "consul/api.KV).Get")
	cass := an.CallsSuffix(fn, "consul/api.KV).CAS")
	puts := an.CallsSuffix(fn, "consul/api.KV).Put")
	if len(gets) < 1 || len(cass) < 1 {
		c.Ob(key+"|get-cas", fn.Pos(), false, "expected a KV.Get and a KV.CAS (found %d/%d)", len(gets), len(cass))
		return
	}
	c.Ob(key+"|no-put", fn.Pos(), len(puts) == 0, "the counter must never be written with an unconditional Put")
	isGet := map[ssa.Value]bool{}
	for _, g := range gets {
		isGet[g.(*ssa.Call)] = true
	}
	get := gets[0].(*ssa.Call)
	cas := cass[0].(*ssa.Call)
	// consistent read (every Get)
	consistent := true
	for _, g := range gets {
		okG := false
		if al, ok := g.Common().Args[2].(*ssa.Alloc); ok && al.Referrers() != nil {
			for _, r := range *al.Referrers() {
				if fa, ok := r.(*ssa.FieldAddr); ok && isFieldNamed(fa, "RequireConsistent") && fa.Referrers() != nil {
					for _, rr := range *fa.Referrers() {
						if st, ok := rr.(*ssa.Store); ok {
							if cst, ok := st.Val.(*ssa.Const); ok && cst.Value != nil && cst.Value.String() == "true" {
								okG = true
							}
						}
					}
				}
			}
		}
		if !okG {
			consistent = false
		}
	}
	c.Ob(key+"|consistent-read", get.Pos(), consistent, "the counter must be read with RequireConsistent: true (a stale read makes the CAS fail needlessly or, with a stale index, succeed wrongly)")
	// the pair given to CAS: phi of {Get result #0, fresh literal with ModifyIndex 0}
	okPair := true
	var why []string
	seen := map[ssa.Value]bool{}
	var chk func(v ssa.Value)
	chk = func(v ssa.Value) {
		if seen[v] {
			return
		}
		seen[v] = true
		switch x := v.(type) {
		case *ssa.Phi:
			for _, e := range x.Edges {
				chk(e)
			}
		case *ssa.Extract:
			if !isGet[x.Tuple] || x.Index != 0 {
				okPair = false
				why = append(why, "pair from another call")
			}
		case *ssa.Alloc:
			// fresh literal: only when the key does not exist yet (Get returned a nil pair) ...
			nilKnown := false
			for _, a := range an.Atoms(x.Block()) {
				if a.Op == token.EQL && a.Y != nil && an.IsNilConst(a.Y) {
					if ex, ok := a.X.(*ssa.Extract); ok && isGet[ex.Tuple] && ex.Index == 0 {
						nilKnown = true
					}
				}
			}
			if !nilKnown {
				okPair = false
				why = append(why, "a fresh pair (without the ModifyIndex that was read) is used although the key may exist")
			}
			// ... and its ModifyIndex must be the constant 0 (or left zero)
			for _, r := range *x.Referrers() {
				if fa, ok := r.(*ssa.FieldAddr); ok && isFieldNamed(fa, "ModifyIndex") && fa.Referrers() != nil {
					for _, rr := range *fa.Referrers() {
						if st, ok := rr.(*ssa.Store); ok {
							if z, isC := an.ConstInt(st.Val); !isC || z != 0 {
								okPair = false
								why = append(why, "fresh pair with a non-zero ModifyIndex")
							}
						}
					}
				}
			}
		case *ssa.UnOp:
			// load of a cell holding the pair pointer
			if al, ok := x.X.(*ssa.Alloc); ok && x.Op == token.MUL {
				for _, st := range an.ReachingStores(x) {
					_ = al
					chk(st.Val)
				}
			} else {
				okPair = false
				why = append(why, "pair of unknown provenance")
			}
		default:
			okPair = false
			why = append(why, "pair of unknown provenance")
		}
	}
	for _, cs := range cass {
		chk(cs.Common().Args[1])
	}
	// no store to ModifyIndex of the read pair anywhere
	an.Instrs(fn, func(in ssa.Instruction) {
		st, ok := in.(*ssa.Store)
		if !ok || !isFieldNamed(st.Addr, "ModifyIndex") {
			return
		}
		if _, fresh := an.FieldBase(st.Addr).(*ssa.Alloc); !fresh {
			okPair = false
			why = append(why, "ModifyIndex of the pair that was read is overwritten")
		}
	})
	c.Ob(key+"|cas-on-read-pair", cas.Pos(), okPair, "CAS must be given the pair returned by Get (its ModifyIndex is the compare value) or a fresh pair with ModifyIndex 0 %v", why)
	// refused CAS => non-nil error
	refused := false
	for _, r := range *cas.Referrers() {
		ex, ok := r.(*ssa.Extract)
		if !ok || ex.Index != 0 {
			continue
		}
		for _, b := range fn.Blocks {
			if !an.KnownFalse(b, ex) {
				continue
			}
			// every return dominated by b returns a non-nil error
			for _, ret := range an.Returns(fn) {
				if b.Dominates(ret.Block()) || ret.Block() == b {
					if an.NonNil(an.RetVal(ret, 1)) {
						refused = true
					}
				}
			}
			// error assigned in b and flowing to the common return
			for _, in := range b.Instrs {
				if call, ok := in.(*ssa.Call); ok && an.NonNil(call) && call.Type().String() == "error" {
					for _, ret := range an.Returns(fn) {
						if p, ok := an.RetVal(ret, 1).(*ssa.Phi); ok {
							for _, e := range p.Edges {
								if e == ssa.Value(call) {
									refused = true
								}
							}
						}
						if an.RetVal(ret, 1) == ssa.Value(call) {
							refused = true
						}
					}
				}
			}
		}
	}
	c.Ob(key+"|refused-cas-is-error", cas.Pos(), refused, "when CAS answers false (someone else advanced the counter) the function must return a non-nil error instead of the number")
	// single increment and returned == written
	var adds []*ssa.BinOp
	an.Instrs(fn, func(in ssa.Instruction) {
		if bo, ok := in.(*ssa.BinOp); ok && bo.Op == token.ADD {
			if k, isC := an.ConstInt(bo.Y); isC && k == 1 {
				// increments of the value parsed from the pair (a loop counter is not one)
				for _, l := range an.BackSlice(bo.X, an.SliceOpts{LeafCall: func(n string, _ *ssa.Call) bool { return n == "strconv.ParseUint" }}) {
					if l.Kind == "call" {
						adds = append(adds, bo)
						break
					}
				}
			}
		}
	})
	okInc := len(adds) == 1
	if okInc {
		inc := adds[0]
		// written: value stored to kvp.Value derives from inc; returned: result 0 is inc on the success path
		written, returned := false, false
		an.Instrs(fn, func(in ssa.Instruction) {
			if st, ok := in.(*ssa.Store); ok && isFieldNamed(st.Addr, "Value") {
				for _, l := range an.BackSlice(st.Val, an.SliceOpts{}) {
					_ = l
				}
				if sliceContains(st.Val, inc) {
					written = true
				}
			}
		})
		for _, ret := range an.Returns(fn) {
			if sliceContains(an.RetVal(ret, 0), inc) {
				returned = true
			}
		}
		// the incremented operand derives from the parsed value of the pair
		fromParsed := false
		for _, l := range an.BackSlice(inc.X, an.SliceOpts{LeafCall: func(n string, _ *ssa.Call) bool { return n == "strconv.ParseUint" }}) {
			if l.Kind == "call" {
				fromParsed = true
			}
		}
		okInc = written && returned && fromParsed
	}
	c.Ob(key+"|single-increment", fn.Pos(), okInc, "the value read must be incremented exactly once, and the same incremented value must be both written and returned (%d increments)", len(adds))
}

// sliceContains: value target is in the value-only backward slice of v (phis, conversions, calls' args).
func sliceContains(v, target ssa.Value) bool {
	seen := map[ssa.Value]bool{}
	var walk func(x ssa.Value) bool
	walk = func(x ssa.Value) bool {
		if x == nil || seen[x] {
			return false
		}
		seen[x] = true
		if x == target {
			return true
		}
		switch y := x.(type) {
		case *ssa.Phi:
			for _, e := range y.Edges {
				if walk(e) {
					return true
				}
			}
		case *ssa.Convert:
			return walk(y.X)
		case *ssa.ChangeType:
			return walk(y.X)
		case *ssa.Call:
			for _, a := range y.Call.Args {
				if walk(a) {
					return true
				}
			}
		case *ssa.UnOp:
			if y.Op == token.MUL {
				if al, ok := y.X.(*ssa.Alloc); ok && al.Referrers() != nil {
					for _, r := range *al.Referrers() {
						if st, ok := r.(*ssa.Store); ok && st.Addr == ssa.Value(al) && walk(st.Val) {
							return true
						}
					}
				}
			}
		}
		return false
	}
	return walk(v)
}

func r07b(c *an.Ctx) {
	c.Rule("R07b", "every NewRunNumber backend that reads and rewrites a counter does so by CAS or inside one exclusive critical section", 1)
	for _, f := range c.ModuleFuncs() {
		if f.Name() != "NewRunNumber" || f.Signature.Recv() == nil {
			continue
		}
		var reads, writes []ssa.Instruction
		an.Instrs(f, func(in ssa.Instruction) {
			call, ok := in.(*ssa.Call)
			if !ok {
				return
			}
			n := an.CalleeName(&call.Call)
			switch {
			case n == "io/ioutil.ReadFile" || n == "os.ReadFile" || strings.HasSuffix(n, "KV).Get"):
				reads = append(reads, in)
			case n == "io/ioutil.WriteFile" || n == "os.WriteFile" || strings.HasSuffix(n, "KV).Put"):
				writes = append(writes, in)
			}
		})
		if len(reads) == 0 || len(writes) == 0 {
			continue // delegating implementation
		}
		c.Subject()
		c.Mark(f)
		ok := true
		for _, r := range reads {
			for _, w := range writes {
				if !an.CanReach(r, w) {
					continue
				}
				same := false
				for _, hr := range an.HeldAt(r) {
					for _, hw := range an.HeldAt(w) {
						if hr.At == hw.At && hr.Mode == "x" {
							same = true
						}
					}
				}
				if !same {
					ok = false
				}
			}
		}
		// the stored counter is taken as it is: what is parsed is what was read - no default is substituted for an
		// empty or damaged file (an interrupted rewrite leaves one) - and a parse failure is returned as an error
		for _, pc := range an.Calls(f, func(n string, _ ssa.CallInstruction) bool {
			return n == "strconv.ParseUint" || n == "strconv.ParseInt" || n == "strconv.Atoi"
		}) {
			call, isCall := pc.(*ssa.Call)
			if !isCall {
				continue
			}
			okSrc, fromRead := true, false
			seenV := map[ssa.Value]bool{}
			var walk func(v ssa.Value)
			walk = func(v ssa.Value) {
				if v == nil || seenV[v] {
					return
				}
				seenV[v] = true
				switch x := v.(type) {
				case *ssa.Phi:
					for _, e := range x.Edges {
						walk(e)
					}
				case *ssa.Const:
					okSrc = false // a constant can reach the parser: a default stands in for the stored value
				case *ssa.Convert:
					walk(x.X)
				case *ssa.ChangeType:
					walk(x.X)
				case *ssa.Slice:
					walk(x.X)
				case *ssa.Extract:
					for _, r := range reads {
						if x.Tuple == r.(ssa.Value) && x.Index == 0 {
							fromRead = true
						}
					}
				case *ssa.Call:
					n := an.CalleeName(&x.Call)
					if strings.HasPrefix(n, "strings.Trim") || n == "bytes.TrimSpace" || strings.HasPrefix(n, "bytes.Trim") {
						walk(x.Call.Args[0])
					}
				case *ssa.UnOp:
					if al, isAl := x.X.(*ssa.Alloc); isAl && al.Referrers() != nil {
						for _, r := range *al.Referrers() {
							if st, isSt := r.(*ssa.Store); isSt && st.Addr == ssa.Value(al) {
								walk(st.Val)
							}
						}
					}
				}
			}
			walk(call.Call.Args[0])
			errOK := false
			if ev := errResult(call); ev != nil {
				for _, b := range f.Blocks {
					x, nilIdx, isNilTest := an.NilCondEdge(b)
					if !isNilTest || !an.DerivesFrom(x, ev) || !an.Dominates(call, b.Instrs[len(b.Instrs)-1]) {
						continue
					}
					fl := an.FlowFromEdge(b, 1-nilIdx, nil, ev, x)
					rets := fl.ReachedReturns()
					good := len(rets) > 0
					for _, ret := range rets {
						if fl.Nilness(an.RetVal(ret, len(ret.Results)-1)) != 1 {
							good = false
						}
					}
					for _, w := range writes {
						if fl.Reaches(w) {
							good = false
						}
					}
					if good {
						errOK = true
					}
				}
			}
			c.Ob(c.RelName(f)+"|stored-counter-taken-as-is", call.Pos(), okSrc && fromRead && errOK,
				"the number parsed must be exactly what was read from the counter (from-read=%v, no constant default=%v) and a parse failure must be returned without rewriting the counter (%v): treating an empty or damaged counter file as 0 makes a restarted core hand out run numbers again", fromRead, okSrc, errOK)
		}
		// the counter is (re)initialised with a constant only when it does not exist at all: an existing but empty or
		// unreadable counter (an interrupted rewrite leaves one) must not be taken for a fresh installation
		for wi, w := range writes {
			wc := w.(*ssa.Call)
			if len(wc.Call.Args) < 2 {
				continue
			}
			fromCounter := false
			for _, l := range an.BackSlice(wc.Call.Args[1], an.SliceOpts{LeafCall: func(n string, _ *ssa.Call) bool {
				return n == "io/ioutil.ReadFile" || n == "os.ReadFile" || strings.HasSuffix(n, "KV).Get")
			}}) {
				if l.Kind == "call" {
					fromCounter = true
				}
			}
			if fromCounter {
				continue
			}
			onlyAbsent := an.GuardedByAll(w.Block(), func(a an.Atom) bool {
				call, isCall := a.X.(*ssa.Call)
				if !isCall || a.Y != nil || !a.Val {
					return false
				}
				n := an.CalleeName(&call.Call)
				return n == "os.IsNotExist" || n == "errors.Is"
			})
			c.Ob(fmt.Sprintf("%s|init-write#%d|only-when-absent", c.RelName(f), wi), w.Pos(), onlyAbsent,
				"the counter is written with a value that does not come from the stored counter, and not only when the counter does not exist (os.IsNotExist): an existing counter that is empty or damaged is reset and run numbers are handed out again")
		}
		c.Ob(c.RelName(f)+"|read-modify-write-atomic", f.Pos(), ok,
			"this backend reads the run counter, increments it and writes it back with no lock and no compare-and-set: two environments starting at the same time read the same value and get the same run number")
	}
}

func r07c(c *an.Ctx) {
	c.Rule("R07c", "the run number is obtained only in before_START_ACTIVITY; failure cancels the start; currentRunNumber is only set to that result or 0", 3)
	cb := envCallbacks(c)
	if cb == nil {
		return
	}
	be := cb["before_event"]
	// consumers in core/
	for _, s := range c.SitesOf(func(n string) bool { return strings.HasSuffix(n, ").NewRunNumber") }) {
		rel := c.RelName(an.OutermostParent(s.Fn))
		if !strings.Contains(rel, "core/") || strings.Contains(rel, "core/integration") {
			continue
		}
		c.Subject()
		c.Ob("NewRunNumber-consumer|"+rel, s.Call.Pos(), s.Fn == be, "a run number is requested outside the before_START_ACTIVITY callback (%s)", rel)
		if s.Fn != be {
			continue
		}
		call := s.Call.(*ssa.Call)
		// guarded by e.Event == "START_ACTIVITY"
		start := false
		for _, a := range an.Atoms(call.Block()) {
			if a.Op == token.EQL && a.Y != nil {
				if str, ok := an.ConstString(a.Y); ok && str == "START_ACTIVITY" && isFieldNamed(a.X, "Event") {
					start = true
				}
			}
		}
		c.Ob("core/environment.newEnvironment[before_event]|run-number-only-on-START", call.Pos(), start, "NewRunNumber must be requested only when the event is START_ACTIVITY")
		// ... and on every START_ACTIVITY: beyond the event selection nothing conditions the request (a start that
		// re-uses the number still stored from a run that ended abnormally gives two runs one number)
		var extra []string
		for _, g := range an.ControlConds(call.Block()) {
			if g.LoopHeader || g.LoopExit {
				continue
			}
			for _, a := range an.CondAtoms(g.V, g.Val) {
				okAtom := false
				if a.Y != nil {
					if _, isS := an.ConstString(a.Y); isS && isFieldNamed(a.X, "Event") {
						okAtom = true
					}
					if an.IsNilConst(a.Y) || an.IsNilConst(a.X) {
						okAtom = true
					}
				}
				if !okAtom {
					p := c.PosStr(atomPos(a))
					dup := false
					for _, e := range extra {
						dup = dup || e == p
					}
					if !dup {
						extra = append(extra, p)
					}
				}
			}
		}
		c.Ob("core/environment.newEnvironment[before_event]|every-start-draws-a-number", call.Pos(), len(extra) == 0, "whether START_ACTIVITY requests a new run number depends on further conditions (at %v): a start for which they do not hold runs under a number that was given out before", extra)
		// error edge: Cancel + return before the number is stored
		var errV ssa.Value
		for _, r := range *call.Referrers() {
			if ex, ok := r.(*ssa.Extract); ok && ex.Index == 1 {
				errV = ex
			}
		}
		okErr := false
		if errV != nil {
			var stores []ssa.Instruction
			an.Instrs(be, func(in ssa.Instruction) {
				if st, ok := in.(*ssa.Store); ok && isFieldNamed(st.Addr, "currentRunNumber") {
					stores = append(stores, st)
				}
			})
			for _, t := range an.ErrTests(errV) {
				cancelled := false
				for _, cn := range an.CallsNamed(be, fsmCancel) {
					if cn.Block() == t.NonNilSucc && cancelArgIs(cn, errV) {
						cancelled = true
					}
				}
				avoid := append([]ssa.Instruction{}, stores...)
				for _, ph := range an.CallsNamed(be, posHooks) {
					avoid = append(avoid, ph)
				}
				if cancelled && an.AllPathsReturnAvoiding(t.NonNilSucc, avoid) {
					okErr = true
				}
			}
		}
		c.Ob("core/environment.newEnvironment[before_event]|no-number-cancels-start", call.Pos(), okErr, "when no run number can be obtained the START must be cancelled with that error, before any number is stored and before the remaining hooks run")
	}
	// all stores to currentRunNumber
	fld := c.Field("core/environment", "Environment", "currentRunNumber")
	if fld == nil {
		c.Lost("field Environment.currentRunNumber")
		return
	}
	for _, f := range c.ModuleFuncs() {
		an.Instrs(f, func(in ssa.Instruction) {
			st, ok := in.(*ssa.Store)
			if !ok || an.FieldOf(st.Addr) != fld {
				return
			}
			c.Subject()
			okV := false
			if z, isC := an.ConstInt(st.Val); isC && z == 0 {
				okV = true
			}
			if ex, isEx := st.Val.(*ssa.Extract); isEx && ex.Index == 0 {
				if call, isCall := ex.Tuple.(*ssa.Call); isCall && an.MethodName(&call.Call) == "NewRunNumber" {
					// only once the call is known to have succeeded
					for _, a := range an.Atoms(st.Block()) {
						if a.Op == token.EQL && a.Y != nil && an.IsNilConst(a.Y) {
							if e1, ok := a.X.(*ssa.Extract); ok && e1.Tuple == ssa.Value(call) && e1.Index == 1 {
								okV = true
							}
						}
					}
				}
			}
			c.Ob("store-currentRunNumber|"+c.RelName(an.OutermostParent(f)), st.Pos(), okV, "the environment's current run number may only be set to the number just obtained from a successful NewRunNumber, or reset to 0")
		})
	}
}

// R07d: every layer between the counter and the environment hands the counter's refusal on. A NewRunNumber that calls
// another NewRunNumber (or the Consul counter) and can answer with a nil error although that call failed gives the
// caller a number that was not reserved - the start then runs under a number somebody else holds or will be given.
func r07d(c *an.Ctx) {
	c.Rule("R07d", "every NewRunNumber that delegates returns the delegate's error", 3)
	for _, f := range c.ModuleFuncs() {
		if f.Name() != "NewRunNumber" || f.Signature.Recv() == nil || c.Generated(f) {
			continue
		}
		for _, ci := range an.Calls(f, func(n string, ci ssa.CallInstruction) bool {
			m := an.MethodName(ci.Common())
			return m == "NewRunNumber" || m == "GetNextUInt32"
		}) {
			call, ok := ci.(*ssa.Call)
			if !ok {
				continue
			}
			tup, isTup := call.Type().(*types.Tuple)
			if !isTup {
				continue
			}
			var errv ssa.Value
			for _, r := range *call.Referrers() {
				if ex, isEx := r.(*ssa.Extract); isEx && ex.Index == tup.Len()-1 {
					errv = ex
				}
			}
			c.Subject()
			c.Mark(f)
			key := c.RelName(f) + "|delegate-error-returned"
			if errv == nil {
				c.Ob(key, call.Pos(), false, "the error of the delegate is not even read")
				continue
			}
			fl := an.FlowFromFacts(call.Block(), nil, errv)
			var bad []string
			for _, r := range fl.ReachedReturns() {
				if len(r.Results) == 0 {
					continue
				}
				rv := an.RetVal(r, len(r.Results)-1)
				if fl.Nilness(rv) == 1 || an.DerivesFrom(rv, errv) {
					continue
				}
				bad = append(bad, c.PosStr(lastPos(r.Block())))
			}
			sort.Strings(bad)
			c.Ob(key, call.Pos(), len(bad) == 0, "with the delegate's error set, the function can return an error that is neither it nor known non-nil (at %v): the caller takes the accompanying number for reserved", bad)
		}
	}
}

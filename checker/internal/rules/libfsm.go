package rules

import (
	"verifchk/internal/an"

	"golang.org/x/tools/go/ssa"
)

// Thorough tier: conformance of the pinned github.com/looplab/fsm source (loaded from the module
// cache together with the program) with the behaviour the C01/C08/C09 rules assume. These rules
// change verdict only if go.mod pins another fsm version or the dependency is replaced/vendored.

const fsmPkg = "github.com/looplab/fsm"

func fsmEventFn(c *an.Ctx) *ssa.Function { return c.MustFn(fsmPkg, "FSM.Event") }

func fsmCalls(fn *ssa.Function, method string) []*ssa.Call {
	var out []*ssa.Call
	for _, ci := range an.CallsNamed(fn, "(*"+fsmPkg+".FSM)."+method) {
		if call, ok := ci.(*ssa.Call); ok {
			out = append(out, call)
		}
	}
	return out
}

// libFsm1 (C01): an event that is not in the transition table for the current state runs no callback and
// installs no transition: every callback call / transition install in Event is guarded by the lookup's ok.
func libFsm1(c *an.Ctx) {
	if !c.Thorough() {
		c.Assume("looplab/fsm v1.0.1: FSM.Event runs callbacks only after the (event, current state) lookup succeeded (checked in the thorough tier, rule L-fsm1)")
		return
	}
	c.Rule("L-fsm1", "pinned looplab/fsm: FSM.Event reaches before_event/leave_state callbacks and installs the transition only when the (event, current) lookup succeeded", 1)
	fn := fsmEventFn(c)
	if fn == nil {
		return
	}
	c.Subject()
	var ok ssa.Value
	an.Instrs(fn, func(in ssa.Instruction) {
		lk, isLk := in.(*ssa.Lookup)
		if !isLk || !lk.CommaOk || lk.Referrers() == nil {
			return
		}
		if f := an.FieldOf(lk.X); f == nil || f.Name() != "transitions" {
			return
		}
		for _, r := range *lk.Referrers() {
			if ex, isEx := r.(*ssa.Extract); isEx && ex.Index == 1 {
				ok = ex
			}
		}
	})
	good := ok != nil
	n := 0
	for _, m := range []string{"beforeEventCallbacks", "leaveStateCallbacks", "enterStateCallbacks", "afterEventCallbacks", "doTransition"} {
		for _, call := range fsmCalls(fn, m) {
			n++
			if ok == nil || !an.KnownTrue(call.Block(), ok) {
				good = false
			}
		}
	}
	c.Ob("(*github.com/looplab/fsm.FSM).Event|callbacks-only-for-legal-event", fn.Pos(), good && n >= 3, "every callback and the transition itself must be guarded by the successful lookup of (event, current state) in the transition table (%d guarded sites)", n)
}

// libFsm2 (C08): callback moments are before_event -> leave_state -> (state change) -> enter_state -> after_event.
func libFsm2(c *an.Ctx) {
	if !c.Thorough() {
		c.Assume("looplab/fsm v1.0.1: callbacks fire in the order before_event, leave_state, state change, enter_state, after_event (checked in the thorough tier, rule L-fsm2)")
		return
	}
	c.Rule("L-fsm2", "pinned looplab/fsm: before_event dominates leave_state dominates the transition; inside the transition the state store dominates enter_state dominates after_event", 1)
	fn := fsmEventFn(c)
	if fn == nil {
		return
	}
	c.Subject()
	be, ls, dt := fsmCalls(fn, "beforeEventCallbacks"), fsmCalls(fn, "leaveStateCallbacks"), fsmCalls(fn, "doTransition")
	okOuter := len(be) == 1 && len(ls) == 1 && len(dt) == 1 && an.Dominates(be[0], ls[0]) && an.Dominates(ls[0], dt[0])
	okInner := false
	for _, f := range an.WithAnon(fn) {
		if f == fn {
			continue
		}
		es, ae := fsmCalls(f, "enterStateCallbacks"), fsmCalls(f, "afterEventCallbacks")
		if len(es) != 1 || len(ae) != 1 {
			continue
		}
		var store ssa.Instruction
		an.Instrs(f, func(in ssa.Instruction) {
			if st, ok := in.(*ssa.Store); ok {
				if fld := an.FieldOf(st.Addr); fld != nil && fld.Name() == "current" {
					store = st
				}
			}
		})
		if store != nil && an.Dominates(store, es[0]) && an.Dominates(es[0], ae[0]) {
			okInner = true
			c.Mark(f)
		}
	}
	c.Ob("(*github.com/looplab/fsm.FSM).Event|callback-order", fn.Pos(), okOuter && okInner, "callback moments must be ordered before_event < leave_state < state change < enter_state < after_event (outer chain %v, transition body %v)", okOuter, okInner)
}

// libFsm3 (C09): a cancel in before_event or leave_state stops the transition: later moments are reached only
// when the callback group returned nil.
func libFsm3(c *an.Ctx) {
	if !c.Thorough() {
		c.Assume("looplab/fsm v1.0.1: e.Cancel in before_event/leave_state makes Event return before any later callback moment (checked in the thorough tier, rule L-fsm3)")
		return
	}
	c.Rule("L-fsm3", "pinned looplab/fsm: a cancelled before_event/leave_state group returns an error and no later moment of the transition is reached", 1)
	fn := fsmEventFn(c)
	if fn == nil {
		return
	}
	c.Subject()
	good := true
	n := 0
	chain := [][2]string{{"beforeEventCallbacks", "leaveStateCallbacks"}, {"leaveStateCallbacks", "doTransition"}}
	for _, pr := range chain {
		first, next := fsmCalls(fn, pr[0]), fsmCalls(fn, pr[1])
		if len(first) != 1 || len(next) != 1 {
			good = false
			continue
		}
		n++
		// next is reachable only on the err == nil edge of first's result
		isNil := false
		for _, a := range an.Atoms(next[0].Block()) {
			if a.Y != nil && an.IsNilConst(a.Y) && a.X == ssa.Value(first[0]) && a.Op.String() == "==" {
				isNil = true
			}
		}
		if !isNil {
			good = false
		}
	}
	// the callback groups return a non-nil error when e.canceled
	for _, m := range []string{"beforeEventCallbacks", "leaveStateCallbacks"} {
		g := c.Fn(fsmPkg, "FSM."+m)
		if g == nil {
			good = false
			continue
		}
		c.Mark(g)
		cancelRet := 0
		for _, r := range an.Returns(g) {
			if len(r.Results) == 1 && !an.IsNilConst(r.Results[0]) {
				for _, a := range an.Atoms(r.Block()) {
					if f := an.FieldOf(a.X); f != nil && f.Name() == "canceled" && a.Y == nil && a.Val {
						cancelRet++
					}
				}
			}
		}
		if cancelRet < 2 {
			good = false
		}
	}
	c.Ob("(*github.com/looplab/fsm.FSM).Event|cancel-stops-transition", fn.Pos(), good && n == 2, "leave_state is reached only when before_event returned nil, the transition only when leave_state returned nil, and both groups return an error when the event was cancelled")
}

package rules

import (
	"fmt"
	"go/token"
	"go/types"
	"sort"
	"strings"

	"verifchk/internal/an"

	"golang.org/x/tools/go/ssa"
)

func init() {
	register("C17", "Decides structural necessary conditions of 'every launched task ends with exactly one terminal status and no survivors': "+
		"(R17a) exactly one terminal status on every path of the controllable task's reaper goroutine and of the basic task's Kill, and nobody else sends terminal statuses; "+
		"(R17b) a kill request records the final state before any signal is sent; (R17c) handles that may be nil when a stop/kill arrives (rpc client, exec.Cmd.Process after a failed Start, exec.Cmd.ProcessState before Wait) are tested before use; "+
		"(R17d) every wait in the kill escalation has a timeout and the escalation ends in SIGKILL unless the process is gone; (R17e) children get their own process group and STOP kills the group; "+
		"(R17f) every Kill implementation reaches a process-group signal. Does not decide timing of signals versus child exit, zombie reaping, or a second KILL blocking on the 1-slot pending channel.", runC17)
}

func runC17(c *an.Ctx) {
	r17a(c)
	r17b(c)
	r17bReaped(c)
	r17c(c)
	r17d(c)
	r17e(c)
	r17f(c)
	r17h(c)
	r17i(c)
	r17j(c)
	// shared with C16: Kill walks the device down to DONE step by step and stops on an error; a failed step that is
	// reported without error (its error dropped, cleared, or replaced by a successful rollback's) makes Kill repeat the
	// same step for ever - no signal is sent and no terminal status follows
	c.As(map[string]string{"R16c": "R17l", "R16f": "R17k", "R16d": "R17m"}, func() { r16cd(c) })
	// round 7
	r17n(c)
	r17o(c)
	r17p(c)
	// round 8
	r17q(c)
	r17r(c)
	fieldWriters(c, "R17s", "basicTaskBase.pendingFinalTaskStateCh is made once, at launch", "executor/executable", "basicTaskBase", "pendingFinalTaskStateCh", map[string]bool{"(*executor/executable.basicTaskBase).doLaunch": true}, "the reaper of a run reads this channel after Wait(); replaced by the next start, the stopped run finds no pending state and is reported as failed instead of killed", 1)
	// round 9
	r17t(c)
	r17u(c)
	r17v(c)
}

const exPkg = "executor/executable"

// statusSend: in is a (go/call) invocation of the sendStatus callback; returns the state argument.
func statusSend(in ssa.Instruction) (ssa.Value, bool) {
	ci, ok := in.(ssa.CallInstruction)
	if !ok {
		return nil, false
	}
	cc := ci.Common()
	if cc.IsInvoke() || cc.StaticCallee() != nil {
		return nil, false
	}
	isCb := isFieldNamed(cc.Value, "sendStatus")
	if p, isP := cc.Value.(*ssa.Parameter); isP && strings.HasSuffix(p.Type().String(), "SendStatusFunc") {
		isCb = true
	}
	if !isCb || len(cc.Args) < 2 {
		return nil, false
	}
	return cc.Args[1], true
}

func isTerminal(c *an.Ctx, state ssa.Value) bool {
	running := lookupConstInt(c, "github.com/mesos/mesos-go/api/v1/lib", "TASK_RUNNING")
	if cst, ok := state.(*ssa.Const); ok && cst.Value != nil && running != nil {
		if k, ok := an.Int64Of(cst.Value); ok && k == *running {
			return false
		}
	}
	return true
}

func r17a(c *an.Ctx) {
	c.Rule("R17a", "terminal statuses: exactly one per path in the reaper goroutine and in basicTaskBase.Kill; no other senders", 3)
	term := func(in ssa.Instruction) bool {
		st, ok := statusSend(in)
		return ok && isTerminal(c, st)
	}
	// (1) controllable task reaper
	if fn := c.MustFn(exPkg, "ControllableTask.Launch"); fn != nil {
		gos := an.GoClosures(fn)
		if len(gos) != 1 {
			c.Lost("the process-management goroutine of ControllableTask.Launch")
		} else {
			c.Subject()
			g := gos[0].Fn
			c.Mark(g)
			mn, mx, ok := an.PathCount(g, nil, term, an.IsExit)
			c.Ob("(*executor/executable.ControllableTask).Launch[go reaper]|one-terminal-status", gos[0].Go.Pos(), ok && mn == 1 && mx == 1,
				"every path through the goroutine that manages the child must report exactly one terminal status (min=%d max=%d): none leaves the task STAGING/RUNNING forever, two contradict each other", mn, mx)
		}
		// the synchronous part: error return <=> one terminal status
		c.Subject()
		okSync := true
		for _, ret := range an.Returns(fn) {
			nonNil := !an.IsNilConst(an.RetVal(ret, 0))
			// count on paths to this return
			mn, mx, ok := an.PathCount(fn, nil, term, func(in ssa.Instruction) bool { return in == ssa.Instruction(ret) })
			if !ok {
				continue
			}
			want := 0
			if nonNil {
				want = 1
			}
			if mn != want || mx != want {
				okSync = false
			}
		}
		c.Ob("(*executor/executable.ControllableTask).Launch|sync-error-reports-once", fn.Pos(), okSync, "Launch reports exactly one terminal status when it returns an error and none when it hands over to the goroutine")
	}
	// (2) basic Kill
	if fn := c.MustFn(exPkg, "basicTaskBase.Kill"); fn != nil {
		c.Subject()
		mn, mx, ok := an.PathCount(fn, nil, term, an.IsExit)
		c.Ob("(*executor/executable.basicTaskBase).Kill|one-terminal-status", fn.Pos(), ok && mn == 1 && mx == 1, "Kill of a basic/hook task reports exactly one terminal status (min=%d max=%d)", mn, mx)
	}
	// (3) who sends terminal statuses
	allowed := map[string]bool{
		"(*executor/executable.ControllableTask).Launch": true,
		"(*executor/executable.basicTaskBase).Kill":      true,
		"executor/executable.NewTask":                    true,
	}
	for _, f := range c.ModuleFuncs() {
		if f.Pkg == nil || !strings.HasSuffix(f.Pkg.Pkg.Path(), exPkg) {
			continue
		}
		an.Instrs(f, func(in ssa.Instruction) {
			if !term(in) {
				return
			}
			c.Subject()
			name := c.RelName(an.OutermostParent(f))
			c.Ob("terminal-status-sender|"+name, in.Pos(), allowed[name], "a terminal status is sent from %s; only the reaper goroutine, basic Kill and the failed constructor may report terminal statuses (anything else can produce a second one)", name)
		})
	}
}

func r17b(c *an.Ctx) {
	c.Rule("R17b", "a kill request records the pending final state before any signal is sent", 2)
	isSignal := func(in ssa.Instruction) bool {
		call, ok := in.(ssa.CallInstruction)
		if !ok {
			return false
		}
		n := an.CalleeName(call.Common())
		return n == "syscall.Kill" || strings.HasSuffix(n, ").doTermIntKill") || strings.HasSuffix(n, ").doKill9")
	}
	for _, name := range []string{"ControllableTask.Kill", "basicTaskBase.ensureBasicTaskKilled"} {
		fn := c.MustFn(exPkg, name)
		if fn == nil {
			continue
		}
		c.Subject()
		var pend []ssa.Instruction
		an.Instrs(fn, func(in ssa.Instruction) {
			if s, ok := in.(*ssa.Send); ok && isFieldNamed(s.Chan, "pendingFinalTaskStateCh") {
				pend = append(pend, s)
			}
		})
		leak := an.PathFromEntryAvoiding(fn, isSignal, pend)
		nSig := 0
		an.Instrs(fn, func(in ssa.Instruction) {
			if isSignal(in) {
				nSig++
			}
		})
		c.Ob("(*executor/executable."+strings.Replace(name, ".", ").", 1)+"|pending-before-signal", fn.Pos(), !leak && nSig > 0 && len(pend) > 0,
			"a signal can be sent before the pending final state is recorded: the reaper would report TASK_FAILED for a task that was killed on request (%d signal sites, %d records)", nSig, len(pend))
	}
}

// derefs of value v: field access or method call through it
func derefUses(v ssa.Value) []ssa.Instruction {
	var out []ssa.Instruction
	if v.Referrers() == nil {
		return nil
	}
	for _, r := range *v.Referrers() {
		switch x := r.(type) {
		case *ssa.FieldAddr:
			if x.X == v {
				out = append(out, x)
			}
		case *ssa.Field:
			if x.X == v {
				out = append(out, x)
			}
		case ssa.CallInstruction:
			cc := x.Common()
			if !cc.IsInvoke() && len(cc.Args) > 0 && cc.Args[0] == v && cc.StaticCallee() != nil && cc.StaticCallee().Signature.Recv() != nil {
				out = append(out, x)
			}
		case *ssa.UnOp:
			if x.Op == token.MUL && x.X == v {
				out = append(out, x)
			}
		}
	}
	return out
}

// r17bReaped: no pending state is recorded (and nothing signalled) for a command whose Wait has returned.
func r17bReaped(c *an.Ctx) {
	c.Rule("R17g", "ensureBasicTaskKilled: a command whose ProcessState is set (Wait returned) is treated as gone: no pending-state record, no signal", 1)
	fn := c.MustFn(exPkg, "basicTaskBase.ensureBasicTaskKilled")
	if fn == nil {
		return
	}
	c.Subject()
	type edge struct {
		b *ssa.BasicBlock
		i int
	}
	cut := map[edge]bool{}
	tests := 0
	for _, b := range fn.Blocks {
		x, nilIdx, ok := an.NilCondEdge(b)
		if !ok {
			continue
		}
		if f := an.FieldOf(x); f != nil && f.Name() == "ProcessState" {
			cut[edge{b, nilIdx}] = true // remove the "still running" edge: what stays reachable is reachable for a reaped child
			tests++
		}
	}
	var bad []string
	an.Instrs(fn, func(in ssa.Instruction) {
		isSend := false
		if s, ok := in.(*ssa.Send); ok && isFieldNamed(s.Chan, "pendingFinalTaskStateCh") {
			isSend = true
		}
		isSig := false
		if ci, ok := in.(ssa.CallInstruction); ok && an.CalleeName(ci.Common()) == "syscall.Kill" {
			isSig = true
		}
		if (isSend || isSig) && an.ReachableCut(fn, in, func(b *ssa.BasicBlock, i int) bool { return cut[edge{b, i}] }) {
			bad = append(bad, c.PosStr(in.Pos()))
		}
	})
	c.Ob("(*executor/executable.basicTaskBase).ensureBasicTaskKilled|reaped-is-gone", fn.Pos(), len(bad) == 0 && tests > 0,
		"for a child that has already been reaped (ProcessState != nil, e.g. terminated by a signal) the function still records a pending final state / signals (at %v): nobody consumes the 1-slot pending channel any more, so the next stop or kill blocks forever and the task never gets its terminal status", bad)
}

func r17c(c *an.Ctx) {
	c.Rule("R17c", "maybe-nil handles (ControllableTask.rpc, exec.Cmd.ProcessState, exec.Cmd.Process after a failed Start) are tested before use", 6)
	rpc := c.Field(exPkg, "ControllableTask", "rpc")
	if rpc == nil {
		c.Lost("field ControllableTask.rpc")
		return
	}
	var procState, proc *types.Var
	if pk := c.P.ByPath["os/exec"]; pk != nil && pk.Types != nil {
		if n, ok := pk.Types.Scope().Lookup("Cmd").Type().(*types.Named); ok {
			st := n.Underlying().(*types.Struct)
			for i := 0; i < st.NumFields(); i++ {
				switch st.Field(i).Name() {
				case "ProcessState":
					procState = st.Field(i)
				case "Process":
					proc = st.Field(i)
				}
			}
		}
	}
	type acc struct {
		msgs []string
		pos  token.Pos
		n    int
		fpos token.Pos
	}
	accs := map[string]*acc{}
	var order []string
	get := func(key string, fpos token.Pos) *acc {
		if a, ok := accs[key]; ok {
			return a
		}
		a := &acc{fpos: fpos}
		accs[key] = a
		order = append(order, key)
		return a
	}
	for _, f := range c.ModuleFuncs() {
		if f.Pkg == nil || !strings.HasSuffix(f.Pkg.Pkg.Path(), exPkg) {
			continue
		}
		outer := an.OutermostParent(f)
		name := c.RelName(outer)
		an.Instrs(f, func(in ssa.Instruction) {
			ld, ok := in.(*ssa.UnOp)
			if !ok || ld.Op != token.MUL {
				return
			}
			fld := an.FieldOf(ld.X)
			var kind string
			switch {
			case fld == rpc:
				kind = "rpc"
			case procState != nil && fld == procState:
				kind = "ProcessState"
			case proc != nil && fld == proc:
				kind = "Process"
			default:
				return
			}
			a := get(fmt.Sprintf("%s|nil-%s", name, kind), outer.Pos())
			fail := func(pos token.Pos, msg string) {
				a.msgs = append(a.msgs, c.PosStr(pos)+": "+msg)
				if !a.pos.IsValid() {
					a.pos = pos
				}
			}
			for _, use := range derefUses(ld) {
				a.n++
				if kind == "Process" {
					if guardedNonNil(use, ld, fld) {
						continue
					}
					// contradiction rule: deref of cmd.Process where cmd.Start() is known to have failed
					for _, at := range an.Atoms(use.Block()) {
						if at.Op == token.NEQ && at.Y != nil && an.IsNilConst(at.Y) && startErrOf(at.X) {
							fail(use.Pos(), "cmd.Process is dereferenced on the path where cmd.Start() failed (Process is nil there): the goroutine panics and takes the whole executor down")
						}
					}
					continue
				}
				if guardedNonNil(use, ld, fld) {
					continue
				}
				if kind == "ProcessState" && dominatedByWait(use) {
					continue
				}
				why := "the rpc client is nil before the client is dialled, after a startup timeout and after the child exited"
				if kind == "ProcessState" {
					why = "exec.Cmd.ProcessState is nil until Wait() has returned, i.e. while the child is still running"
				}
				fail(use.Pos(), fmt.Sprintf("dereference without a dominating non-nil test (%s): a stop/kill request arriving then panics in an un-recovered goroutine and takes the whole executor down", why))
			}
		})
	}
	for _, key := range order {
		a := accs[key]
		if a.n == 0 {
			continue
		}
		c.Subject()
		if len(a.msgs) > 0 {
			c.Ob(key, a.pos, false, "%s", strings.Join(a.msgs, " ;; "))
		} else {
			c.Ob(key, a.fpos, true, "%d uses are guarded", a.n)
		}
	}
}

// startErrOf: v is the error result of (*exec.Cmd).Start (directly, or a load of a cell it was stored to).
func startErrOf(v ssa.Value) bool {
	isStart := func(x ssa.Value) bool {
		call, ok := x.(*ssa.Call)
		return ok && an.CalleeName(&call.Call) == "(*os/exec.Cmd).Start"
	}
	if isStart(v) {
		return true
	}
	if u, ok := v.(*ssa.UnOp); ok && u.Op == token.MUL {
		for _, st := range an.ReachingStores(u) {
			if !isStart(st.Val) {
				return false
			}
		}
		return len(an.ReachingStores(u)) > 0
	}
	return false
}

// guardedNonNil: the use is dominated by a `load(field) != nil` guard on the same field of the same base with
// no store to that field in between, or by a store of a value to the field followed by such a test.
func guardedNonNil(use ssa.Instruction, ld *ssa.UnOp, fld *types.Var) bool {
	for _, a := range an.Atoms(use.Block()) {
		if a.Op != token.NEQ || a.Y == nil || !an.IsNilConst(a.Y) {
			continue
		}
		g, ok := a.X.(*ssa.UnOp)
		if !ok || g.Op != token.MUL || an.FieldOf(g.X) != fld {
			continue
		}
		if !an.SameValue(an.FieldBase(g.X), an.FieldBase(ld.X)) {
			continue
		}
		// no nil store to the field between the guard and the use
		killed := false
		an.Instrs(use.Parent(), func(in ssa.Instruction) {
			st, ok := in.(*ssa.Store)
			if ok && an.FieldOf(st.Addr) == fld && an.IsNilConst(st.Val) && an.CanReach(g, st) && an.CanReach(st, use) {
				killed = true
			}
		})
		if !killed {
			return true
		}
	}
	return false
}

func dominatedByWait(use ssa.Instruction) bool {
	ok := false
	an.Instrs(use.Parent(), func(in ssa.Instruction) {
		if call, isCall := in.(*ssa.Call); isCall && an.CalleeName(&call.Call) == "(*os/exec.Cmd).Wait" && an.Dominates(call, use) {
			ok = true
		}
	})
	return ok
}

func r17d(c *an.Ctx) {
	c.Rule("R17d", "kill escalation: every blocking wait has a timeout; the escalation ends in SIGKILL unless the process is gone", 2)
	for _, name := range []string{"ControllableTask.Kill", "ControllableTask.doTermIntKill"} {
		fn := c.MustFn(exPkg, name)
		if fn == nil {
			continue
		}
		c.Subject()
		key := "(*executor/executable." + strings.Replace(name, ".", ").", 1)
		ok := true
		var why []string
		an.Instrs(fn, func(in ssa.Instruction) {
			switch x := in.(type) {
			case *ssa.UnOp:
				if x.Op == token.ARROW {
					ok = false
					why = append(why, "bare channel receive at "+c.PosStr(x.Pos()))
				}
			case *ssa.Select:
				if !x.Blocking {
					return
				}
				timed := false
				for _, st := range x.States {
					if isTimerChan(st.Chan) {
						timed = true
					}
				}
				if !timed {
					ok = false
					why = append(why, "select without a timer case (time.After / Timer.C) at "+c.PosStr(x.Pos()))
				}
			case *ssa.Call:
				if an.CalleeName(&x.Call) == "(*os/exec.Cmd).Wait" {
					ok = false
					why = append(why, "unbounded Wait at "+c.PosStr(x.Pos()))
				}
			}
		})
		c.Ob(key+"|bounded-waits", fn.Pos(), ok, "every wait on the kill path must be bounded by a timeout %v", why)
	}
	if fn := c.MustFn(exPkg, "ControllableTask.doTermIntKill"); fn != nil {
		c.Subject()
		ok := true
		n := 0
		for _, ret := range an.Returns(fn) {
			n++
			rv := an.RetVal(ret, 0)
			if call, isCall := rv.(*ssa.Call); isCall && strings.HasSuffix(an.CalleeName(&call.Call), ").doKill9") {
				continue
			}
			gone := false
			for _, a := range an.Atoms(ret.Block()) {
				if call, isCall := a.X.(*ssa.Call); isCall && a.Y == nil && !a.Val && an.CalleeName(&call.Call) == "executor/executable.pidExists" {
					gone = true
				}
			}
			if !gone {
				ok = false
			}
		}
		c.Ob("(*executor/executable.ControllableTask).doTermIntKill|ends-in-SIGKILL", fn.Pos(), ok && n >= 2, "every exit of the escalation is SIGKILL or is taken only when the process no longer exists")
	}
}

func r17e(c *an.Ctx) {
	c.Rule("R17e", "children get their own process group; STOP of a basic task signals the whole group", 2)
	if fn := c.MustFn(exPkg, "prepareTaskCmd"); fn != nil {
		c.Subject()
		ok := false
		an.Instrs(fn, func(in ssa.Instruction) {
			if st, isSt := in.(*ssa.Store); isSt && isFieldNamed(st.Addr, "Setpgid") {
				if cst, isC := st.Val.(*ssa.Const); isC && cst.Value != nil && cst.Value.String() == "true" {
					ok = true
				}
			}
		})
		// and the attr is installed on the command on every path to a successful return
		c.Ob("executor/executable.prepareTaskCmd|setpgid", fn.Pos(), ok, "every child must be started in its own process group (Setpgid: true), otherwise killing -pid cannot reach its descendants")
	}
	if fn := c.MustFn(exPkg, "basicTaskBase.ensureBasicTaskKilled"); fn != nil {
		c.Subject()
		ok := false
		for _, ci := range an.CallsNamed(fn, "syscall.Kill") {
			if u, isU := ci.Common().Args[0].(*ssa.UnOp); isU && u.Op == token.SUB {
				for _, l := range an.BackSlice(u.X, an.SliceOpts{}) {
					if (l.Kind == "field" || l.Kind == "via") && strings.HasSuffix(l.Path, "Process.Pid") {
						ok = true
					}
				}
			}
		}
		c.Ob("(*executor/executable.basicTaskBase).ensureBasicTaskKilled|kills-group", fn.Pos(), ok, "stopping a basic task must signal the process group (-pid), not only the shell")
	}
}

func r17f(c *an.Ctx) {
	c.Rule("R17f", "every Kill implementation of executable.Task reaches a process signal (depth 2)", 3)
	pk := c.TPkg(exPkg)
	if pk == nil {
		return
	}
	iface, _ := pk.Types.Scope().Lookup("Task").Type().Underlying().(*types.Interface)
	if iface == nil {
		c.Lost("interface executable.Task")
		return
	}
	reaches := func(fn *ssa.Function) bool {
		seen := map[*ssa.Function]bool{}
		var walk func(f *ssa.Function, d int) bool
		walk = func(f *ssa.Function, d int) bool {
			if f == nil || seen[f] || d > 2 {
				return false
			}
			seen[f] = true
			found := false
			for _, g := range an.WithAnon(f) {
				an.Instrs(g, func(in ssa.Instruction) {
					if ci, ok := in.(ssa.CallInstruction); ok {
						if an.CalleeName(ci.Common()) == "syscall.Kill" {
							found = true
						} else if cal := ci.Common().StaticCallee(); cal != nil && cal.Pkg == f.Pkg {
							if walk(cal, d+1) {
								found = true
							}
						}
					}
				})
			}
			return found
		}
		return walk(fn, 0)
	}
	for _, name := range pk.Types.Scope().Names() {
		tn, ok := pk.Types.Scope().Lookup(name).(*types.TypeName)
		if !ok {
			continue
		}
		if _, isI := tn.Type().Underlying().(*types.Interface); isI {
			continue
		}
		pt := types.NewPointer(tn.Type())
		if !types.Implements(pt, iface) {
			continue
		}
		sel := c.Prog.MethodSets.MethodSet(pt).Lookup(pk.Types, "Kill")
		if sel == nil {
			continue
		}
		fn := c.Prog.MethodValue(sel)
		// unwrap promoted-method wrapper to the declared method
		decl := fn
		if fn != nil && fn.Synthetic != "" {
			an.Instrs(fn, func(in ssa.Instruction) {
				if ci, ok := in.(ssa.CallInstruction); ok && ci.Common().StaticCallee() != nil && ci.Common().StaticCallee().Name() == "Kill" {
					decl = ci.Common().StaticCallee()
				}
			})
		}
		c.Subject()
		c.Mark(decl)
		if name == "HookTask" {
			c.Allowed("R17f: HookTask shares basicTaskBase.Kill; ensureBasicTaskKilled deliberately returns early for HOOK tasks (a DESTROY hook may still have to run after Kill)")
		}
		c.Ob("Kill|"+name, decl.Pos(), reaches(decl),
			"Kill of %s drops the command handle and reports a terminal status without signalling the process group: a task killed while its process runs (forced destroy, cleanup) leaves the whole group alive under the executor", name)
	}
}

// isTimerChan: v is a channel that fires after a duration: time.After(d), time.Tick(d), or the C field of a
// *time.Timer / *time.Ticker.
func isTimerChan(v ssa.Value) bool {
	v = an.Strip(v)
	if call, ok := v.(*ssa.Call); ok {
		switch an.CalleeName(&call.Call) {
		case "time.After", "time.Tick":
			return true
		}
	}
	if ld, ok := v.(*ssa.UnOp); ok && ld.Op == token.MUL {
		if fa, ok := ld.X.(*ssa.FieldAddr); ok {
			if f := an.FieldOf(fa); f != nil && f.Name() == "C" {
				t := fa.X.Type().String()
				return strings.HasSuffix(t, "time.Timer") || strings.HasSuffix(t, "time.Ticker")
			}
		}
	}
	return false
}

// R17h: the kill escalation asks pidExists (also with a negative pid, i.e. for a process group, probing its leader)
// whether to go on to the next signal. A probe that succeeded must be answered with "exists": any further
// condition (the leader being a zombie, say) ends the escalation while other members of the group may still run.
func r17h(c *an.Ctx) {
	c.Rule("R17h", "pidExists: a successful signal-0 probe always answers true", 1)
	fn := c.MustFn(exPkg, "pidExists")
	if fn == nil {
		return
	}
	c.Subject()
	var probe *ssa.Call
	an.Instrs(fn, func(in ssa.Instruction) {
		if call, ok := in.(*ssa.Call); ok {
			n := an.CalleeName(&call.Call)
			if strings.HasSuffix(n, "os.Process).Signal") || strings.HasSuffix(n, "syscall.Kill") {
				probe = call
			}
		}
	})
	if probe == nil {
		c.Ob(exPkg+".pidExists|probe-success-means-exists", fn.Pos(), false, "no signal-0 probe (Process.Signal / syscall.Kill) found in pidExists")
		return
	}
	isProbeErr := func(v ssa.Value) bool {
		return an.DerivesFrom(v, probe) && !an.IsNilConst(v)
	}
	assume := func(v ssa.Value) (bool, bool) {
		if bo, ok := v.(*ssa.BinOp); ok && (bo.Op == token.EQL || bo.Op == token.NEQ) {
			for _, pair := range [][2]ssa.Value{{bo.X, bo.Y}, {bo.Y, bo.X}} {
				if an.IsNilConst(pair[1]) && isProbeErr(pair[0]) {
					return bo.Op == token.EQL, true
				}
			}
		}
		return false, false
	}
	fl := an.FlowAssume(probe.Block(), assume)
	var bad []string
	n := 0
	for _, r := range fl.ReachedReturns() {
		if len(r.Results) != 1 {
			continue
		}
		n++
		v := fl.Resolve(r.Results[0])
		if k, ok := v.(*ssa.Const); !ok || k.Value == nil || k.Value.String() != "true" {
			bad = append(bad, c.PosStr(lastPos(r.Block())))
		}
	}
	sort.Strings(bad)
	c.Ob(exPkg+".pidExists|probe-success-means-exists", fn.Pos(), len(bad) == 0 && n > 0,
		"after a successful signal-0 probe pidExists can answer something other than the constant true (returns at %v; %d returns reachable with a nil probe error): the TERM/INT/KILL escalation, which probes only the leader of a process group, then stops although members of the group may still be alive", bad, n)
}

// R17i: (a) a kill request must not hang: every request ControllableTask.Kill makes to the task's control server
// carries a context with a deadline; (b) a task killed on request is not reported failed: the final state a kill request
// left for the reaper is used whenever it was received - whatever the process' exit code; (c) the reaper reads the
// command it waits for once, before Wait: Kill resets that field while the reaper may still be running.
func r17i(c *an.Ctx) {
	c.Rule("R17i", "Kill's requests to the task are bounded in time; the reapers use the requested final state unconditionally and keep their own copy of the command", 4)
	if fn := c.MustFn(exPkg, "ControllableTask.Kill"); fn != nil {
		n := 0
		for _, ci := range an.Calls(fn, func(nm string, ci ssa.CallInstruction) bool {
			args := ci.Common().Args
			if ci.Common().IsInvoke() {
				return len(args) > 0 && args[0].Type().String() == "context.Context"
			}
			return len(args) > 1 && args[1].Type().String() == "context.Context" && strings.Contains(nm, "occ")
		}) {
			cc := ci.Common()
			ctx := cc.Args[0]
			if !cc.IsInvoke() {
				ctx = cc.Args[1]
			}
			n++
			c.Subject()
			bounded := false
			for _, l := range an.BackSlice(ctx, an.SliceOpts{LeafCall: func(nm string, _ *ssa.Call) bool {
				return nm == "context.WithTimeout" || nm == "context.WithDeadline"
			}}) {
				if l.Kind == "call" {
					bounded = true
				}
			}
			c.Ob(fmt.Sprintf("(*executor/executable.ControllableTask).Kill|rpc#%d %s|deadline", n, an.MethodName(cc)), ci.Pos(), bounded,
				"this request to the task's control server is made without a deadline: a task that stopped answering without closing its socket blocks Kill for ever - no signal is sent and no terminal status follows")
		}
		if n == 0 {
			c.Lost("a request with a context in ControllableTask.Kill")
		}
	}
	for _, name := range []string{"ControllableTask.Launch", "basicTaskBase.startBasicTask"} {
		fn := c.MustFn(exPkg, name)
		if fn == nil {
			continue
		}
		found := false
		for _, f := range an.WithAnon(fn) {
			an.Instrs(f, func(in ssa.Instruction) {
				sel, ok := in.(*ssa.Select)
				if !ok {
					return
				}
				for k, st := range sel.States {
					if st.Dir != types.RecvOnly || !isFieldNamed(st.Chan, "pendingFinalTaskStateCh") {
						continue
					}
					found = true
					c.Subject()
					c.Mark(f)
					// the received value and the block where this case was taken
					var recv ssa.Value
					idx := 2
					for kk, s2 := range sel.States {
						if s2.Dir == types.RecvOnly {
							if kk == k {
								for _, r := range *sel.Referrers() {
									if ex, isEx := r.(*ssa.Extract); isEx && ex.Index == idx {
										recv = ex
									}
								}
							}
							idx++
						}
					}
					var caseBlk *ssa.BasicBlock
					for _, r := range *sel.Referrers() {
						ex, isEx := r.(*ssa.Extract)
						if !isEx || ex.Index != 0 || ex.Referrers() == nil {
							continue
						}
						for _, rr := range *ex.Referrers() {
							bo, isBo := rr.(*ssa.BinOp)
							if !isBo || bo.Op != token.EQL || bo.Referrers() == nil {
								continue
							}
							if kk, isK := an.ConstInt(bo.Y); isK && int(kk) == k {
								for _, r3 := range *bo.Referrers() {
									if ifi, isIf := r3.(*ssa.If); isIf {
										caseBlk = ifi.Block().Succs[0]
									}
								}
							}
						}
					}
					okUse := recv != nil && caseBlk != nil
					var bad []string
					if okUse {
						// every phi that takes the received value: all its edges coming from blocks in which the case was
						// taken carry the received value
						n := 0
						for _, r := range *recv.Referrers() {
							phi, isPhi := r.(*ssa.Phi)
							if !isPhi {
								continue
							}
							n++
							for i, e := range phi.Edges {
								p := phi.Block().Preds[i]
								if (p == caseBlk || caseBlk.Dominates(p)) && e != recv {
									bad = append(bad, c.PosStr(lastPos(p)))
								}
							}
						}
						// ... or it is stored (into a variable or a field of a result record): then the store itself must be
						// unconditional once the case was taken
						for _, r := range *recv.Referrers() {
							st, isSt := r.(*ssa.Store)
							if !isSt || st.Val != recv {
								continue
							}
							n++
							for _, g := range an.ControlConds(st.Block()) {
								if g.LoopHeader || g.LoopExit {
									continue
								}
								if g.If.Block() == caseBlk || caseBlk.Dominates(g.If.Block()) {
									bad = append(bad, c.PosStr(condPos(g.V)))
								}
							}
						}
						if n == 0 {
							okUse = false
						}
					}
					sort.Strings(bad)
					c.Ob("executor/executable."+name+"[reaper]|requested-final-state-used", sel.Pos(), okUse && len(bad) == 0,
						"the final state left by a kill request is received but not always used (paths from %v keep the state derived from the exit status): a task that was killed on request and exits non-zero is reported TASK_FAILED", bad)
				}
			})
		}
		if !found {
			c.Lost("the receive from pendingFinalTaskStateCh in the reaper of " + name)
		}
	}
	if fn := c.MustFn(exPkg, "basicTaskBase.startBasicTask"); fn != nil {
		for _, g := range an.GoClosures(fn) {
			waits := an.Calls(g.Fn, func(nm string, _ ssa.CallInstruction) bool { return nm == "(*os/exec.Cmd).Wait" })
			if len(waits) == 0 {
				continue
			}
			c.Subject()
			var late []string
			an.Instrs(g.Fn, func(in ssa.Instruction) {
				ld, ok := in.(*ssa.UnOp)
				if !ok || ld.Op != token.MUL || !isFieldNamed(ld.X, "taskCmd") {
					return
				}
				for _, w := range waits {
					if an.CanReach(w, ld) {
						late = append(late, c.PosStr(ld.Pos()))
					}
				}
			})
			sort.Strings(late)
			c.Ob("executor/executable.basicTaskBase.startBasicTask[reaper]|command-read-once", g.Go.Pos(), len(late) == 0,
				"the reaper reads the task's command field again after Wait (at %v): Kill sets that field to nil while the process may still be running, so the reaper dereferences nil and the panic takes the whole executor down", late)
		}
	}
}

// R17j: killing a basic task terminates its process group: Kill must not forget the command (set the field to nil)
// before the group was signalled - ensureBasicTaskKilled has nothing to signal once the command is gone.
func r17j(c *an.Ctx) {
	c.Rule("R17j", "basicTaskBase.Kill: the process group is signalled before the command is forgotten", 1)
	fn := c.MustFn(exPkg, "basicTaskBase.Kill")
	if fn == nil {
		return
	}
	kills := an.Calls(fn, func(nm string, _ ssa.CallInstruction) bool {
		return strings.HasSuffix(nm, "basicTaskBase).ensureBasicTaskKilled")
	})
	if len(kills) == 0 {
		c.Lost("the call of ensureBasicTaskKilled in basicTaskBase.Kill")
		return
	}
	c.Subject()
	var early []string
	an.Instrs(fn, func(in ssa.Instruction) {
		st, ok := in.(*ssa.Store)
		if !ok || !isFieldNamed(st.Addr, "taskCmd") || !an.IsNilConst(st.Val) {
			return
		}
		for _, k := range kills {
			if an.CanReach(st, k) {
				early = append(early, c.PosStr(st.Pos()))
			}
		}
	})
	sort.Strings(early)
	c.Ob("(*executor/executable.basicTaskBase).Kill|signal-before-forget", kills[0].Pos(), len(early) == 0,
		"the command is set to nil (at %v) before the process group is signalled: ensureBasicTaskKilled then returns at once, TASK_FINISHED is reported and the processes keep running", early)
}

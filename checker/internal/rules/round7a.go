package rules

import (
	"fmt"
	"go/token"
	"go/types"
	"sort"
	"strings"

	"golang.org/x/tools/go/ssa"

	"verifchk/internal/an"
)

// Rules added after held-out seeding round 7 (workflow side). Each is a structural necessary condition of the
// properties named at its call sites; the shared ones run under several properties through Ctx.As.

const wfPkg = "core/workflow"

// namedOf returns the name of the (pointed-to) named type of t, or "".
func namedOf(t types.Type) string {
	if p, ok := t.Underlying().(*types.Pointer); ok {
		t = p.Elem()
	}
	if p, ok := t.(*types.Pointer); ok {
		t = p.Elem()
	}
	if n, ok := t.(*types.Named); ok {
		return n.Obj().Name()
	}
	return ""
}

// R15i: generateRole of every template kind answers with a role of its own role kind (*taskRole for a taskTemplate,
// ...), made by that kind's copy(). The role tree is walked with type assertions on exactly these kinds (state
// folding skips non-critical *taskRole/*callRole leaves, task collection asserts *taskRole, hooks assert *callRole):
// a generated node of another dynamic type is invisible to all of them; a node that is not a copy shares its maps
// with the template and with its sibling iterations.
func r15i(c *an.Ctx) {
	c.Rule("R15i", "generateRole of each template kind returns its own role kind, obtained from that kind's copy()", 4)
	for _, k := range []string{"task", "call", "aggregator", "include"} {
		fn := c.MustFn(wfPkg, k+"Template.generateRole")
		if fn == nil {
			continue
		}
		c.Subject()
		want := k + "Role"
		var bad []string
		n := 0
		for _, r := range an.Returns(fn) {
			if len(r.Results) != 2 {
				continue
			}
			for _, v := range roleValues(r.Results[0], map[ssa.Value]bool{}) {
				if an.IsNilConst(v) {
					continue
				}
				n++
				mi, ok := v.(*ssa.MakeInterface)
				if !ok {
					bad = append(bad, "a value of unknown dynamic type is returned")
					continue
				}
				if got := namedOf(mi.X.Type()); got != want {
					bad = append(bad, fmt.Sprintf("returns a *%s", got))
				}
			}
		}
		copies := 0
		an.Instrs(fn, func(in ssa.Instruction) {
			if call, ok := in.(*ssa.Call); ok {
				if f := call.Call.StaticCallee(); f != nil && f.Name() == "copy" && f.Signature.Recv() != nil &&
					namedOf(f.Signature.Recv().Type()) == want {
					copies++
				}
			}
		})
		if copies == 0 {
			bad = append(bad, "does not call (*"+want+").copy")
		}
		sort.Strings(bad)
		c.Ob("(*core/workflow."+k+"Template).generateRole|own-role-kind-from-copy", fn.Pos(), len(bad) == 0 && n > 0,
			"a %sTemplate must generate a *%s made by (*%s).copy() (%s): the tree walkers recognise leaves and containers by these dynamic types, and a role that is not a copy shares its variable maps with the template and the other iterations",
			k, want, want, strings.Join(bad, "; "))
	}
}

// roleValues resolves a returned interface value through phis and the spilled named result.
func roleValues(v ssa.Value, seen map[ssa.Value]bool) []ssa.Value {
	if seen[v] {
		return nil
	}
	seen[v] = true
	switch x := v.(type) {
	case *ssa.Phi:
		var out []ssa.Value
		for _, e := range x.Edges {
			out = append(out, roleValues(e, seen)...)
		}
		return out
	case *ssa.UnOp:
		if x.Op == token.MUL {
			if _, ok := x.X.(*ssa.Alloc); ok {
				var out []ssa.Value
				for _, st := range an.ReachingStores(x) {
					out = append(out, roleValues(st.Val, seen)...)
				}
				return out
			}
		}
	}
	return []ssa.Value{v}
}

// R02t: copy() of a task or call role carries the whole Traits of the original (trigger, await, timeout and
// critical): the copies are the roles of the running workflow, and criticality decides whether a task's failure
// fails the transition.
func r02t(c *an.Ctx) {
	c.Rule("R02t", "taskRole.copy / callRole.copy: the copy's Traits are the original's, every field", 2)
	for _, k := range []string{"taskRole", "callRole"} {
		fn := c.MustFn(wfPkg, k+".copy")
		if fn == nil || len(fn.Params) == 0 {
			continue
		}
		c.Subject()
		recv := fn.Params[0]
		fromRecv := func(v ssa.Value, path []string) bool {
			// v is a load of recv.<path...>
			u, ok := v.(*ssa.UnOp)
			if !ok || u.Op != token.MUL {
				return false
			}
			a := u.X
			for i := len(path) - 1; i >= 0; i-- {
				fa, ok := a.(*ssa.FieldAddr)
				if !ok || fieldNameAt(fa) != path[i] {
					return false
				}
				a = fa.X
			}
			return a == recv
		}
		whole := false
		sub := map[string]bool{}
		var traitsT *types.Struct
		an.Instrs(fn, func(in ssa.Instruction) {
			st, ok := in.(*ssa.Store)
			if !ok {
				return
			}
			if _, isAlloc := st.Addr.(*ssa.Alloc); isAlloc {
				// `rCopy := *t`: every field, Traits included, is the original's
				if u, isLoad := st.Val.(*ssa.UnOp); isLoad && u.Op == token.MUL && u.X == ssa.Value(recv) {
					whole = true
				}
				return
			}
			fa, ok := st.Addr.(*ssa.FieldAddr)
			if !ok {
				return
			}
			if fieldNameAt(fa) == "Traits" {
				if _, isAlloc := fa.X.(*ssa.Alloc); isAlloc && fromRecv(st.Val, []string{"Traits"}) {
					whole = true
				}
				return
			}
			if in, ok := fa.X.(*ssa.FieldAddr); ok && fieldNameAt(in) == "Traits" {
				if _, isAlloc := in.X.(*ssa.Alloc); isAlloc && fromRecv(st.Val, []string{"Traits", fieldNameAt(fa)}) {
					sub[fieldNameAt(fa)] = true
				}
			}
		})
		if f := c.Field(wfPkg, k, "Traits"); f != nil {
			traitsT, _ = f.Type().Underlying().(*types.Struct)
		}
		var missing []string
		if !whole {
			if traitsT == nil {
				missing = append(missing, "Traits")
			} else {
				for i := 0; i < traitsT.NumFields(); i++ {
					if !sub[traitsT.Field(i).Name()] {
						missing = append(missing, traitsT.Field(i).Name())
					}
				}
			}
		}
		c.Ob("(*core/workflow."+k+").copy|traits-carried", fn.Pos(), len(missing) == 0,
			"the copy of a %s does not take %v of its Traits from the original: the generated role loses its declared criticality or hook moment, so a critical task's failure no longer fails the transition (or the hook fires at another moment)", k, missing)
	}
}

func fieldNameAt(fa *ssa.FieldAddr) string {
	t := fa.X.Type().Underlying()
	if p, ok := t.(*types.Pointer); ok {
		t = p.Elem().Underlying()
	}
	if s, ok := t.(*types.Struct); ok && fa.Field < s.NumFields() {
		return s.Field(fa.Field).Name()
	}
	return ""
}

// R11h: the fold over the children looks at every child: the loop of aggregateState / aggregateStatus is left early
// only once the accumulated value is absorbing in the combination table (nothing a later child reports can change
// it); MIXED is not absorbing (ERROR still dominates it), so giving up at MIXED loses a critical ERROR.
func r11h(c *an.Ctx) {
	c.Rule("R11h", "aggregateState / aggregateStatus: the fold loop is left early only on an absorbing value", 2)
	for _, name := range []string{"aggregateState", "aggregateStatus"} {
		fn := c.MustFn(wfPkg, name)
		if fn == nil {
			continue
		}
		c.Subject()
		var bad []string
		loops := 0
		for _, b := range fn.Blocks {
			body := an.NaturalLoop(b)
			if len(body) == 0 {
				continue
			}
			loops++
			for _, e := range an.EarlyExits(b, body) {
				if exitOnAbsorbing(c, e, name == "aggregateState") {
					continue
				}
				bad = append(bad, c.PosStr(lastPos(e.From)))
			}
		}
		sort.Strings(bad)
		c.Ob("core/workflow."+name+"|no-early-exit", fn.Pos(), len(bad) == 0 && loops > 0,
			"the fold over the children is left before all children were combined (at %v) on a value that is not absorbing: a later child's ERROR (or missing/undeployable status) is not folded in", bad)
	}
}

// exitOnAbsorbing: the exit edge is taken only when the accumulator equals the absorbing element of the combination:
// ERROR for State.X (checked against the decision list by R11b), UNDEFINED for Status.X (row and column UNDEFINED of
// STATUS_PRODUCT, checked by R11a).
func exitOnAbsorbing(c *an.Ctx, e an.LoopExit, state bool) bool {
	for _, a := range an.EdgeAtoms(e.From, e.To) {
		if a.Op != token.EQL || a.Y == nil {
			continue
		}
		for _, v := range []ssa.Value{a.X, a.Y} {
			k, ok := v.(*ssa.Const)
			if !ok {
				continue
			}
			n, ok := an.ConstInt(k)
			if !ok {
				continue
			}
			if state && namedOf(k.Type()) == "State" && stateConstName(c, n) == "ERROR" {
				return true
			}
			if !state && namedOf(k.Type()) == "Status" && enumConsts(c, "core/task", "Status")["UNDEFINED"] == n {
				return true
			}
		}
	}
	return false
}

func stateConstName(c *an.Ctx, n int64) string {
	pk := c.TPkg("core/task/sm")
	if pk == nil {
		return ""
	}
	sc := pk.Types.Scope()
	for _, nm := range sc.Names() {
		if k, ok := sc.Lookup(nm).(*types.Const); ok && namedOf(k.Type()) == "State" {
			if v, ok := an.Int64Of(k.Val()); ok && v == n {
				return nm
			}
		}
	}
	return ""
}

// R09j: a call hook without a usable `await` is awaited at its trigger: in callRole.UnmarshalYAML the Await trait is
// the declared await only when one is given and non-empty, and the declared trigger itself otherwise. A hook filed
// under an await moment that no transition ever reaches ("" or a trigger stripped of its weight) is never awaited:
// its critical failure is not collected and it is still running when the next transition starts.
func r09j(c *an.Ctx) {
	c.Rule("R09j", "callRole.UnmarshalYAML: Await is the non-empty declared await, else the declared trigger verbatim", 1)
	fn := c.MustFn(wfPkg, "callRole.UnmarshalYAML")
	if fn == nil {
		return
	}
	c.Subject()
	// loads of *aux.Call.<F>
	declared := func(v ssa.Value) string {
		u, ok := v.(*ssa.UnOp)
		if !ok || u.Op != token.MUL {
			return ""
		}
		p, ok := u.X.(*ssa.UnOp)
		if !ok || p.Op != token.MUL {
			return ""
		}
		fa, ok := p.X.(*ssa.FieldAddr)
		if !ok {
			return ""
		}
		return fieldNameAt(fa)
	}
	var bad []string
	n, fromTrigger := 0, 0
	isAwaitLoad := func(v ssa.Value) bool { return declared(v) == "Await" }
	var judge func(v ssa.Value, at *ssa.BasicBlock, pos token.Pos, depth int)
	judge = func(v ssa.Value, at *ssa.BasicBlock, pos token.Pos, depth int) {
		if depth > 5 {
			bad = append(bad, c.PosStr(pos)+": cannot tell what Await is set to")
			return
		}
		switch x := v.(type) {
		case *ssa.Phi:
			for i, e := range x.Edges {
				judge(e, x.Block().Preds[i], pos, depth+1)
			}
			return
		case *ssa.UnOp:
			if al, isAl := x.X.(*ssa.Alloc); isAl && x.Op == token.MUL {
				_ = al
				for _, st := range an.ReachingStores(x) {
					judge(st.Val, st.Block(), pos, depth+1)
				}
				return
			}
		}
		switch declared(v) {
		case "Trigger":
			fromTrigger++
		case "Await":
			// only under len(*aux.Call.Await) > 0, established where the value is taken or where it is assigned
			ok := an.GuardedByAll(at, func(a an.Atom) bool { return lenPositive(a, isAwaitLoad) })
			if in, isIn := v.(ssa.Instruction); isIn && !ok {
				ok = an.GuardedByAll(in.Block(), func(a an.Atom) bool { return lenPositive(a, isAwaitLoad) })
			}
			if !ok {
				bad = append(bad, c.PosStr(pos)+": the declared await is taken without checking that it is non-empty")
			}
		default:
			bad = append(bad, c.PosStr(pos)+": Await is set to something other than the declared await or trigger")
		}
	}
	for _, f := range an.WithAnon(fn) {
		an.Instrs(f, func(in ssa.Instruction) {
			st, ok := in.(*ssa.Store)
			if !ok {
				return
			}
			fa, ok := st.Addr.(*ssa.FieldAddr)
			if !ok || fieldNameAt(fa) != "Await" {
				return
			}
			if in2, ok := fa.X.(*ssa.FieldAddr); !ok || fieldNameAt(in2) != "Traits" {
				return
			}
			n++
			judge(st.Val, st.Block(), st.Pos(), 0)
		})
	}
	sort.Strings(bad)
	c.Ob("(*core/workflow.callRole).UnmarshalYAML|await-default", fn.Pos(), len(bad) == 0 && n >= 1 && fromTrigger >= 1,
		"%d assignment(s) of the Await trait; %s: a hook whose await moment is empty or is not a moment the transition reaches is never awaited, so its critical failure is not collected and it outlives its transition", n, strings.Join(bad, "; "))
}

// lenPositive: atom says len(x) > 0 (or 0 < len(x), len(x) != 0, len(x) >= 1) for an x accepted by isX.
func lenPositive(a an.Atom, isX func(ssa.Value) bool) bool {
	isLen := func(v ssa.Value) bool {
		call, ok := v.(*ssa.Call)
		if !ok {
			return false
		}
		b, ok := call.Call.Value.(*ssa.Builtin)
		return ok && b.Name() == "len" && len(call.Call.Args) == 1 && isX(call.Call.Args[0])
	}
	k := func(v ssa.Value) (int64, bool) { return an.ConstInt(v) }
	if a.Y == nil {
		return false
	}
	if isLen(a.X) {
		if n, ok := k(a.Y); ok {
			return (a.Op == token.GTR && n == 0) || (a.Op == token.NEQ && n == 0) || (a.Op == token.GEQ && n == 1)
		}
	}
	if isLen(a.Y) {
		if n, ok := k(a.X); ok {
			return (a.Op == token.LSS && n == 0) || (a.Op == token.NEQ && n == 0) || (a.Op == token.LEQ && n == 1)
		}
	}
	return false
}

// R15j: an included sub-workflow is processed under the name of the include role: includeRole.ProcessTemplates puts
// the role's own name back before it descends into the loaded tree, because the children compute their paths (and
// with them channel names, `{{ path }}` and the parent chain reported in errors) from it during that descent.
func r15j(c *an.Ctx) {
	c.Rule("R15j", "includeRole.ProcessTemplates: the role's name is restored before the loaded subtree is processed", 1)
	fn := c.MustFn(wfPkg, "includeRole.ProcessTemplates")
	if fn == nil {
		return
	}
	c.Subject()
	var descent []ssa.CallInstruction
	for _, ci := range an.Calls(fn, func(n string, ci ssa.CallInstruction) bool {
		return strings.HasSuffix(n, "aggregatorRole).ProcessTemplates")
	}) {
		descent = append(descent, ci)
	}
	var nameStores []*ssa.Store
	an.Instrs(fn, func(in ssa.Instruction) {
		if st, ok := in.(*ssa.Store); ok {
			if fa, ok := st.Addr.(*ssa.FieldAddr); ok && fieldNameAt(fa) == "Name" {
				nameStores = append(nameStores, st)
			}
		}
	})
	ok := len(descent) > 0 && len(nameStores) > 0 && len(fn.Blocks) > 0
	if ok {
		// no feasible path from the entry reaches the descent without having passed an assignment of the name (the flow
		// is cut behind every block that assigns it; branches decided by what is known on the live edges are pruned)
		hasStore := map[*ssa.BasicBlock]bool{}
		for _, st := range nameStores {
			hasStore[st.Block()] = true
		}
		fl := an.FlowFrom(fn.Blocks[0], func(b *ssa.BasicBlock, i int) bool { return hasStore[b] })
		for _, d := range descent {
			if fl.Reached[d.Block()] {
				// reached without a store in an earlier block: fine only if the store precedes the call in the call's own block
				same := false
				for _, st := range nameStores {
					if st.Block() == d.Block() && an.Dominates(st, d) {
						same = true
					}
				}
				if !same {
					ok = false
				}
			}
			for _, st := range nameStores {
				if an.CanReach(d, st) {
					ok = false
				}
			}
		}
	}
	c.Ob("(*core/workflow.includeRole).ProcessTemplates|name-before-descent", fn.Pos(), ok,
		"the include role's name is not put back before (or is written again after) the loaded subtree is processed (%d descent call(s), %d name assignment(s)): the children resolve their paths and channel names under the loaded root's name", len(descent), len(nameStores))
}

// R15k: WrapMap.Copy gives the copy a map of its own on every path (a map made in Copy itself), never the
// receiver's: role copies made for iterations and template generation write their locals and vars into it.
func r15k(c *an.Ctx) {
	c.Rule("R15k", "gera.WrapMap.Copy: the copy's map is made in Copy, on every path", 1)
	fn := c.MustFn("common/gera", "WrapMap.Copy")
	if fn == nil {
		return
	}
	c.Subject()
	var bad []string
	n := 0
	an.Instrs(fn, func(in ssa.Instruction) {
		st, ok := in.(*ssa.Store)
		if !ok {
			return
		}
		fa, ok := st.Addr.(*ssa.FieldAddr)
		if !ok || fieldNameAt(fa) != "theMap" {
			return
		}
		if _, isAlloc := fa.X.(*ssa.Alloc); !isAlloc {
			return
		}
		n++
		fresh := true
		for _, v := range roleValues(st.Val, map[ssa.Value]bool{}) {
			v = an.Strip(v)
			if _, ok := v.(*ssa.MakeMap); !ok {
				fresh = false
			}
		}
		if !fresh {
			bad = append(bad, c.PosStr(st.Pos()))
		}
	})
	sort.Strings(bad)
	c.Ob("(*common/gera.WrapMap).Copy|fresh-map", fn.Pos(), len(bad) == 0 && n > 0,
		"Copy builds a WrapMap whose map is not one made in Copy (at %v): original and copy then share one map, and what one role (iteration, generated role) sets becomes visible in the other", bad)
}

// Package rules holds one file per property with its rule table.
package rules

import "verifchk/internal/an"

type PropFn func(c *an.Ctx)

type Prop struct {
	ID          string
	Explanation string // what is decided, in one paragraph (evidence coverage.explanation)
	Run         PropFn
}

var Registry = map[string]*Prop{}

func register(id, expl string, run PropFn) { Registry[id] = &Prop{ID: id, Explanation: expl, Run: run} }

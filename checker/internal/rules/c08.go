package rules

import (
	"fmt"
	"go/token"
	"go/types"
	"sort"
	"strings"

	"verifchk/internal/an"

	"golang.org/x/tools/go/ssa"
)

func init() {
	register("C08", "Decides structural necessary conditions of 'hooks run at their declared moment, in weight order, awaited where declared': "+
		"(R08a) each FSM moment runs its negative-weight hooks, then its non-negative ones, both with the trigger name of that very moment (before_<event>, leave_<src>, enter_<dst>, after_<event>); "+
		"(R08b) the two weight predicates are complementary with zero on the non-negative side; (R08c) the task transition sits in leave_state after its hooks; (R08d) weights are visited in ascending order (sorted, order-preserving filter); "+
		"(R08e) per weight: register for await -> start calls -> collect awaited calls (and forget them) -> run task hooks; (R08f) every started call is awaited exactly once per collection and every still-pending call is cancelled at teardown. "+
		"Does not decide trigger-expression parsing, 'started together' timing, or whether a later await point is ever reached.", runC08)
}

func runC08(c *an.Ctx) {
	libFsm2(c)
	r08a(c)
	r08b(c)
	r08c(c)
	r08d(c)
	r08e(c)
	r08f(c)
	pendingResetRule(c, "R08g")
	pendingMutationRule(c, "R08h")
	r08i(c)
	r08j(c)
	whoMayCancel(c, "R08k")
	// round 7
	c.As(map[string]string{"R15i": "R08l"}, func() { r15i(c) })
	filterOnlyByType(c, "R08m", "FilterCalls")
	// round 8
	r08n(c)
	r08o(c)
	r08p(c)
	r08r(c)
	filterOnlyByType(c, "R08q", "FilterTasks")
	// round 9
	c.As(map[string]string{"R09a": "R08t"}, func() { r09a(c) })
}

func r08a(c *an.Ctx) {
	c.Rule("R08a", "each callback: negative hooks dominate non-negative hooks; both get Sprintf(<moment>_%s, e.<field of that moment>)", 4)
	cb := envCallbacks(c)
	if cb == nil {
		return
	}
	want := map[string][2]string{
		"before_event": {"before_%s", "Event"},
		"leave_state":  {"leave_%s", "Src"},
		"enter_state":  {"enter_%s", "Dst"},
		"after_event":  {"after_%s", "Event"},
	}
	for _, k := range []string{"before_event", "leave_state", "enter_state", "after_event"} {
		f := cb[k]
		c.Subject()
		key := "core/environment.newEnvironment[" + k + "]"
		neg := an.CallsNamed(f, negHooks)
		pos := an.CallsNamed(f, posHooks)
		if len(neg) != 1 || len(pos) != 1 {
			c.Ob(key+"|bracket", f.Pos(), false, "expected one negative-weight and one non-negative-weight hook call (found %d/%d)", len(neg), len(pos))
			continue
		}
		ordered := an.Dominates(neg[0], pos[0]) || (an.CanReach(neg[0], pos[0]) && !an.CanReach(pos[0], neg[0]))
		c.Ob(key+"|negative-before-positive", neg[0].Pos(), ordered, "hooks with negative weight must run before those with non-negative weight at %s", k)
		tn, tp := neg[0].Common().Args[2], pos[0].Common().Args[2]
		same := tn == tp
		okTrig := false
		if call, ok := tn.(*ssa.Call); ok && an.CalleeName(&call.Call) == "fmt.Sprintf" {
			if fmtS, ok := an.ConstString(call.Call.Args[0]); ok && fmtS == want[k][0] {
				for _, e := range an.VariadicElems(call.Call.Args[1]) {
					if isFieldNamed(an.Strip(e), want[k][1]) {
						okTrig = true
					}
				}
			}
		}
		c.Ob(key+"|trigger-name", neg[0].Pos(), same && okTrig, "both hook groups of %s must be triggered with fmt.Sprintf(%q, e.%s) (same value for both: %v, right format and field: %v)", k, want[k][0], want[k][1], same, okTrig)
	}
}

func r08b(c *an.Ctx) {
	c.Rule("R08b", "weight predicates: w < 0 and w >= 0", 2)
	for _, w := range []struct {
		fn  string
		op  token.Token
		txt string
	}{
		{"Environment.handleHooksWithNegativeWeights", token.LSS, "w < 0"},
		{"Environment.handleHooksWithPositiveWeights", token.GEQ, "w >= 0"},
	} {
		fn := c.MustFn("core/environment", w.fn)
		if fn == nil {
			continue
		}
		c.Subject()
		ok := false
		if len(fn.AnonFuncs) == 1 {
			p := fn.AnonFuncs[0]
			c.Mark(p)
			for _, r := range an.Returns(p) {
				if bo, isB := r.Results[0].(*ssa.BinOp); isB && bo.Op == w.op {
					if z, isZ := an.ConstInt(bo.Y); isZ && z == 0 {
						if _, isP := bo.X.(*ssa.Parameter); isP {
							ok = true
						}
					}
				}
			}
			// and it is the predicate passed to handleHooks
			passed := false
			for _, ci := range an.CallsNamed(fn, "(*core/environment.Environment).handleHooks") {
				if an.ClosureFn(ci.Common().Args[3]) == p {
					passed = true
				}
			}
			ok = ok && passed
		}
		c.Ob("(*core/environment."+strings.Replace(w.fn, ".", ").", 1)+"|predicate", fn.Pos(), ok, "the weight predicate must be exactly %s (zero belongs to the non-negative side, the two predicates are complementary)", w.txt)
	}
}

func r08c(c *an.Ctx) {
	c.Rule("R08c", "leave_state: the task transition comes after the non-negative hooks and only when e.Err == nil", 1)
	cb := envCallbacks(c)
	if cb == nil {
		return
	}
	f := cb["leave_state"]
	c.Subject()
	hf := an.CallsNamed(f, "(*core/environment.Environment).handlerFunc")
	pos := an.CallsNamed(f, posHooks)
	ok := false
	if len(hf) == 1 && len(pos) == 1 {
		guarded := false
		for _, a := range an.Atoms(hf[0].Block()) {
			if a.Op == token.EQL && a.Y != nil && an.IsNilConst(a.Y) && isFieldNamed(a.X, "Err") {
				guarded = true
			}
		}
		ok = guarded && an.Dominates(pos[0], hf[0])
	}
	c.Ob("core/environment.newEnvironment[leave_state]|task-transition-after-hooks", f.Pos(), ok, "the task transition must run in leave_state after both hook groups and only if no hook cancelled the event")
	// the other three callbacks do not run the task transition
	for _, k := range []string{"before_event", "enter_state", "after_event"} {
		if n := len(an.CallsNamed(cb[k], "(*core/environment.Environment).handlerFunc")); n != 0 {
			c.Ob("core/environment.newEnvironment["+k+"]|no-task-transition", cb[k].Pos(), false, "the task transition is also run at %s", k)
		}
	}
}

func r08d(c *an.Ctx) {
	c.Rule("R08d", "weights are sorted ascending and filtered in order", 3)
	for _, name := range []string{"HooksMap.GetWeights", "CallsMap.GetWeights"} {
		fn := c.MustFn("core/workflow/callable", name)
		if fn == nil {
			continue
		}
		c.Subject()
		ok := returnsAscending(c, fn, 0)
		c.Ob("(core/workflow/callable."+strings.Replace(name, ".", ").", 1)+"|sorted", fn.Pos(), ok, "GetWeights must return the weights in ascending order: an ascending sort of the collected keys dominates every return, and what is returned is the sorted slice or an index-by-index copy of it (directly or in a same-package helper)")
	}
	if fn := c.MustFn("core/environment", "Environment.handleHooks"); fn != nil {
		c.Subject()
		// the slice ranged over by the weight loop derives from GetWeights through appends in a loop over that very slice (order-preserving filter)
		gw := an.Calls(fn, func(n string, _ ssa.CallInstruction) bool {
			return strings.HasSuffix(n, "callable.HooksMap).GetWeights")
		})
		ok := false
		// filtering before sorting: the weight loop ranges directly over what GetWeights returned
		if len(gw) == 1 {
			all := gw[0].(*ssa.Call)
			for _, st := range an.CallsSuffix(fn, "callable.Calls).StartAll") {
				if h, _ := an.EnclosingLoop(st.Block()); h != nil {
					for _, in := range h.Instrs {
						if bo, isBo := in.(*ssa.BinOp); isBo && bo.Op == token.LSS {
							if ln, isLen := bo.Y.(*ssa.Call); isLen && an.CalleeName(&ln.Call) == "builtin.len" && an.Strip(ln.Call.Args[0]) == ssa.Value(all) {
								ok = true
							}
						}
					}
				}
			}
		}
		if len(gw) == 1 && !ok {
			all := gw[0].(*ssa.Call)
			for _, ci := range an.CallsNamed(fn, "builtin.append") {
				ap := ci.(*ssa.Call)
				if !strings.HasSuffix(ap.Type().String(), "callable.HookWeight") || !an.InLoop(ap.Block()) {
					continue
				}
				// appended element is allWeights[i] of the enclosing range
				for _, e := range an.VariadicElems(ap.Call.Args[1]) {
					if ld, isLd := e.(*ssa.UnOp); isLd {
						if ia, isIA := ld.X.(*ssa.IndexAddr); isIA && ia.X == ssa.Value(all) {
							ok = true
						}
					}
				}
			}
			// no sort/reverse on the filtered slice
			for _, ci := range an.Calls(fn, func(n string, _ ssa.CallInstruction) bool {
				return strings.HasPrefix(n, "sort.") || strings.HasPrefix(n, "slices.")
			}) {
				_ = ci
				ok = false
			}
		}
		c.Ob("(*core/environment.Environment).handleHooks|ascending-filtered-weights", fn.Pos(), ok, "the weight loop must range over an order-preserving filter of the sorted weights")
	}
}

func r08e(c *an.Ctx) {
	c.Rule("R08e", "per weight: register await -> StartAll -> AwaitAll (+forget) -> runTasksAsHooks", 1)
	fn := c.MustFn("core/environment", "Environment.handleHooks")
	if fn == nil {
		return
	}
	c.Subject()
	key := "(*core/environment.Environment).handleHooks"
	start := an.CallsNamed(fn, "(core/workflow/callable.Calls).StartAll")
	await := an.CallsNamed(fn, "(core/workflow/callable.Calls).AwaitAll")
	run := an.CallsNamed(fn, "(*core/environment.Environment).runTasksAsHooks")
	if len(start) != 1 || len(await) != 1 || len(run) != 1 {
		c.Ob(key+"|phases", fn.Pos(), false, "expected one StartAll, one AwaitAll and one runTasksAsHooks (found %d/%d/%d)", len(start), len(await), len(run))
		return
	}
	// order within one iteration: no path from a later phase to an earlier one without passing the loop header
	inIter := func(a, b ssa.Instruction) bool { // a before b within an iteration
		// b reachable from a without going around the loop: avoid the range/loop header's Next/phi block: approximate by: a reaches b avoiding a itself... use: b not reaching a avoiding the loop's back edge is hard; use dominance-free test: exists path a->b avoiding `run`'s successors.. simpler: a can reach b avoiding the first instruction of the loop header
		return an.CanReachAvoiding(a, b, headerInstrs(a.Block()))
	}
	ok1 := inIter(start[0], await[0]) && !inIter(await[0], start[0])
	ok2 := inIter(await[0], run[0]) && !inIter(run[0], await[0])
	ok3 := inIter(start[0], run[0])
	c.Ob(key+"|phase-order", start[0].Pos(), ok1 && ok2 && ok3, "within one weight: calls are started, then awaited calls collected, then task hooks run (start<await: %v, await<tasks: %v)", ok1, ok2)
	// registration before start: the loop that registers calls under their await point ranges over the very
	// collection StartAll is invoked on, and precedes it within the iteration
	reg := false
	outer := headerInstrs(start[0].Block())
	an.Instrs(fn, func(in ssa.Instruction) {
		mu, ok := in.(*ssa.MapUpdate)
		if !ok {
			return
		}
		isPending := false
		for _, l := range an.BackSlice(mu.Map, an.SliceOpts{}) {
			if (l.Kind == "field" || l.Kind == "via") && strings.Contains(l.Path, "Environment.callsPendingAwait") {
				isPending = true
			}
		}
		if !isPending {
			return
		}
		// the registered value contains an element of the started collection
		fromStarted := false
		for _, l := range an.BackSlice(mu.Value, an.SliceOpts{}) {
			_ = l
		}
		var walk func(v ssa.Value, d int)
		seen := map[ssa.Value]bool{}
		walk = func(v ssa.Value, d int) {
			if v == nil || seen[v] || d > 12 {
				return
			}
			seen[v] = true
			if v == start[0].Common().Args[0] {
				fromStarted = true
				return
			}
			switch x := v.(type) {
			case *ssa.Call:
				for _, a := range x.Call.Args {
					walk(a, d+1)
				}
			case *ssa.Slice:
				walk(x.X, d+1)
			case *ssa.UnOp:
				walk(x.X, d+1)
			case *ssa.IndexAddr:
				walk(x.X, d+1)
			case *ssa.Phi:
				for _, e := range x.Edges {
					walk(e, d+1)
				}
			case *ssa.Alloc:
				if x.Referrers() != nil {
					for _, r := range *x.Referrers() {
						if ia, ok := r.(*ssa.IndexAddr); ok && ia.Referrers() != nil {
							for _, rr := range *ia.Referrers() {
								if st, ok := rr.(*ssa.Store); ok {
									walk(st.Val, d+1)
								}
							}
						}
					}
				}
			}
		}
		walk(mu.Value, 0)
		if fromStarted && an.CanReachAvoiding(mu, start[0], outer) && !an.CanReachAvoiding(start[0], mu, outer) {
			reg = true
		}
	})
	c.Ob(key+"|registered-before-start", start[0].Pos(), reg, "every call must be registered under its await point before it is started (otherwise a call whose await moment is this very moment is never collected)")
	// forget after await
	var dels []ssa.Instruction
	for _, ci := range an.CallsNamed(fn, "builtin.delete") {
		dels = append(dels, ci)
	}
	forgot := len(dels) > 0
	if forgot {
		// every path from AwaitAll to the next iteration/exit passes a delete
		forgot = !an.CanReachAvoiding(await[0], run[0], dels)
	}
	c.Ob(key+"|collected-once", await[0].Pos(), forgot, "after AwaitAll the collected calls must be removed from the pending map on every path (otherwise they are awaited again, or cancelled at teardown although they returned)")
}

// headerInstrs: first instructions of the headers of the natural loops that contain block b.
func headerInstrs(b *ssa.BasicBlock) []ssa.Instruction {
	var out []ssa.Instruction
	for _, h := range b.Parent().Blocks {
		if !strings.HasSuffix(h.Comment, ".loop") || len(h.Instrs) == 0 || !h.Dominates(b) {
			continue
		}
		// natural loop body of h: nodes reaching a back-edge source without passing h
		body := map[*ssa.BasicBlock]bool{h: true}
		var rev func(x *ssa.BasicBlock)
		rev = func(x *ssa.BasicBlock) {
			if body[x] {
				return
			}
			body[x] = true
			for _, p := range x.Preds {
				rev(p)
			}
		}
		for _, p := range h.Preds {
			if h.Dominates(p) {
				rev(p)
			}
		}
		if body[b] {
			out = append(out, h.Instrs[0])
		}
	}
	return out
}

func r08f(c *an.Ctx) {
	c.Rule("R08f", "each started call is awaited exactly once per collection; every pending call is cancelled at teardown", 3)
	if fn := c.MustFn("core/workflow/callable", "Calls.AwaitAll"); fn != nil {
		for _, g := range an.GoClosures(fn) {
			c.Subject()
			c.Mark(g.Fn)
			isAwait := func(in ssa.Instruction) bool {
				ci, ok := in.(ssa.CallInstruction)
				return ok && an.CalleeName(ci.Common()) == "(*core/workflow/callable.Call).Await"
			}
			mn, mx, ok := an.PathCount(g.Fn, nil, isAwait, an.IsExit)
			c.Ob("core/workflow/callable.Calls.AwaitAll[go]|await-once", g.Go.Pos(), ok && mn == 1 && mx == 1 && an.InLoop(g.Go.Block()), "each call of the collection is awaited exactly once (min=%d max=%d), one goroutine per call", mn, mx)
		}
		c.Subject()
		waits := an.CallsNamed(fn, "(*sync.WaitGroup).Wait")
		okW := len(waits) == 1
		for _, r := range an.Returns(fn) {
			if okW && !an.Dominates(waits[0], r) {
				okW = false
			}
		}
		c.Ob("core/workflow/callable.Calls.AwaitAll|joins", fn.Pos(), okW, "AwaitAll returns only after every awaited call has returned: the state machine does not move past the await point earlier")
	}
	if fn := c.MustFn("core/workflow/callable", "Call.Start"); fn != nil {
		c.Subject()
		// the call itself runs inside the goroutine (asynchronously), not in Start
		inGo := false
		for _, g := range an.GoClosures(fn) {
			c.Mark(g.Fn)
			if len(an.CallsNamed(g.Fn, "(*core/workflow/callable.Call).Call")) == 1 {
				inGo = true
			}
		}
		direct := len(an.CallsNamed(fn, "(*core/workflow/callable.Call).Call"))
		c.Ob("(*core/workflow/callable.Call).Start|asynchronous", fn.Pos(), inGo && direct == 0, "Start must launch the call in its own goroutine (equal-weight hooks start together) and not run it inline")
	}
	if fn := c.MustFn("core/environment", "Manager.cancelCallsPendingAwait"); fn != nil {
		c.Subject()
		cancels := an.CallsNamed(fn, "(*core/workflow/callable.Call).Cancel")
		ok := false
		if len(cancels) == 1 {
			// nested in three range loops (await name -> weight -> call), guarded only by call != nil
			depth := 0
			for x := cancels[0].Block(); x != nil; x = x.Idom() {
				if strings.HasSuffix(x.Comment, ".loop") {
					depth++
				}
			}
			only := true
			for _, a := range an.Atoms(cancels[0].Block()) {
				if !(a.Op == token.NEQ && a.Y != nil && an.IsNilConst(a.Y)) {
					only = false
				}
			}
			ok = depth >= 3 && only
		}
		c.Ob("(*core/environment.Manager).cancelCallsPendingAwait|cancels-all", fn.Pos(), ok, "teardown must cancel every call of every weight of every await point that is still pending")
	}
	_ = fmt.Sprint
}

// pendingResetRule (shared by C08 and C09): in handleHooks a store that replaces an entry of the pending-await
// structure with a fresh empty container is reachable only through a test that THAT entry is absent or empty.
// Otherwise calls parked under another weight of the same moment are forgotten: never awaited (a critical
// failure is lost), never cancelled at teardown.
func pendingResetRule(c *an.Ctx, rule string) {
	c.Rule(rule, "handleHooks: an entry of callsPendingAwait is replaced by a fresh empty container only when that very entry is absent or empty", 1)
	fn := c.MustFn("core/environment", "Environment.handleHooks")
	if fn == nil {
		return
	}
	type edge struct {
		b *ssa.BasicBlock
		i int
	}
	an.Instrs(fn, func(in ssa.Instruction) {
		mu, ok := in.(*ssa.MapUpdate)
		if !ok {
			return
		}
		isPending := false
		for _, l := range an.BackSlice(mu.Map, an.SliceOpts{}) {
			if (l.Kind == "field" || l.Kind == "via") && strings.Contains(l.Path, "Environment.callsPendingAwait") {
				isPending = true
			}
		}
		if !isPending {
			return
		}
		// fresh empty container?
		fresh := false
		switch v := mu.Value.(type) {
		case *ssa.MakeMap:
			fresh = true
		case *ssa.MakeSlice:
			if n, isC := an.ConstInt(v.Len); isC && n == 0 {
				fresh = true
			}
		case *ssa.Slice:
			if al, isAl := v.X.(*ssa.Alloc); isAl && strings.Contains(al.Type().String(), "[0]") {
				fresh = true
			}
		}
		if !fresh {
			return
		}
		c.Subject()
		entry := an.ExprKey(mu.Map) + "[" + an.ExprKey(mu.Key) + "]"
		cut := map[edge]bool{}
		tests := 0
		for _, b := range fn.Blocks {
			v, trueIdx, isC := an.BoolCondEdge(b)
			if !isC {
				continue
			}
			// `ok` of a comma-ok lookup of the same entry: cut the absent edge
			if ex, isEx := v.(*ssa.Extract); isEx && ex.Index == 1 {
				if lk, isLk := ex.Tuple.(*ssa.Lookup); isLk && an.ExprKey(lk.X)+"["+an.ExprKey(lk.Index)+"]" == entry {
					cut[edge{b, 1 - trueIdx}] = true
					tests++
				}
			}
			// len(entry) == 0: cut the empty edge
			if bo, isB := v.(*ssa.BinOp); isB && (bo.Op == token.EQL || bo.Op == token.NEQ) {
				if call, isCall := bo.X.(*ssa.Call); isCall && an.CalleeName(&call.Call) == "builtin.len" && an.ExprKey(call.Call.Args[0]) == entry {
					if z, isZ := an.ConstInt(bo.Y); isZ && z == 0 {
						if bo.Op == token.EQL {
							cut[edge{b, trueIdx}] = true
						} else {
							cut[edge{b, 1 - trueIdx}] = true
						}
						tests++
					}
				}
			}
		}
		reach := an.ReachableCut(fn, mu, func(b *ssa.BasicBlock, i int) bool { return cut[edge{b, i}] })
		depth := strings.Count(entry, "[")
		c.Ob(fmt.Sprintf("(*core/environment.Environment).handleHooks|reset-pending-level%d", depth), mu.Pos(), !reach && tests > 0,
			"an entry of the pending-await structure is replaced by an empty container on a path that did not establish that this very entry is absent or empty (%d matching tests): calls already parked there under another weight are forgotten, never awaited and never cancelled", tests)
	})
}

// ascendingSortOf: call sorts a slice ascending in place; returns the slice operand.
func ascendingSortOf(call *ssa.Call) (ssa.Value, bool) {
	n := an.CalleeName(&call.Call)
	args := call.Call.Args
	switch {
	case n == "sort.Ints" || n == "sort.Strings" || n == "sort.Float64s":
		return args[0], true
	case strings.HasPrefix(n, "slices.Sort") && !strings.Contains(n, "Func"):
		return args[0], true
	case n == "sort.Slice" || n == "sort.SliceStable":
		// less(i, j) must be s[i] < s[j] on the very slice being sorted
		var sl ssa.Value = args[0]
		if mi, ok := sl.(*ssa.MakeInterface); ok {
			sl = mi.X
		}
		less := an.ClosureFn(args[1])
		if less == nil || len(less.Params) != 2 {
			return nil, false
		}
		for _, r := range an.Returns(less) {
			bo, ok := an.RetVal(r, 0).(*ssa.BinOp)
			if !ok || bo.Op != token.LSS {
				return nil, false
			}
			idxOf := func(v ssa.Value) ssa.Value {
				v = an.Strip(v)
				if ld, ok := v.(*ssa.UnOp); ok && ld.Op == token.MUL {
					if ia, ok := ld.X.(*ssa.IndexAddr); ok {
						return ia.Index
					}
				}
				return nil
			}
			if idxOf(bo.X) != ssa.Value(less.Params[0]) || idxOf(bo.Y) != ssa.Value(less.Params[1]) {
				return nil, false
			}
		}
		return sl, true
	}
	return nil, false
}

// returnsAscending: every return of fn yields a slice that was sorted ascending (see the rule text).
func returnsAscending(c *an.Ctx, fn *ssa.Function, depth int) bool {
	if fn == nil || fn.Blocks == nil || depth > 2 {
		return false
	}
	c.Mark(fn)
	rets := an.Returns(fn)
	if len(rets) == 0 {
		return false
	}
	// tail call of a same-package function that returns an ascending slice
	allTail := true
	for _, r := range rets {
		call, ok := an.Strip(an.RetVal(r, 0)).(*ssa.Call)
		if !ok || call.Call.StaticCallee() == nil || call.Call.StaticCallee().Pkg != fn.Pkg && call.Call.StaticCallee().Origin() == nil {
			allTail = false
			break
		}
		cal := call.Call.StaticCallee()
		if cal.Pkg == nil && cal.Origin() != nil && cal.Origin().Pkg != fn.Pkg {
			allTail = false
			break
		}
		if !returnsAscending(c, cal, depth+1) {
			allTail = false
			break
		}
	}
	if allTail {
		return true
	}
	var sortCall *ssa.Call
	var sorted ssa.Value
	an.Instrs(fn, func(in ssa.Instruction) {
		if call, ok := in.(*ssa.Call); ok {
			if sl, is := ascendingSortOf(call); is {
				sortCall, sorted = call, sl
			}
		}
	})
	if sortCall == nil {
		return false
	}
	for _, r := range rets {
		if !an.Dominates(sortCall, r) {
			return false
		}
		rv := an.Strip(an.RetVal(r, 0))
		if an.SameVar(rv, sorted) || an.DerivesFrom(rv, an.Strip(sorted)) || an.DerivesFrom(an.Strip(sorted), rv) || sameSliceCell(rv, sorted) {
			continue // the sorted slice itself (or an alias of it: same backing array)
		}
		// index-by-index copy of the sorted slice made after the sort
		fillOK := false
		an.Instrs(fn, func(in ssa.Instruction) {
			st, isSt := in.(*ssa.Store)
			if !isSt {
				return
			}
			ia, isIA := st.Addr.(*ssa.IndexAddr)
			if !isIA || !an.Dominates(sortCall, st) || !(an.SameVar(ia.X, rv) || an.DerivesFrom(rv, ia.X)) {
				return
			}
			var val ssa.Value = st.Val
			if cv, isConv := val.(*ssa.Convert); isConv {
				val = cv.X
			}
			if ld, isLd := an.Strip(val).(*ssa.UnOp); isLd {
				if src, isSrc := ld.X.(*ssa.IndexAddr); isSrc && src.Index == ia.Index && (src.X == sorted || an.SameVar(src.X, sorted)) {
					fillOK = true
				}
			}
		})
		if !fillOK {
			return false
		}
	}
	return true
}

// sameSliceCell: both values are loads of the same local cell (a slice variable captured by the less closure).
func sameSliceCell(a, b ssa.Value) bool {
	ua, okA := an.Strip(a).(*ssa.UnOp)
	ub, okB := an.Strip(b).(*ssa.UnOp)
	return okA && okB && ua.X == ub.X
}

// pendingMutationRule (shared by C06, C08 and C09): besides the guarded creation of an empty container (pendingResetRule)
// the pending-await bookkeeping of handleHooks changes in two ways only: a started call is appended to the entry as it
// is, and the entry that has just been awaited is deleted. Teardown walks this structure to cancel what is still
// pending, and the await points collect from it: a call that leaves it any other way is neither awaited nor cancelled.
func pendingMutationRule(c *an.Ctx, rule string) {
	c.Rule(rule, "handleHooks: callsPendingAwait only grows by appending the started call to its entry and only shrinks by deleting the entry just awaited", 2)
	fn := c.MustFn("core/environment", "Environment.handleHooks")
	if fn == nil {
		return
	}
	// the map operand is the callsPendingAwait field itself or one of its per-moment maps (not a map that merely holds
	// values computed from it)
	var isPending func(m ssa.Value) bool
	seenM := map[ssa.Value]bool{}
	isPending = func(m ssa.Value) bool {
		m = an.Strip(m)
		if seenM[m] {
			return false
		}
		seenM[m] = true
		defer delete(seenM, m)
		switch x := m.(type) {
		case *ssa.UnOp:
			if f := an.FieldOf(x); f != nil && f.Name() == "callsPendingAwait" {
				return true
			}
			if al, isAl := x.X.(*ssa.Alloc); isAl && al.Referrers() != nil {
				for _, r := range *al.Referrers() {
					if st, isSt := r.(*ssa.Store); isSt && st.Addr == ssa.Value(al) && isPending(st.Val) {
						return true
					}
				}
			}
		case *ssa.Lookup:
			return isPending(x.X)
		case *ssa.Extract:
			if lk, isLk := x.Tuple.(*ssa.Lookup); isLk && x.Index == 0 {
				return isPending(lk.X)
			}
		case *ssa.Phi:
			for _, e := range x.Edges {
				if isPending(e) {
					return true
				}
			}
		}
		return false
	}
	awaits := an.CallsSuffix(fn, "callable.Calls).AwaitAll")
	an.Instrs(fn, func(in ssa.Instruction) {
		switch x := in.(type) {
		case *ssa.MapUpdate:
			if !isPending(x.Map) {
				return
			}
			switch v := x.Value.(type) {
			case *ssa.MakeMap, *ssa.MakeSlice:
				return // creation: pendingResetRule
			case *ssa.Slice:
				if _, isAl := v.X.(*ssa.Alloc); isAl {
					return
				}
			case *ssa.Call:
				if an.CalleeName(&v.Call) == "builtin.append" {
					c.Subject()
					entry := an.ExprKey(x.Map) + "[" + an.ExprKey(x.Key) + "]"
					base := an.Strip(v.Call.Args[0])
					same := false
					if lk, isLk := base.(*ssa.Lookup); isLk && an.ExprKey(lk.X)+"["+an.ExprKey(lk.Index)+"]" == entry {
						same = true
					}
					if ex, isEx := base.(*ssa.Extract); isEx && ex.Index == 0 {
						if lk, isLk := ex.Tuple.(*ssa.Lookup); isLk && an.ExprKey(lk.X)+"["+an.ExprKey(lk.Index)+"]" == entry {
							same = true
						}
					}
					c.Ob("(*core/environment.Environment).handleHooks|register-appends-to-entry", x.Pos(), same,
						"the started call must be appended to the pending list exactly as it stands (append(entry, call) stored back into the same entry): a list rebuilt or filtered on the way drops calls that were started and are then neither awaited nor cancelled")
					return
				}
			}
			c.Subject()
			c.Ob("(*core/environment.Environment).handleHooks|pending-entry-overwritten", x.Pos(), false, "an entry of the pending-await structure is overwritten with something that is neither a fresh empty container nor the entry plus the started call")
		case *ssa.Call:
			if an.CalleeName(&x.Call) != "builtin.delete" || !isPending(x.Call.Args[0]) {
				return
			}
			c.Subject()
			// the entry deleted is the one AwaitAll has just been called on
			ok := false
			entry := an.ExprKey(x.Call.Args[0]) + "[" + an.ExprKey(x.Call.Args[1]) + "]"
			for _, aw := range awaits {
				awc, isCall := aw.(*ssa.Call)
				if !isCall || !an.Dominates(awc, x) {
					continue
				}
				recv := an.Strip(awc.Call.Args[0])
				var lk *ssa.Lookup
				if l, isLk := recv.(*ssa.Lookup); isLk {
					lk = l
				} else if ex, isEx := recv.(*ssa.Extract); isEx && ex.Index == 0 {
					lk, _ = ex.Tuple.(*ssa.Lookup)
				}
				if lk != nil && an.ExprKey(lk.X)+"["+an.ExprKey(lk.Index)+"]" == entry {
					ok = true
				}
			}
			c.Ob("(*core/environment.Environment).handleHooks|delete-only-awaited-entry", x.Pos(), ok,
				"entries leave the pending-await structure only after AwaitAll returned for that very (moment, weight) entry: deleting anything else (a whole moment, another weight) forgets calls that are still running - they are never collected and teardown cannot cancel them")
		}
	})
}

// R08i: Call.Start keeps the state of the started invocation (the await channel, the cancel function) in the Call
// object itself. "Each started call is collected exactly once, or cancelled" therefore needs one Call object per
// start: a call role that hands out the same object again has the pending start's channel overwritten by the next
// Start - the first invocation is never collected and never cancelled.
func r08i(c *an.Ctx) {
	c.Rule("R08i", "a call role builds a new Call for every hook lookup (Call.Start keeps per-start state in the object)", 2)
	start := c.MustFn("core/workflow/callable", "Call.Start")
	if start == nil {
		return
	}
	perStart := 0
	an.Instrs(start, func(in ssa.Instruction) {
		if st, ok := in.(*ssa.Store); ok {
			if fa, isFA := st.Addr.(*ssa.FieldAddr); isFA && types.Identical(fa.X.Type(), start.Params[0].Type()) {
				perStart++
			}
		}
	})
	for _, name := range []string{"callRole.GetHooksMapForTrigger", "callRole.GetAllHooks"} {
		fn := c.MustFn("core/workflow", name)
		if fn == nil {
			continue
		}
		c.Subject()
		var bad []string
		n := 0
		var fresh func(v ssa.Value, depth int) bool
		fresh = func(v ssa.Value, depth int) bool {
			if depth > 6 {
				return false
			}
			switch x := v.(type) {
			case *ssa.Call:
				cal := x.Call.StaticCallee()
				return cal != nil && cal.Name() == "NewCall" && cal.Pkg != nil && strings.HasSuffix(cal.Pkg.Pkg.Path(), "core/workflow/callable")
			case *ssa.Phi:
				for _, e := range x.Edges {
					if !fresh(e, depth+1) {
						return false
					}
				}
				return len(x.Edges) > 0
			case *ssa.UnOp:
				if al, ok := x.X.(*ssa.Alloc); ok && x.Op == token.MUL {
					sts := an.ReachingStores(x)
					for _, st := range sts {
						if !fresh(st.Val, depth+1) {
							return false
						}
					}
					_ = al
					return len(sts) > 0
				}
			}
			return false
		}
		an.Instrs(fn, func(in ssa.Instruction) {
			mi, ok := in.(*ssa.MakeInterface)
			if !ok || !strings.HasSuffix(mi.X.Type().String(), "core/workflow/callable.Call") {
				return
			}
			n++
			if perStart > 0 && !fresh(mi.X, 0) {
				bad = append(bad, c.PosStr(mi.Pos()))
			}
		})
		sort.Strings(bad)
		c.Ob("(*core/workflow."+strings.Replace(name, ".", ").", 1)+"|fresh-call-per-lookup", fn.Pos(), len(bad) == 0 && n > 0,
			"the Call handed out as a hook at %v is not built by NewCall in this lookup (%d hook values examined; Call.Start writes %d per-start fields of its receiver): a second Start of the remembered object overwrites the await channel and cancel function of a start that is still pending, which is then neither collected nor cancelled", bad, n, perStart)
	}
}

// R08j: the state machine does not move past an await point until the awaited call has returned: Call.Await answers
// only with what it received from the call's await channel (the outcome, or the closing of the channel by a
// cancelled call) - never with a value of its own while the call may still be running.
func r08j(c *an.Ctx) {
	c.Rule("R08j", "Call.Await returns only what it received from the call's await channel", 1)
	fn := c.MustFn("core/workflow/callable", "Call.Await")
	if fn == nil {
		return
	}
	c.Subject()
	isAwaitChan := func(v ssa.Value) bool {
		return isFieldNamed(v, "await")
	}
	// blocks in which a receive on the await channel has completed (its block, or a block it dominates)
	var recvs []ssa.Instruction
	an.Instrs(fn, func(in ssa.Instruction) {
		if u, ok := in.(*ssa.UnOp); ok && u.Op == token.ARROW && isAwaitChan(u.X) {
			recvs = append(recvs, u)
		}
	})
	afterReceive := func(at *ssa.BasicBlock) bool {
		for _, r := range recvs {
			if r.Block() == at || r.Block().Dominates(at) {
				return true
			}
		}
		return false
	}
	var received func(v ssa.Value, at *ssa.BasicBlock, depth int) bool
	received = func(v ssa.Value, at *ssa.BasicBlock, depth int) bool {
		if depth > 6 {
			return false
		}
		switch x := v.(type) {
		case *ssa.Const:
			// the zero value after a completed receive: what a closed channel delivers (`v, ok := <-c.await; if ok {..}`)
			return an.IsNilConst(x) && afterReceive(at)
		case *ssa.UnOp:
			if x.Op == token.ARROW {
				return isAwaitChan(x.X)
			}
			if al, ok := x.X.(*ssa.Alloc); ok && x.Op == token.MUL {
				sts := an.ReachingStores(x)
				for _, st := range sts {
					if !received(st.Val, st.Block(), depth+1) {
						return false
					}
				}
				_ = al
				return len(sts) > 0
			}
		case *ssa.Extract:
			if sel, ok := x.Tuple.(*ssa.Select); ok {
				// the value received by the state whose channel is the await channel
				idx := 2
				for _, st := range sel.States {
					if st.Dir == types.RecvOnly {
						if idx == x.Index {
							return isAwaitChan(st.Chan)
						}
						idx++
					}
				}
			}
			if u, ok := x.Tuple.(*ssa.UnOp); ok && u.Op == token.ARROW && x.Index == 0 {
				return isAwaitChan(u.X)
			}
		case *ssa.Phi:
			for i, e := range x.Edges {
				if !received(e, x.Block().Preds[i], depth+1) {
					return false
				}
			}
			return len(x.Edges) > 0
		}
		return false
	}
	var bad []string
	n := 0
	for _, r := range an.Returns(fn) {
		if len(r.Results) != 1 {
			continue
		}
		n++
		if !received(r.Results[0], r.Block(), 0) {
			bad = append(bad, c.PosStr(lastPos(r.Block())))
		}
	}
	sort.Strings(bad)
	c.Ob("(*core/workflow/callable.Call).Await|returns-received-outcome", fn.Pos(), len(bad) == 0 && n > 0,
		"Await can return a value that was not received from the call's await channel (at %v): the transition goes on to the next moment while the hook call is still running, and its real outcome is never collected", bad)
}

// whoMayCancel (shared by C08 and C09): a pending hook call is cancelled only when its environment is torn down. A
// cancelled call's await channel is closed, so a later Await on it answers nil: cancelling at any other moment (after
// a failed transition, say) turns a critical hook failure that is still to be collected into a success.
func whoMayCancel(c *an.Ctx, rule string) {
	c.Rule(rule, "Call.Cancel is reached only from the teardown of the environment (through cancelCallsPendingAwait)", 2)
	cancelAll := c.MustFn("core/environment", "Manager.cancelCallsPendingAwait")
	td := c.MustFn("core/environment", "Manager.TeardownEnvironment")
	if cancelAll == nil || td == nil {
		return
	}
	for _, s := range c.SitesOf(func(n string) bool { return n == "(*core/workflow/callable.Call).Cancel" }) {
		c.Subject()
		from := an.OutermostParent(s.Fn)
		c.Ob("call-Cancel|"+c.RelName(from), s.Call.Pos(), from == cancelAll,
			"Call.Cancel is called from %s: only the teardown's cancellation of what is still pending may cancel a hook call", c.RelName(from))
	}
	for _, s := range c.SitesOfFn(cancelAll) {
		c.Subject()
		from := an.OutermostParent(s.Fn)
		c.Ob("call-cancelCallsPendingAwait|"+c.RelName(from), s.Call.Pos(), from == td,
			"the pending hook calls of an environment are cancelled from %s, not only at teardown: a call started earlier and awaited later (another moment, another transition) is then answered with nil at its await point although it failed or is still running", c.RelName(from))
	}
}

package rules

import (
	"fmt"
	"go/token"
	"sort"
	"strings"

	"verifchk/internal/an"

	"golang.org/x/tools/go/ssa"
)

func init() {
	register("C10", "Decides structural necessary conditions of 'run number and run timestamps bracket every run exactly once': "+
		"(R10a) run number, its variables and the start-of-run timestamp are set between the negative-weight and non-negative-weight before_START_ACTIVITY hooks, and dropped only after the non-negative after_STOP_ACTIVITY hooks; "+
		"(R10b) end timestamps are written only when still empty (one allow-listed exception: the end-completion write of after_STOP_ACTIVITY); (R10c) each of the four ways a run ends has its guarded end-timestamp writes; "+
		"(R10d) START clears the three later timestamps after setting the first; (R10e) nobody else writes these variables. Does not decide the ordering of the values nor exactly-once over histories.", runC10)
}

func runC10(c *an.Ctx) {
	r10a(c)
	r10bc(c)
	r10d(c)
	r10e(c)
	// shared with C01: teardown decides "the environment is RUNNING, end the run" on a state read under the transition
	// lock; a state read before the lock can be CONFIGURED while the run has started meanwhile, and the run then ends
	// without end timestamps
	c.As(map[string]string{"R01c": "R10f"}, func() { r01c(c) })
	r10g(c)
	// round 7: shared with C01 (a failed requested transition ends the run through GO_ERROR) and C14 (run variables are user-rank variables of the root)
	c.As(map[string]string{"R01f": "R10h"}, func() { r01f(c) })
	c.As(map[string]string{"R14a": "R10i"}, func() { r14a(c) })
	// round 8
	r10j(c)
	// round 9
	r10k(c)
}

// R10g: "values of a previous run are never visible in the next": the run variables handed to the tasks with START are
// pushed whenever they are present in the stack - an empty value is what clears the previous run's (run_end_time_ms is
// reset to "" at START for exactly this purpose). A push that also depends on the value keeps the old one alive.
func r10g(c *an.Ctx) {
	c.Rule("R10g", "START arguments: a variable found in the stack is pushed whatever its value", 1)
	fn := c.MustFn("core/environment", "StartActivityTransition.do")
	if fn == nil {
		return
	}
	n := 0
	an.Instrs(fn, func(in ssa.Instruction) {
		mu, ok := in.(*ssa.MapUpdate)
		if !ok {
			return
		}
		ex, isEx := mu.Value.(*ssa.Extract)
		if !isEx || ex.Index != 0 {
			return
		}
		lk, isLk := ex.Tuple.(*ssa.Lookup)
		if !isLk || !lk.CommaOk {
			return
		}
		n++
		c.Subject()
		var extra []string
		for _, g := range an.ControlConds(mu.Block()) {
			if g.LoopHeader || g.LoopExit || !an.Dominates(lk, g.If) {
				continue
			}
			for _, a := range an.CondAtoms(g.V, g.Val) {
				if e2, isE := a.X.(*ssa.Extract); isE && e2.Tuple == ssa.Value(lk) && e2.Index == 1 && a.Y == nil {
					continue
				}
				p := c.PosStr(atomPos(a))
				dup := false
				for _, e := range extra {
					dup = dup || e == p
				}
				if !dup {
					extra = append(extra, p)
				}
			}
		}
		sort.Strings(extra)
		c.Ob(fmt.Sprintf("core/environment.StartActivityTransition.do|push#%d|present-is-pushed", n), mu.Pos(), len(extra) == 0,
			"whether a run variable found in the stack is handed to the tasks depends on more than its presence (conditions at %v): a cleared value (e.g. run_end_time_ms reset to \"\" for the new run) is not pushed and the tasks keep the previous run's", extra)
	})
	if n == 0 {
		c.Lost("the copy of run variables from the variable stack into the START arguments")
	}
}

type varWrite struct {
	fn    *ssa.Function
	call  ssa.CallInstruction
	key   string
	value ssa.Value
	meth  string
}

// runVarWrites: every SetRuntimeVar / Set / Del / DeleteRuntimeVar(s) with a constant key among keys, in fns.
func runVarWrites(fns []*ssa.Function, keys map[string]bool) []varWrite {
	var out []varWrite
	for _, f := range fns {
		an.Instrs(f, func(in ssa.Instruction) {
			ci, ok := in.(ssa.CallInstruction)
			if !ok {
				return
			}
			m := an.MethodName(ci.Common())
			if m != "SetRuntimeVar" && m != "Set" && m != "Del" && m != "DeleteRuntimeVar" && m != "DeleteRuntimeVars" && m != "DeleteGlobalRuntimeVar" && m != "DeleteGlobalRuntimeVars" {
				return
			}
			a := an.Args(ci.Common())
			if len(a) < 2 {
				return
			}
			k, isK := an.ConstString(a[1])
			if !isK {
				// a key taken from a list of constants (`for _, key := range []string{...}`): one write per listed key
				seenK := map[string]bool{}
				for _, l := range an.BackSlice(a[1], an.SliceOpts{}) {
					if cst, isC := l.Val.(*ssa.Const); isC {
						if ks, isS := an.ConstString(cst); isS && keys[ks] && !seenK[ks] {
							seenK[ks] = true
							w := varWrite{fn: f, call: ci, key: ks, meth: m}
							if len(a) > 2 {
								w.value = a[2]
							}
							out = append(out, w)
						}
					}
				}
				return
			}
			if !keys[k] {
				return
			}
			w := varWrite{fn: f, call: ci, key: k, meth: m}
			if len(a) > 2 {
				w.value = a[2]
			}
			out = append(out, w)
		})
	}
	return out
}

// eventIs: block b is reached (on some path) with e.Event == ev established; `case "A", "B":` reaches its body both ways.
func eventIs(b *ssa.BasicBlock, ev string) bool {
	return an.AnyAtom(b, func(a an.Atom) bool {
		if a.Op == token.EQL && a.Y != nil && isFieldNamed(a.X, "Event") {
			if s, ok := an.ConstString(a.Y); ok && s == ev {
				return true
			}
		}
		return false
	})
}

func r10a(c *an.Ctx) {
	c.Rule("R10a", "before_START_ACTIVITY: number/SOSOR set after negative hooks and before non-negative hooks; after_STOP_ACTIVITY: number dropped after non-negative hooks", 2)
	cb := envCallbacks(c)
	if cb == nil {
		return
	}
	be, ae := cb["before_event"], cb["after_event"]
	neg, pos := an.CallsNamed(be, negHooks), an.CallsNamed(be, posHooks)
	c.Subject()
	key := "core/environment.newEnvironment[before_event]|START_ACTIVITY"
	if len(neg) != 1 || len(pos) != 1 {
		c.Ob(key, be.Pos(), false, "hook calls not found")
	} else {
		var points []ssa.Instruction
		an.Instrs(be, func(in ssa.Instruction) {
			if st, ok := in.(*ssa.Store); ok && isFieldNamed(st.Addr, "currentRunNumber") {
				points = append(points, st)
			}
		})
		for _, w := range runVarWrites([]*ssa.Function{be}, map[string]bool{"run_number": true, "runNumber": true, "run_start_time_ms": true}) {
			points = append(points, w.call)
		}
		ok := len(points) >= 4
		var bad []string
		for _, p := range points {
			if !(an.Dominates(neg[0], p) && before(p, pos[0]) && eventIs(p.Block(), "START_ACTIVITY")) {
				ok = false
				bad = append(bad, c.PosStr(p.Pos()))
			}
		}
		c.Ob(key+"|between-hook-groups", neg[0].Pos(), ok, "the run number, its variables and run_start_time_ms must be set under Event==START_ACTIVITY after the negative-weight hooks and before the non-negative-weight hooks (%d writes; misplaced: %v)", len(points), bad)
	}
	c.Subject()
	posA := an.CallsNamed(ae, posHooks)
	key = "core/environment.newEnvironment[after_event]|STOP_ACTIVITY"
	if len(posA) != 1 {
		c.Ob(key, ae.Pos(), false, "hook call not found")
		return
	}
	var drops []ssa.Instruction
	an.Instrs(ae, func(in ssa.Instruction) {
		if st, ok := in.(*ssa.Store); ok && isFieldNamed(st.Addr, "currentRunNumber") {
			drops = append(drops, st)
		}
	})
	for _, w := range runVarWrites([]*ssa.Function{ae}, map[string]bool{"run_number": true, "runNumber": true}) {
		if w.meth == "Del" {
			drops = append(drops, w.call)
		}
	}
	ok := len(drops) >= 3
	var extra []string
	for _, p := range drops {
		if !(an.Dominates(posA[0], p) && eventIs(p.Block(), "STOP_ACTIVITY")) {
			ok = false
		}
		// "gone afterwards, however the run ends": the drop may depend on nothing but the event being STOP_ACTIVITY
		for _, a := range an.Atoms(p.Block()) {
			if a.Op == token.EQL && a.Y != nil && isFieldNamed(a.X, "Event") {
				continue
			}
			ok = false
			extra = append(extra, c.PosStr(atomPos(a)))
		}
	}
	if len(extra) > 0 {
		c.Ob(key+"|dropped-unconditionally", posA[0].Pos(), false, "dropping the run number at after_STOP_ACTIVITY depends on an additional condition (at %v): when it does not hold (e.g. a late hook failed) the run number of the finished run stays visible", extra)
	}
	c.Ob(key+"|dropped-after-hooks", posA[0].Pos(), ok, "the run number and its variables must stay until all after_STOP_ACTIVITY hooks have run, and be dropped only then (%d drops)", len(drops))
	// and the number is never dropped in any other callback
	for k, f := range cb {
		if f == ae || f == be {
			continue
		}
		an.Instrs(f, func(in ssa.Instruction) {
			if st, ok := in.(*ssa.Store); ok && isFieldNamed(st.Addr, "currentRunNumber") {
				c.Ob("core/environment.newEnvironment["+k+"]|no-run-number-write", st.Pos(), false, "the run number is written in the %s callback", k)
			}
		})
	}
}

// endWriteGuardAllowed: guard atoms under which an end-of-run timestamp may be recorded: the FSM event or state
// selecting the branch (comparison of e.Event / e.Src / CurrentState() with a constant string), and the still-empty test
// on the same variable.
func endWriteGuardAllowed(a an.Atom, key string) bool {
	get := func(v ssa.Value, idx int) bool {
		ex, ok := v.(*ssa.Extract)
		if !ok || ex.Index != idx {
			return false
		}
		call, ok := ex.Tuple.(*ssa.Call)
		if !ok || an.MethodName(&call.Call) != "Get" {
			return false
		}
		args := an.Args(&call.Call)
		if len(args) < 2 {
			return false
		}
		k, isK := an.ConstString(args[1])
		return isK && k == key
	}
	if a.Y == nil {
		return get(a.X, 1)
	}
	if _, isS := an.ConstString(a.Y); isS && (a.Op == token.EQL || a.Op == token.NEQ) {
		if get(a.X, 0) || isFieldNamed(a.X, "Event") || isFieldNamed(a.X, "Src") || isFieldNamed(a.X, "Dst") {
			return true
		}
		if call, ok := a.X.(*ssa.Call); ok {
			if n := an.MethodName(&call.Call); n == "CurrentState" || n == "Current" {
				return true
			}
		}
	}
	return false
}

// emptyGuarded: block b is guarded by `v, ok := X.Get(key); ok && v == ""`.
func emptyGuarded(b *ssa.BasicBlock, key string) bool {
	okSeen, emptySeen := false, false
	for _, a := range an.Atoms(b) {
		// ok == true : a.X is Extract #1 of a Get call with const key
		get := func(v ssa.Value, idx int) bool {
			ex, ok := v.(*ssa.Extract)
			if !ok || ex.Index != idx {
				return false
			}
			call, ok := ex.Tuple.(*ssa.Call)
			if !ok || an.MethodName(&call.Call) != "Get" {
				return false
			}
			args := an.Args(&call.Call)
			if len(args) < 2 {
				return false
			}
			k, isK := an.ConstString(args[1])
			return isK && k == key
		}
		if a.Y == nil && a.Val && get(a.X, 1) {
			okSeen = true
		}
		if a.Op == token.EQL && a.Y != nil && get(a.X, 0) {
			if s, isS := an.ConstString(a.Y); isS && s == "" {
				emptySeen = true
			}
		}
	}
	return okSeen && emptySeen
}

func r10bc(c *an.Ctx) {
	c.Rule("R10b", "end-of-run timestamps are written (with a non-constant value) only when still empty", 6)
	cb := envCallbacks(c)
	if cb == nil {
		return
	}
	td := c.MustFn("core/environment", "Manager.TeardownEnvironment")
	roleOf := map[*ssa.Function]string{}
	fns := []*ssa.Function{}
	for k, f := range cb {
		roleOf[f] = "core/environment.newEnvironment[" + k + "]"
		fns = append(fns, f)
	}
	if td != nil {
		roleOf[td] = "(*core/environment.Manager).TeardownEnvironment"
		fns = append(fns, td)
	}
	sort.Slice(fns, func(i, j int) bool { return roleOf[fns[i]] < roleOf[fns[j]] })
	ends := map[string]bool{"run_end_time_ms": true, "run_end_completion_time_ms": true}
	type site struct {
		role, key, event string
		guarded          bool
	}
	var sites []site
	for _, w := range runVarWrites(fns, ends) {
		if w.meth != "SetRuntimeVar" {
			continue
		}
		if _, isConst := an.ConstString(w.value); isConst {
			continue // clearing write (R10d)
		}
		c.Subject()
		g := emptyGuarded(w.call.Block(), w.key)
		ev := ""
		var evs []string
		for _, e := range []string{"START_ACTIVITY", "STOP_ACTIVITY", "GO_ERROR"} {
			if eventIs(w.call.Block(), e) {
				evs = append(evs, e)
			}
		}
		if len(evs) == 0 {
			evs = []string{""}
		}
		for _, e := range evs {
			sites = append(sites, site{roleOf[w.fn], w.key, e, g})
		}
		ev = strings.Join(evs, "+")
		k := fmt.Sprintf("%s|%s|%s", roleOf[w.fn], ev, w.key)
		// "however the run ends": beyond the event / state selection and the still-empty test, recording the end of the
		// run may depend on nothing else
		var extra []string
		// the selector: the innermost dominating test of the event (e.Event == "...") or of the RUNNING state
		var selector *ssa.BasicBlock
		for _, g := range an.Guards(w.call.Block()) {
			for _, a := range an.CondAtoms(g.V, g.Val) {
				if a.Y == nil {
					continue
				}
				if _, isS := an.ConstString(a.Y); !isS {
					continue
				}
				isSel := isFieldNamed(a.X, "Event") || isFieldNamed(a.X, "Src")
				if call, ok := a.X.(*ssa.Call); ok && an.MethodName(&call.Call) == "CurrentState" {
					isSel = true
				}
				if isSel && (selector == nil || selector.Dominates(g.If.Block())) {
					selector = g.If.Block()
				}
			}
		}
		for _, g := range an.Guards(w.call.Block()) {
			if g.LoopHeader || g.LoopExit || selector == nil || g.If.Block() == selector || !selector.Dominates(g.If.Block()) {
				continue
			}
			for _, a := range an.CondAtoms(g.V, g.Val) {
				if endWriteGuardAllowed(a, w.key) {
					continue
				}
				extra = append(extra, c.PosStr(atomPos(a)))
			}
		}
		if selector == nil {
			extra = append(extra, "no event/state selector found")
		}
		c.Ob(k+"|no-other-condition", w.call.Pos(), len(extra) == 0, "recording %s on this way of ending a run depends on an additional condition (at %v): when it does not hold (e.g. the run number was already reset by a failed START_ACTIVITY) the run ends without its end timestamp and end-of-run event", w.key, extra)
		if roleOf[w.fn] == "core/environment.newEnvironment[after_event]" && ev == "STOP_ACTIVITY" && w.key == "run_end_completion_time_ms" {
			c.Allowed("R10b: after_STOP_ACTIVITY writes run_end_completion_time_ms unconditionally; it runs once per run by the FSM graph (STOP_ACTIVITY only leaves RUNNING)")
			c.Ob(k, w.call.Pos(), true, "allow-listed unconditional write (once per run by the FSM graph)")
			continue
		}
		c.Ob(k, w.call.Pos(), g, "an end-of-run timestamp is overwritten without checking that it is still empty: a run that ended once (e.g. STOP then GO_ERROR, or leave_RUNNING after before_STOP) would get a second, later end time")
	}
	c.Rule("R10c", "every way a run ends writes its end timestamps", 6)
	want := []struct{ role, event, key string }{
		{"core/environment.newEnvironment[before_event]", "STOP_ACTIVITY", "run_end_time_ms"},
		{"core/environment.newEnvironment[before_event]", "GO_ERROR", "run_end_time_ms"},
		{"core/environment.newEnvironment[leave_state]", "", "run_end_time_ms"},
		{"(*core/environment.Manager).TeardownEnvironment", "", "run_end_time_ms"},
		{"core/environment.newEnvironment[after_event]", "STOP_ACTIVITY", "run_end_completion_time_ms"},
		{"core/environment.newEnvironment[after_event]", "GO_ERROR", "run_end_completion_time_ms"},
		{"(*core/environment.Manager).TeardownEnvironment", "", "run_end_completion_time_ms"},
	}
	for _, w := range want {
		c.Subject()
		found := false
		for _, s := range sites {
			if s.role == w.role && s.event == w.event && s.key == w.key {
				found = true
			}
		}
		c.Ob(fmt.Sprintf("%s|%s|writes-%s", w.role, w.event, w.key), token.NoPos, found, "this way of ending a run must record %s", w.key)
	}
	// leave_state / teardown writes are under Src/CurrentState == RUNNING
	for _, f := range fns {
		for _, w := range runVarWrites([]*ssa.Function{f}, ends) {
			if w.meth != "SetRuntimeVar" {
				continue
			}
			if _, isConst := an.ConstString(w.value); isConst {
				continue
			}
			role := roleOf[f]
			if role != "core/environment.newEnvironment[leave_state]" && role != "(*core/environment.Manager).TeardownEnvironment" {
				continue
			}
			running := false
			for _, a := range an.Atoms(w.call.Block()) {
				if a.Op == token.EQL && a.Y != nil {
					if s, ok := an.ConstString(a.Y); ok && s == "RUNNING" {
						running = true
					}
				}
			}
			c.Ob(fmt.Sprintf("%s|%s|only-when-RUNNING", role, w.key), w.call.Pos(), running, "outside the STOP/GO_ERROR events an end timestamp may only be recorded when the environment is leaving RUNNING")
		}
	}
}

func r10d(c *an.Ctx) {
	c.Rule("R10d", "START clears run_start_completion_time_ms, run_end_time_ms, run_end_completion_time_ms after setting run_start_time_ms", 1)
	cb := envCallbacks(c)
	if cb == nil {
		return
	}
	be := cb["before_event"]
	c.Subject()
	var sosor ssa.Instruction
	cleared := map[string]bool{}
	for _, w := range runVarWrites([]*ssa.Function{be}, map[string]bool{"run_start_time_ms": true, "run_start_completion_time_ms": true, "run_end_time_ms": true, "run_end_completion_time_ms": true}) {
		if w.meth != "SetRuntimeVar" || !eventIs(w.call.Block(), "START_ACTIVITY") {
			continue
		}
		if w.key == "run_start_time_ms" {
			sosor = w.call
			continue
		}
		if s, ok := an.ConstString(w.value); ok && s == "" {
			cleared[w.key] = true
		}
	}
	ok := sosor != nil && len(cleared) == 3
	c.Ob("core/environment.newEnvironment[before_event]|START_ACTIVITY|clears-later-timestamps", be.Pos(), ok, "START must set run_start_time_ms and reset the three later timestamps to \"\" so that values of the previous run are never visible in the next (cleared: %d of 3)", len(cleared))
}

func r10e(c *an.Ctx) {
	c.Rule("R10e", "only the FSM callbacks and teardown write the run timestamps and run-number variables", 10)
	cb := envCallbacks(c)
	if cb == nil {
		return
	}
	allowed := map[*ssa.Function]bool{}
	for _, f := range cb {
		allowed[f] = true
	}
	if td := c.Fn("core/environment", "Manager.TeardownEnvironment"); td != nil {
		allowed[td] = true
	}
	keys := map[string]bool{"run_start_time_ms": true, "run_start_completion_time_ms": true, "run_end_time_ms": true, "run_end_completion_time_ms": true, "run_number": true, "runNumber": true}
	var core []*ssa.Function
	for _, f := range c.ModuleFuncs() {
		if f.Pkg != nil && strings.Contains(f.Pkg.Pkg.Path(), "/core/") && !strings.Contains(f.Pkg.Pkg.Path(), "/core/integration") {
			core = append(core, f)
		}
	}
	for _, w := range runVarWrites(core, keys) {
		// only writes into variable maps / runtime vars: receiver types gera.Map / workflow.Role
		recvT := an.Args(w.call.Common())[0].Type().String()
		if !strings.Contains(recvT, "gera.Map") && !strings.Contains(recvT, "workflow.Role") && !strings.Contains(recvT, "callable.ParentRole") {
			continue
		}
		c.Subject()
		name := c.RelName(an.OutermostParent(w.fn))
		c.Ob("writer|"+w.key+"|"+name, w.call.Pos(), allowed[w.fn], "%s of %q in %s: only the FSM callbacks and teardown may write the run bracket variables", w.meth, w.key, name)
	}
}

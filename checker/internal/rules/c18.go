package rules

import (
	"go/constant"
	"go/token"
	"go/types"
	"sort"
	"strings"

	"verifchk/internal/an"

	"golang.org/x/tools/go/ssa"
)

func init() {
	register("C18", "Decides structural necessary conditions of 'a restarted core kills what it no longer owns, and only that': "+
		"(R18a) the persisted framework id is loaded into the id store before the scheduler is built, written back on change, and the same store feeds SUBSCRIBE and subscription tracking; "+
		"(R18b) every SUBSCRIBED event triggers an implicit reconciliation; (R18c) a reconciliation answer in a live state leads to a Mesos KILL; "+
		"(R18d) that KILL is only reachable when the task is absent from the roster or not owned by an environment. Does not decide completeness against what Mesos reports after arbitrary crash points.", runC18)
}

func runC18(c *an.Ctx) {
	r18a(c)
	r18b(c)
	r18cd(c)
}

func r18a(c *an.Ctx) {
	c.Rule("R18a", "framework id: loaded from the configuration into the store before NewScheduler; store setter persists it; the same store feeds WithFrameworkID and TrackSubscription", 5)
	fn := c.MustFn("core/task", "NewManager")
	if fn == nil {
		return
	}
	key := "core/task.NewManager"
	// GetRuntimeEntry(.., "mesos_fid")
	var getCall *ssa.Call
	for _, ci := range an.Calls(fn, func(n string, ci ssa.CallInstruction) bool { return an.MethodName(ci.Common()) == "GetRuntimeEntry" }) {
		for _, a := range ci.Common().Args {
			if s, ok := an.ConstString(a); ok && s == "mesos_fid" {
				getCall, _ = ci.(*ssa.Call)
			}
		}
	}
	newSched := an.CallsNamed(fn, "core/task.NewScheduler")
	c.Subject()
	if getCall == nil || len(newSched) != 1 {
		c.Ob(key+"|load-persisted-id", fn.Pos(), false, "GetRuntimeEntry(\"mesos_fid\") or the NewScheduler call not found")
	} else {
		// a dynamic call (the setter returned by store.SetOrPanic(fidStore)) taking the loaded value, before NewScheduler
		loaded := false
		an.Instrs(fn, func(in ssa.Instruction) {
			call, ok := in.(*ssa.Call)
			if !ok || call.Call.StaticCallee() != nil || call.Call.IsInvoke() {
				return
			}
			setter, ok := call.Call.Value.(*ssa.Call)
			if !ok || !strings.HasSuffix(an.CalleeName(&setter.Call), "mesos-go/api/v1/lib/extras/store.SetOrPanic") {
				return
			}
			for _, a := range call.Call.Args {
				for _, l := range an.BackSlice(a, an.SliceOpts{LeafCall: func(n string, cl *ssa.Call) bool { return cl == getCall }}) {
					if l.Kind == "call" && l.Val == ssa.Value(getCall) && an.CanReach(call, newSched[0]) && !an.CanReach(newSched[0], call) && onlyGuardedByOwnErr(call, getCall) {
						// same store as passed to NewScheduler
						if an.SameVar(setter.Call.Args[0], newSched[0].Common().Args[1]) {
							loaded = true
						}
					}
				}
			}
		})
		c.Ob(key+"|load-persisted-id", getCall.Pos(), loaded, "the framework id read from the configuration must be set into the id store that NewScheduler receives, before the scheduler is built (otherwise the core re-registers as a new framework and its old tasks are orphaned)")
	}
	// the store decorator persists
	c.Subject()
	persists := false
	for _, a := range fn.AnonFuncs {
		for _, ci := range an.Calls(a, func(n string, ci ssa.CallInstruction) bool { return an.MethodName(ci.Common()) == "SetRuntimeEntry" }) {
			for _, arg := range ci.Common().Args {
				if s, ok := an.ConstString(arg); ok && s == "mesos_fid" {
					// value written is the setter's `v` parameter
					for _, arg2 := range ci.Common().Args {
						if p, ok := arg2.(*ssa.Parameter); ok && p.Parent() == a {
							persists = true
						}
					}
				}
			}
		}
	}
	c.Ob(key+"|persist-on-set", fn.Pos(), persists, "the id store's setter must write the new framework id to the configuration under the key it is read from")
	// runSchedulerController: WithFrameworkID(GetIgnoreErrors(fidStore)), buildEventHandler(fidStore)
	if rc := c.MustFn("core/task", "runSchedulerController"); rc != nil {
		c.Subject()
		var storeParam *ssa.Parameter
		for _, p := range rc.Params {
			if strings.HasSuffix(p.Type().String(), "store.Singleton") {
				storeParam = p
			}
		}
		ok := false
		for _, ci := range an.CallsSuffix(rc, "scheduler/controller.WithFrameworkID") {
			for _, l := range an.BackSlice(ci.Common().Args[0], an.SliceOpts{}) {
				if l.Kind == "param" && l.Val == ssa.Value(storeParam) {
					ok = true
				}
			}
		}
		c.Ob("core/task.runSchedulerController|subscribe-with-stored-id", rc.Pos(), ok && storeParam != nil, "controller.Run must subscribe with the framework id from the id store")
	}
	if bh := c.MustFn("core/task", "schedulerState.buildEventHandler"); bh != nil {
		c.Subject()
		ok := false
		for _, ci := range an.CallsSuffix(bh, "scheduler/controller.TrackSubscription") {
			if _, isP := ci.Common().Args[0].(*ssa.Parameter); isP {
				ok = true
			}
		}
		c.Ob("core/task.(*schedulerState).buildEventHandler|track-subscription", bh.Pos(), ok, "the SUBSCRIBED chain must store the id Mesos assigned (TrackSubscription on the id store)")
	}
	if st := c.MustFn("core/task", "schedulerState.Start"); st != nil {
		c.Subject()
		ok := false
		for _, f := range an.WithAnon(st) {
			for _, ci := range an.CallsNamed(f, "core/task.runSchedulerController") {
				if fv := an.FieldOf(ci.Common().Args[2]); fv != nil && fv.Name() == "fidStore" {
					ok = true
				}
			}
		}
		c.Ob("core/task.(*schedulerState).Start|controller-uses-state-store", st.Pos(), ok, "the controller must run with the scheduler state's id store")
	}
}

func r18b(c *an.Ctx) {
	c.Rule("R18b", "SUBSCRIBED handler chain contains the implicit reconciliation call", 2)
	bh := c.MustFn("core/task", "schedulerState.buildEventHandler")
	if bh == nil {
		return
	}
	c.Subject()
	subscribed := lookupConstInt(c, "github.com/mesos/mesos-go/api/v1/lib/scheduler", "Event_SUBSCRIBED")
	wired := false
	an.Instrs(bh, func(in ssa.Instruction) {
		mu, ok := in.(*ssa.MapUpdate)
		if !ok {
			return
		}
		k, ok := an.ConstInt(mu.Key)
		if !ok || subscribed == nil || k != *subscribed {
			return
		}
		for _, l := range an.BackSlice(mu.Value, an.SliceOpts{LeafCall: func(n string, _ *ssa.Call) bool {
			return n == "(*core/task.schedulerState).reconciliationCall"
		}}) {
			if l.Kind == "call" {
				wired = true
			}
		}
	})
	c.Ob("core/task.(*schedulerState).buildEventHandler|SUBSCRIBED->reconcile", bh.Pos(), wired, "the handler registered for Event_SUBSCRIBED must include reconciliationCall()")
	rc := c.MustFn("core/task", "schedulerState.reconciliationCall")
	if rc != nil && len(rc.AnonFuncs) == 1 {
		c.Subject()
		f := rc.AnonFuncs[0]
		c.Mark(f)
		ok := false
		for _, ci := range an.CallsSuffix(f, "scheduler/calls.Reconcile") {
			rec := ci.(*ssa.Call)
			for _, snd := range an.CallsSuffix(f, "scheduler/calls.CallNoData") {
				if snd.Common().Args[2] == ssa.Value(rec) && !an.PathFromEntryAvoiding(f, an.IsExit, []ssa.Instruction{snd}) {
					ok = true
				}
			}
		}
		c.Ob("core/task.(*schedulerState).reconciliationCall[handler]|sends-reconcile", f.Pos(), ok, "the handler must send a RECONCILE call on every path")
	}
}

func lookupConstInt(c *an.Ctx, pkg, name string) *int64 {
	pk := c.P.ByPath[pkg]
	if pk == nil || pk.Types == nil {
		return nil
	}
	obj, ok := pk.Types.Scope().Lookup(name).(*types.Const)
	if !ok {
		return nil
	}
	v, ok := constant.Int64Val(obj.Val())
	if !ok {
		return nil
	}
	return &v
}

// isLockedCutter returns a cut function that removes, for every If testing IsLocked() (possibly
// negated) or `t == nil` on a roster lookup, the edge on which the task is "not owned" / absent.
// What stays reachable is only reachable with an owned task.
func ownedOnlyCut(fn *ssa.Function) (cut func(*ssa.BasicBlock, int) bool, tests int) {
	type edge struct {
		b *ssa.BasicBlock
		i int
	}
	cutSet := map[edge]bool{}
	for _, b := range fn.Blocks {
		if v, trueIdx, ok := an.BoolCondEdge(b); ok {
			if call, isCall := v.(*ssa.Call); isCall && an.MethodName(&call.Call) == "IsLocked" {
				cutSet[edge{b, 1 - trueIdx}] = true // cut the "not locked" edge
				tests++
			}
		}
		if x, nilIdx, ok := an.NilCondEdge(b); ok {
			if call, isCall := x.(*ssa.Call); isCall {
				switch an.MethodName(&call.Call) {
				case "GetTask", "getByTaskId":
					cutSet[edge{b, nilIdx}] = true // cut the "not in roster" edge
					tests++
				}
			}
		}
	}
	return func(b *ssa.BasicBlock, i int) bool { return cutSet[edge{b, i}] }, tests
}

func r18cd(c *an.Ctx) {
	fn := c.MustFn("core/task", "Manager.handleMessage")
	c.Rule("R18c", "reconciliation answers in a live state lead to a Mesos KILL", 1)
	if fn == nil {
		return
	}
	kills := an.CallsSuffix(fn, "scheduler/calls.Kill")
	key := "core/task.(*Manager).handleMessage|reconcile-kill"
	if len(kills) != 1 {
		c.Ob(key, fn.Pos(), false, "expected exactly one calls.Kill in the status dispatcher, found %d", len(kills))
		return
	}
	kill := kills[0].(*ssa.Call)
	c.Subject()
	// the kill call is sent
	sent := false
	for _, snd := range an.CallsSuffix(fn, "scheduler/calls.CallNoData") {
		if snd.Common().Args[2] == ssa.Value(kill) {
			sent = true
		}
	}
	// reason guard
	reason := false
	for _, a := range an.Atoms(kill.Block()) {
		if a.Op == token.EQL && a.Y != nil {
			if s, ok := an.ConstString(a.Y); ok && s == "REASON_RECONCILIATION" {
				reason = true
			}
			if s, ok := an.ConstString(a.X); ok && s == "REASON_RECONCILIATION" {
				reason = true
			}
			for _, v := range []ssa.Value{a.X, a.Y} {
				if cst, ok := v.(*ssa.Const); ok && cst.Value != nil && strings.HasSuffix(cst.Type().String(), "TaskStatus_Reason") {
					if want := lookupConstInt(c, "github.com/mesos/mesos-go/api/v1/lib", "REASON_RECONCILIATION"); want != nil {
						if k, ok := constant.Int64Val(cst.Value); ok && k == *want {
							reason = true
						}
					}
				}
			}
		}
	}
	c.Ob(key+"|reason", kill.Pos(), reason && sent, "the KILL must be sent, and only for status updates whose reason is RECONCILIATION (reason-guard=%v sent=%v)", reason, sent)
	// state set: constants c such that an If `state == c` has its true edge leading to the kill region
	states := map[int64]bool{}
	region := map[*ssa.BasicBlock]bool{}
	// region: blocks from which the kill block is reached without passing another If on TaskState (approximation: the kill block and its idom chain up to the reason guard)
	for b := kill.Block(); b != nil; b = b.Idom() {
		region[b] = true
		if len(b.Preds) > 1 {
			break
		}
	}
	for _, b := range fn.Blocks {
		ifi, ok := b.Instrs[len(b.Instrs)-1].(*ssa.If)
		if !ok {
			continue
		}
		bo, ok := ifi.Cond.(*ssa.BinOp)
		if !ok || bo.Op != token.EQL {
			continue
		}
		var cst *ssa.Const
		if k, ok := bo.Y.(*ssa.Const); ok {
			cst = k
		} else if k, ok := bo.X.(*ssa.Const); ok {
			cst = k
		}
		if cst == nil || cst.Value == nil || !strings.HasSuffix(cst.Type().String(), "lib.TaskState") {
			continue
		}
		if region[b.Succs[0]] {
			if v, ok := constant.Int64Val(cst.Value); ok {
				states[v] = true
			}
		}
	}
	missing := []string{}
	for _, name := range []string{"TASK_STAGING", "TASK_STARTING", "TASK_RUNNING"} {
		v := lookupConstInt(c, "github.com/mesos/mesos-go/api/v1/lib", name)
		if v == nil || !states[*v] {
			missing = append(missing, name)
		}
	}
	sort.Strings(missing)
	c.Ob(key+"|live-states", kill.Pos(), len(missing) == 0, "the KILL must be reached for every state in which Mesos reports a task alive (missing: %v)", missing)

	c.Rule("R18d", "the reconciliation KILL is unreachable for a task that is in the roster and owned by an environment", 1)
	c.Subject()
	cut, tests := ownedOnlyCut(fn)
	reach := an.ReachableCut(fn, kill, cut)
	c.Ob(key+"|not-owned", kill.Pos(), !reach && tests > 0,
		"the reconciliation KILL is reachable for a task that is in the roster and owned by a live environment (%d ownership tests on the way): implicit reconciliation is requested on every SUBSCRIBED, also after a mere reconnection, and Mesos then reports every non-terminal task of the framework, so all running tasks of all environments are killed", tests)
}

// onlyGuardedByOwnErr: every guard of call's block is `err == nil` on the error result of src.
func onlyGuardedByOwnErr(call, src *ssa.Call) bool {
	for _, a := range an.Atoms(call.Block()) {
		ok := false
		if a.Op == token.EQL && a.Y != nil && an.IsNilConst(a.Y) {
			if ex, isEx := a.X.(*ssa.Extract); isEx && ex.Tuple == ssa.Value(src) {
				ok = true
			}
		}
		if !ok {
			return false
		}
	}
	return true
}

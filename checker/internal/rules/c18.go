package rules

import (
	"go/constant"
	"go/token"
	"go/types"
	"sort"
	"strings"

	"verifchk/internal/an"

	"golang.org/x/tools/go/ssa"
)

func init() {
	register("C18", "Decides structural necessary conditions of 'a restarted core kills what it no longer owns, and only that': "+
		"(R18a) the persisted framework id is loaded into the id store before the scheduler is built, written back on change, and the same store feeds SUBSCRIBE and subscription tracking; "+
		"(R18b) every SUBSCRIBED event triggers an implicit reconciliation; (R18c) a reconciliation answer in a live state leads to a Mesos KILL; "+
		"(R18c) ... and depends on nothing but the status message and the ownership lookup; (R18d) that KILL is only reachable when the task is absent from the roster or not owned by an environment. Does not decide completeness against what Mesos reports after arbitrary crash points.", runC18)
}

func runC18(c *an.Ctx) {
	r18a(c)
	r18b(c)
	r18cd(c)
	// shared with C03: reconciliation answers reach the ownership test only if the scheduler forwards every status
	// update; an update filtered out before (as a duplicate, say) leaves a task of the previous life alive
	c.As(map[string]string{"R03g": "R18e"}, func() { r03g(c) })
	// shared with C04: "never kills what it still owns" rests on ownership surviving status updates (a reconciliation
	// answer carries no executor id) and on the roster keeping every task that was not explicitly killed
	c.As(map[string]string{"R04h": "R18f"}, func() { r04h(c) })
	c.As(map[string]string{"R04g": "R18g"}, func() { r04g(c) })
	// round 7
	r18h(c)
	r18i(c)
	r18j(c)
	// round 8
	r18k(c)
	// round 9
	r18l(c)
	r18m(c)
}

func r18a(c *an.Ctx) {
	c.Rule("R18a", "framework id: loaded from the configuration into the store before NewScheduler; store setter persists it; the same store feeds WithFrameworkID and TrackSubscription", 5)
	fn := c.MustFn("core/task", "NewManager")
	if fn == nil {
		return
	}
	key := "core/task.NewManager"
	// GetRuntimeEntry(.., "mesos_fid")
	var getCall *ssa.Call
	for _, ci := range an.Calls(fn, func(n string, ci ssa.CallInstruction) bool { return an.MethodName(ci.Common()) == "GetRuntimeEntry" }) {
		for _, a := range ci.Common().Args {
			if s, ok := an.ConstString(a); ok && s == "mesos_fid" {
				getCall, _ = ci.(*ssa.Call)
			}
		}
	}
	newSched := an.CallsNamed(fn, "core/task.NewScheduler")
	c.Subject()
	if getCall == nil || len(newSched) != 1 {
		c.Ob(key+"|load-persisted-id", fn.Pos(), false, "GetRuntimeEntry(\"mesos_fid\") or the NewScheduler call not found")
	} else {
		// a dynamic call (the setter returned by store.SetOrPanic(fidStore)) taking the loaded value, before NewScheduler
		loaded := false
		an.Instrs(fn, func(in ssa.Instruction) {
			call, ok := in.(*ssa.Call)
			if !ok || call.Call.StaticCallee() != nil || call.Call.IsInvoke() {
				return
			}
			setter, ok := call.Call.Value.(*ssa.Call)
			if !ok || !strings.HasSuffix(an.CalleeName(&setter.Call), "mesos-go/api/v1/lib/extras/store.SetOrPanic") {
				return
			}
			for _, a := range call.Call.Args {
				for _, l := range an.BackSlice(a, an.SliceOpts{LeafCall: func(n string, cl *ssa.Call) bool { return cl == getCall }}) {
					if l.Kind == "call" && l.Val == ssa.Value(getCall) && an.CanReach(call, newSched[0]) && !an.CanReach(newSched[0], call) && onlyGuardedByOwnErr(call, getCall) {
						// same store as passed to NewScheduler
						if an.SameVar(setter.Call.Args[0], newSched[0].Common().Args[1]) {
							loaded = true
						}
					}
				}
			}
		})
		c.Ob(key+"|load-persisted-id", getCall.Pos(), loaded, "the framework id read from the configuration must be set into the id store that NewScheduler receives, before the scheduler is built (otherwise the core re-registers as a new framework and its old tasks are orphaned)")
	}
	// the store decorator persists
	c.Subject()
	persists := false
	for _, a := range fn.AnonFuncs {
		for _, ci := range an.Calls(a, func(n string, ci ssa.CallInstruction) bool { return an.MethodName(ci.Common()) == "SetRuntimeEntry" }) {
			for _, arg := range ci.Common().Args {
				if s, ok := an.ConstString(arg); ok && s == "mesos_fid" {
					// value written is the setter's `v` parameter
					for _, arg2 := range ci.Common().Args {
						if p, ok := arg2.(*ssa.Parameter); ok && p.Parent() == a {
							persists = true
						}
					}
				}
			}
		}
	}
	c.Ob(key+"|persist-on-set", fn.Pos(), persists, "the id store's setter must write the new framework id to the configuration under the key it is read from")
	// runSchedulerController: WithFrameworkID(GetIgnoreErrors(fidStore)), buildEventHandler(fidStore)
	if rc := c.MustFn("core/task", "runSchedulerController"); rc != nil {
		c.Subject()
		var storeParam *ssa.Parameter
		for _, p := range rc.Params {
			if strings.HasSuffix(p.Type().String(), "store.Singleton") {
				storeParam = p
			}
		}
		ok := false
		for _, ci := range an.CallsSuffix(rc, "scheduler/controller.WithFrameworkID") {
			// the getter of the store itself (read at every subscription), not a value read from it once
			getter, isGetter := an.Strip(ci.Common().Args[0]).(*ssa.Call)
			if !isGetter || !strings.HasSuffix(an.CalleeName(&getter.Call), "store.GetIgnoreErrors") {
				continue
			}
			for _, l := range an.BackSlice(ci.Common().Args[0], an.SliceOpts{}) {
				if l.Kind == "param" && l.Val == ssa.Value(storeParam) {
					ok = true
				}
			}
		}
		c.Ob("core/task.runSchedulerController|subscribe-with-stored-id", rc.Pos(), ok && storeParam != nil, "controller.Run must subscribe with the id store's getter itself (store.GetIgnoreErrors(fidStore)), read at every (re)subscription: an id read once when the controller starts is empty on a first start, so every later reconnection registers a new framework and strands the running tasks")
	}
	if bh := c.MustFn("core/task", "schedulerState.buildEventHandler"); bh != nil {
		c.Subject()
		ok := false
		// in the builder itself, or in a same-package helper it calls to assemble the SUBSCRIBED chain
		fns := []*ssa.Function{bh}
		an.Instrs(bh, func(in ssa.Instruction) {
			if cl, isCall := in.(*ssa.Call); isCall {
				if cal := cl.Call.StaticCallee(); cal != nil && cal.Pkg == bh.Pkg && cal.Blocks != nil {
					fns = append(fns, cal)
				}
			}
		})
		for _, f := range fns {
			for _, ci := range an.CallsSuffix(f, "scheduler/controller.TrackSubscription") {
				if _, isP := ci.Common().Args[0].(*ssa.Parameter); isP {
					ok = true
				}
			}
		}
		c.Ob("core/task.(*schedulerState).buildEventHandler|track-subscription", bh.Pos(), ok, "the SUBSCRIBED chain must store the id Mesos assigned (TrackSubscription on the id store)")
	}
	if st := c.MustFn("core/task", "schedulerState.Start"); st != nil {
		c.Subject()
		ok := false
		for _, f := range an.WithAnon(st) {
			for _, ci := range an.CallsNamed(f, "core/task.runSchedulerController") {
				if fv := an.FieldOf(ci.Common().Args[2]); fv != nil && fv.Name() == "fidStore" {
					ok = true
				}
			}
		}
		c.Ob("core/task.(*schedulerState).Start|controller-uses-state-store", st.Pos(), ok, "the controller must run with the scheduler state's id store")
	}
}

func r18b(c *an.Ctx) {
	c.Rule("R18b", "SUBSCRIBED handler chain contains the implicit reconciliation call", 2)
	bh := c.MustFn("core/task", "schedulerState.buildEventHandler")
	if bh == nil {
		return
	}
	c.Subject()
	subscribed := lookupConstInt(c, "github.com/mesos/mesos-go/api/v1/lib/scheduler", "Event_SUBSCRIBED")
	// sendsReconcile: f sends a RECONCILE call to the master on every path
	sendsReconcile := func(f *ssa.Function) bool {
		for _, ci := range an.CallsSuffix(f, "scheduler/calls.Reconcile") {
			rec, isCall := ci.(*ssa.Call)
			if !isCall {
				continue
			}
			for _, snd := range an.CallsSuffix(f, "scheduler/calls.CallNoData") {
				if len(snd.Common().Args) > 2 && snd.Common().Args[2] == ssa.Value(rec) && !an.PathFromEntryAvoiding(f, an.IsExit, []ssa.Instruction{snd}) {
					return true
				}
			}
		}
		return false
	}
	// the handlers the SUBSCRIBED registration is built from: function literals and method values in the chain, and the
	// literals returned by same-package constructor calls in the chain (reconciliationCall() style)
	wired := false
	var handler *ssa.Function
	an.Instrs(bh, func(in ssa.Instruction) {
		mu, ok := in.(*ssa.MapUpdate)
		if !ok {
			return
		}
		k, ok := an.ConstInt(mu.Key)
		if !ok || subscribed == nil || k != *subscribed {
			return
		}
		var cands []*ssa.Function
		var collect func(v ssa.Value, depth int)
		collect = func(v ssa.Value, depth int) {
			for _, l := range an.BackSlice(v, an.SliceOpts{LeafCall: func(n string, cl *ssa.Call) bool {
				cal := cl.Call.StaticCallee()
				return cal != nil && cal.Pkg == bh.Pkg && cal.Blocks != nil
			}}) {
				switch l.Kind {
				case "call":
					if cl, isCall := l.Val.(*ssa.Call); isCall && cl.Call.StaticCallee() != nil {
						cal := cl.Call.StaticCallee()
						cands = append(cands, cal.AnonFuncs...)
						// a helper that assembles (part of) the chain: what it returns
						if depth < 2 {
							for _, r := range an.Returns(cal) {
								for _, res := range r.Results {
									collect(res, depth+1)
								}
							}
						}
					}
				case "func":
					if f := an.ClosureFn(l.Val); f != nil {
						cands = append(cands, f)
					} else if f, isF := l.Val.(*ssa.Function); isF {
						cands = append(cands, f)
					}
				}
			}
		}
		collect(mu.Value, 0)
		for _, f := range cands {
			if f.Synthetic != "" && f.Blocks != nil {
				// bound method wrapper: look at the method it forwards to
				an.Instrs(f, func(in ssa.Instruction) {
					if cl, isCall := in.(*ssa.Call); isCall && cl.Call.StaticCallee() != nil && cl.Call.StaticCallee().Pkg == bh.Pkg {
						cands = append(cands, cl.Call.StaticCallee())
					}
				})
			}
		}
		for _, f := range cands {
			if f.Blocks != nil && sendsReconcile(f) {
				wired = true
				handler = f
			}
		}
	})
	c.Ob("core/task.(*schedulerState).buildEventHandler|SUBSCRIBED->reconcile", bh.Pos(), wired, "the handler chain registered for Event_SUBSCRIBED must include a handler that requests reconciliation")
	c.Subject()
	if handler != nil {
		c.Mark(handler)
	}
	c.Ob("core/task.(*schedulerState).reconciliationCall[handler]|sends-reconcile", bh.Pos(), handler != nil, "the reconciliation handler must send a RECONCILE call on every path")
}

func lookupConstInt(c *an.Ctx, pkg, name string) *int64 {
	pk := c.P.ByPath[pkg]
	if pk == nil || pk.Types == nil {
		return nil
	}
	obj, ok := pk.Types.Scope().Lookup(name).(*types.Const)
	if !ok {
		return nil
	}
	v, ok := constant.Int64Val(obj.Val())
	if !ok {
		return nil
	}
	return &v
}

// ownedAssume is the assumption "the task is in the roster and owned by an environment": IsLocked() is true and a
// roster lookup (GetTask / getByTaskId) is not nil. tests counts the values of fn the assumption decides.
func ownedAssume(fn *ssa.Function) (assume func(ssa.Value) (bool, bool), tests int) {
	decide := func(v ssa.Value) (bool, bool) {
		if call, isCall := v.(*ssa.Call); isCall && an.MethodName(&call.Call) == "IsLocked" {
			return true, true
		}
		if bo, ok := v.(*ssa.BinOp); ok && (bo.Op == token.EQL || bo.Op == token.NEQ) {
			for _, pair := range [][2]ssa.Value{{bo.X, bo.Y}, {bo.Y, bo.X}} {
				if call, isCall := pair[0].(*ssa.Call); isCall && an.IsNilConst(pair[1]) {
					switch an.MethodName(&call.Call) {
					case "GetTask", "getByTaskId":
						return bo.Op == token.NEQ, true
					}
				}
			}
		}
		return false, false
	}
	an.Instrs(fn, func(in ssa.Instruction) {
		if v, ok := in.(ssa.Value); ok {
			if _, k := decide(v); k {
				tests++
			}
		}
	})
	return decide, tests
}

// reconcileKill locates the reconciliation KILL: a calls.Kill in package core/task that is only reachable when
// the status' reason is RECONCILIATION. Returns its function and the call (tolerates the branch being extracted
// from the dispatcher into a helper).
func reconcileKill(c *an.Ctx) (*ssa.Function, *ssa.Call) {
	for _, s := range c.SitesOf(func(n string) bool { return strings.HasSuffix(n, "scheduler/calls.Kill") }) {
		if s.Fn.Pkg == nil || !strings.HasSuffix(s.Fn.Pkg.Pkg.Path(), "core/task") {
			continue
		}
		call, ok := s.Call.(*ssa.Call)
		if !ok {
			continue
		}
		if as, n := reasonAssume(c, s.Fn); n > 0 && !an.FlowAssume(s.Fn.Blocks[0], as).Reaches(call) {
			return s.Fn, call
		}
	}
	return nil, nil
}

// reasonAssume is the assumption "the status update's reason is NOT RECONCILIATION"; n counts the comparisons of fn
// it decides.
func reasonAssume(c *an.Ctx, fn *ssa.Function) (func(ssa.Value) (bool, bool), int) {
	want := lookupConstInt(c, "github.com/mesos/mesos-go/api/v1/lib", "REASON_RECONCILIATION")
	decide := func(v ssa.Value) (bool, bool) {
		bo, ok := v.(*ssa.BinOp)
		if !ok || (bo.Op != token.EQL && bo.Op != token.NEQ) {
			return false, false
		}
		isRecon := false
		for _, o := range []ssa.Value{bo.X, bo.Y} {
			if str, isS := an.ConstString(o); isS && str == "REASON_RECONCILIATION" {
				isRecon = true
			}
			if cst, isC := o.(*ssa.Const); isC && cst.Value != nil && want != nil && strings.HasSuffix(cst.Type().String(), "TaskStatus_Reason") {
				if k, isK := an.Int64Of(cst.Value); isK && k == *want {
					isRecon = true
				}
			}
		}
		if !isRecon {
			return false, false
		}
		return bo.Op == token.NEQ, true
	}
	n := 0
	an.Instrs(fn, func(in ssa.Instruction) {
		if v, ok := in.(ssa.Value); ok {
			if _, k := decide(v); k {
				n++
			}
		}
	})
	return decide, n
}

func r18cd(c *an.Ctx) {
	c.Rule("R18c", "reconciliation answers in a live state lead to a Mesos KILL", 1)
	disp := c.MustFn("core/task", "Manager.handleMessage")
	if disp == nil {
		return
	}
	fn, kill := reconcileKill(c)
	key := "core/task.(*Manager).handleMessage|reconcile-kill"
	if fn == nil {
		c.Ob(key, disp.Pos(), false, "no Mesos KILL that is reachable only for status updates with reason RECONCILIATION was found in core/task (either the KILL is gone, or it is no longer restricted to reconciliation answers)")
		return
	}
	c.Mark(fn)
	c.Subject()
	// wired into the dispatcher
	wired := fn == disp
	if !wired {
		for _, ci := range an.Calls(disp, func(n string, ci ssa.CallInstruction) bool { return ci.Common().StaticCallee() == fn }) {
			_ = ci
			wired = true
		}
	}
	sent := false
	for _, snd := range an.CallsSuffix(fn, "scheduler/calls.CallNoData") {
		if snd.Common().Args[2] == ssa.Value(kill) {
			sent = true
		}
	}
	c.Ob(key+"|reason", kill.Pos(), sent && wired, "the KILL for reconciliation answers must be sent (%v) from the status dispatcher (%v), and only when the reason is RECONCILIATION (established by cut-edge reachability)", sent, wired)
	// live states: for each of STAGING/STARTING/RUNNING the KILL is reachable on a path feasible for that state
	var stateV ssa.Value
	an.Instrs(fn, func(in ssa.Instruction) {
		if call, ok := in.(*ssa.Call); ok && an.MethodName(&call.Call) == "GetState" && strings.HasSuffix(call.Type().String(), "lib.TaskState") && stateV == nil {
			stateV = call
		}
	})
	var missing []string
	for _, name := range []string{"TASK_STAGING", "TASK_STARTING", "TASK_RUNNING"} {
		v := lookupConstInt(c, "github.com/mesos/mesos-go/api/v1/lib", name)
		if v == nil || stateV == nil || !an.ReachableAssuming(fn, stateV, constant.MakeInt64(*v), kill) {
			missing = append(missing, name)
		}
	}
	// and not reachable for a terminal state (sanity of the abstraction)
	if v := lookupConstInt(c, "github.com/mesos/mesos-go/api/v1/lib", "TASK_FINISHED"); v != nil && stateV != nil && an.ReachableAssuming(fn, stateV, constant.MakeInt64(*v), kill) {
		missing = append(missing, "(KILL also reachable for TASK_FINISHED)")
	}
	sort.Strings(missing)
	c.Ob(key+"|live-states", kill.Pos(), len(missing) == 0, "the KILL must be reached for every state in which Mesos reports a task alive, and not for terminal ones (problems: %v)", missing)

	// "kills what it no longer owns": whether an unowned live task reported by reconciliation is killed may depend on
	// nothing but the status message itself (reason, state, message kind) and the ownership lookup. A guard reading
	// other core state (e.g. "a KILL was already requested once") lets an unowned task survive.
	var extra []string
	seenPos := map[string]bool{}
	for _, g := range an.ControlConds(kill.Block()) {
		if g.LoopHeader || g.LoopExit {
			continue
		}
		if !reconGuardAllowed(g.V, map[ssa.Value]bool{}) {
			p := c.PosStr(condPos(g.V))
			if !seenPos[p] {
				seenPos[p] = true
				extra = append(extra, p)
			}
		}
	}
	sort.Strings(extra)
	c.Ob(key+"|not-further-conditioned", kill.Pos(), len(extra) == 0, "the reconciliation KILL additionally depends on core state other than the ownership lookup (conditions at %v): when it does not hold, a task of the previous life that nothing owns is reported alive and is not killed (e.g. a first KILL that was lost is never repeated)", extra)

	c.Rule("R18d", "the reconciliation KILL is unreachable for a task that is in the roster and owned by an environment", 1)
	c.Subject()
	as, tests := ownedAssume(fn)
	reach := an.FlowAssume(fn.Blocks[0], as).Reaches(kill)
	c.Ob(key+"|not-owned", kill.Pos(), !reach && tests > 0,
		"the reconciliation KILL is reachable for a task that is in the roster and owned by a live environment (%d ownership tests on the way): implicit reconciliation is requested on every SUBSCRIBED, also after a mere reconnection, and Mesos then reports every non-terminal task of the framework, so all running tasks of all environments are killed", tests)
}

// onlyGuardedByOwnErr: every guard of call's block is `err == nil` on the error result of src.
func onlyGuardedByOwnErr(call, src *ssa.Call) bool {
	for _, a := range an.Atoms(call.Block()) {
		ok := false
		if a.Op == token.EQL && a.Y != nil && an.IsNilConst(a.Y) {
			if ex, isEx := a.X.(*ssa.Extract); isEx && ex.Tuple == ssa.Value(src) {
				ok = true
			}
		}
		if !ok {
			return false
		}
	}
	return true
}

func condPos(v ssa.Value) token.Pos {
	if v.Pos().IsValid() {
		return v.Pos()
	}
	if in, ok := v.(ssa.Instruction); ok {
		for _, op := range in.Operands(nil) {
			if *op != nil && (*op).Pos().IsValid() {
				return (*op).Pos()
			}
		}
	}
	return token.NoPos
}

// reconGuardAllowed: condition v is computed from the status message only (reason, state, ids, message kind), or is
// the roster lookup GetTask()/getByTaskId() == nil, or a boolean combination of such conditions.
func reconGuardAllowed(v ssa.Value, seen map[ssa.Value]bool) bool {
	if seen[v] {
		return true
	}
	seen[v] = true
	switch x := v.(type) {
	case *ssa.UnOp:
		if x.Op == token.NOT {
			return reconGuardAllowed(x.X, seen)
		}
	case *ssa.Phi:
		if x.Type().String() == "bool" && x.Comment != "&&" && x.Comment != "||" {
			// a boolean variable assigned on several paths: every assigned condition must be allowed (the conditions
			// selecting the path are control conditions of their own)
			for _, e := range x.Edges {
				if _, isC := e.(*ssa.Const); isC {
					continue
				}
				if !reconGuardAllowed(e, seen) {
					return false
				}
			}
			return true
		}
		if x.Comment == "&&" || x.Comment == "||" {
			for i, e := range x.Edges {
				if _, isC := e.(*ssa.Const); isC {
					p := x.Block().Preds[i]
					if ifi, ok := p.Instrs[len(p.Instrs)-1].(*ssa.If); ok && !reconGuardAllowed(ifi.Cond, seen) {
						return false
					}
					continue
				}
				if !reconGuardAllowed(e, seen) {
					return false
				}
			}
			return true
		}
	case *ssa.BinOp:
		if x.Op == token.EQL || x.Op == token.NEQ {
			for _, pair := range [][2]ssa.Value{{x.X, x.Y}, {x.Y, x.X}} {
				if an.IsNilConst(pair[1]) {
					if _, isP := pair[0].(*ssa.Parameter); isP {
						return true // nil receiver / nil message checks
					}
					if u, ok := pair[0].(*ssa.UnOp); ok && u.Op == token.MUL {
						if al, ok := u.X.(*ssa.Alloc); ok && an.SpilledParam(al) != nil {
							return true
						}
					}
				}
				if call, ok := pair[0].(*ssa.Call); ok && an.IsNilConst(pair[1]) {
					switch an.MethodName(&call.Call) {
					case "GetTask", "getByTaskId":
						return true
					}
				}
			}
		}
	}
	return messageOnly(v, map[ssa.Value]bool{})
}

// messageOnly: v is computed from the function's parameters (the task manager message), constants and pure getters of
// the Mesos / taskop message types only - never from the manager's own state.
func messageOnly(v ssa.Value, seen map[ssa.Value]bool) bool {
	if v == nil || seen[v] {
		return true
	}
	seen[v] = true
	switch x := v.(type) {
	case *ssa.Const:
		return true
	case *ssa.Parameter:
		// the receiver (the manager) is core state; any other parameter is the message
		return !(len(x.Parent().Params) > 0 && x.Parent().Signature.Recv() != nil && x == x.Parent().Params[0])
	case *ssa.BinOp:
		return messageOnly(x.X, seen) && messageOnly(x.Y, seen)
	case *ssa.UnOp:
		if al, ok := x.X.(*ssa.Alloc); ok && x.Op == token.MUL {
			if al.Referrers() != nil {
				for _, r := range *al.Referrers() {
					if st, ok := r.(*ssa.Store); ok && st.Addr == ssa.Value(al) && !messageOnly(st.Val, seen) {
						return false
					}
				}
			}
			return true
		}
		return messageOnly(x.X, seen)
	case *ssa.Alloc:
		if x.Referrers() != nil {
			for _, r := range *x.Referrers() {
				if st, ok := r.(*ssa.Store); ok && st.Addr == ssa.Value(x) && !messageOnly(st.Val, seen) {
					return false
				}
			}
		}
		return true
	case *ssa.FieldAddr:
		return messageOnly(x.X, seen)
	case *ssa.Field:
		return messageOnly(x.X, seen)
	case *ssa.IndexAddr:
		return messageOnly(x.X, seen) && messageOnly(x.Index, seen)
	case *ssa.Extract:
		return messageOnly(x.Tuple, seen)
	case *ssa.Convert:
		return messageOnly(x.X, seen)
	case *ssa.ChangeType:
		return messageOnly(x.X, seen)
	case *ssa.MakeInterface:
		return messageOnly(x.X, seen)
	case *ssa.TypeAssert:
		return messageOnly(x.X, seen)
	case *ssa.Phi:
		for _, e := range x.Edges {
			if !messageOnly(e, seen) {
				return false
			}
		}
		// the branch conditions selecting the edges
		return true
	case *ssa.Call:
		// membership of a message value in a literal list of constants
		if el, _, isSet := an.ConstSetContains(x); isSet {
			return messageOnly(el, seen)
		}
		n := an.MethodName(&x.Call)
		pure := strings.HasPrefix(n, "Get") || n == "String" || n == "len"
		if cal := x.Call.StaticCallee(); cal != nil && cal.Pkg != nil {
			pp := cal.Pkg.Pkg.Path()
			if !(strings.Contains(pp, "mesos-go") || strings.HasSuffix(pp, "core/task/taskop") || strings.HasSuffix(pp, "core/task")) {
				pure = false
			}
			if strings.HasSuffix(pp, "core/task") && cal.Signature.Recv() != nil && !strings.HasSuffix(cal.Signature.Recv().Type().String(), "TaskmanMessage") {
				pure = false
			}
		}
		if !pure {
			return false
		}
		for _, a := range an.Args(&x.Call) {
			if !messageOnly(a, seen) {
				return false
			}
		}
		return true
	}
	return false
}

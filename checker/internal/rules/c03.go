package rules

import (
	"fmt"
	"go/ast"
	"go/constant"
	"go/token"
	"go/types"
	"sort"
	"strings"

	"verifchk/internal/an"

	"golang.org/x/tools/go/ssa"
)

func init() {
	register("C03", "Decides structural necessary conditions of 'failure of a critical task drives a live environment to ERROR': "+
		"(R03a) Mesos terminal statuses FAILED/LOST/KILLED of an owned task set its state to ERROR; (R03b) executor and agent loss are wired from the scheduler to handlers that set every affected task to ERROR/INACTIVE (siblings agree); "+
		"(R03c) leaf roles forward state upward iff critical and status always, and the aggregate skips exactly the non-critical leaves; (R03d) the environment's workflow watcher turns ERROR into GO_ERROR and forces ERROR when refused, and both creation paths subscribe it; "+
		"(R03e) a task's internal-error announcement sets its role to ERROR whatever the environment state and stops a running run; (R03f) the end of the run is recorded on the GO_ERROR path; (R03g) the scheduler forwards every Mesos status update to the task manager (no update is dropped before the dispatcher sees it). "+
		"Does not decide 'within bounded time', lossless notification or races with transitions.", runC03)
}

func runC03(c *an.Ctx) {
	r03a(c)
	r03b(c)
	r03c(c)
	r03d(c)
	r03e(c)
	r03f(c)
	r03g(c)
	r03h(c)
	// shared with C11: the ERROR of a critical task is not lost in the fold (children read and folded inside the
	// critical section that stores the result)
	c.As(map[string]string{"R11b": "R03j", "R11d": "R03i"}, func() { r11d(c, r11b(c)) })
	r03k(c)
	// round 7
	awaitedToTheEnd(c, "R03l", "stateChangedCh")
	r03m(c)
	c.As(map[string]string{"R15i": "R03n"}, func() { r15i(c) })
	c.As(map[string]string{"R10e": "R03o"}, func() { r10e(c) })
	c.As(map[string]string{"R11h": "R03p"}, func() { r11h(c) })
	c.As(map[string]string{"R11i": "R03q"}, func() { r11i(c) })
	// round 8
	c.As(map[string]string{"R10b": "R03r", "R10c": "R03s"}, func() { r10bc(c) })
	// round 9
	r03t(c)
	c.As(map[string]string{"R17t": "R03u"}, func() { r17t(c) })
	c.As(map[string]string{"R01d": "R03v"}, func() { r01d(c) })
	c.As(map[string]string{"R11e": "R03w"}, func() { r11e(c) })
}

// constsLeadingTo: TaskState/other enum constants k such that an `x == k` test's true edge leads into (dominates) target's block.
func constsLeadingTo(fn *ssa.Function, target ssa.Instruction, typeSuffix string) map[int64]bool {
	out := map[int64]bool{}
	for _, b := range fn.Blocks {
		ifi, ok := b.Instrs[len(b.Instrs)-1].(*ssa.If)
		if !ok {
			continue
		}
		bo, ok := ifi.Cond.(*ssa.BinOp)
		if !ok || bo.Op != token.EQL {
			continue
		}
		var cst *ssa.Const
		if k, ok := bo.Y.(*ssa.Const); ok {
			cst = k
		} else if k, ok := bo.X.(*ssa.Const); ok {
			cst = k
		}
		if cst == nil || cst.Value == nil || !strings.HasSuffix(cst.Type().String(), typeSuffix) {
			continue
		}
		t := b.Succs[0]
		if t == target.Block() || t.Dominates(target.Block()) {
			if v, ok := an.Int64Of(cst.Value); ok {
				out[v] = true
			}
		}
	}
	return out
}

func r03a(c *an.Ctx) {
	c.Rule("R03a", "status dispatcher: TASK_FAILED/LOST/KILLED of an owned task => updateTaskState(id, \"ERROR\")", 1)
	fn := c.MustFn("core/task", "Manager.handleMessage")
	if fn == nil {
		return
	}
	var upd ssa.CallInstruction
	for _, ci := range an.CallsNamed(fn, "(*core/task.Manager).updateTaskState") {
		if s, ok := an.ConstString(ci.Common().Args[2]); ok && s == "ERROR" {
			upd = ci
		}
	}
	if upd == nil {
		c.Lost("updateTaskState(_, \"ERROR\") in Manager.handleMessage")
		return
	}
	c.Subject()
	var stateV ssa.Value
	an.Instrs(fn, func(in ssa.Instruction) {
		if call, ok := in.(*ssa.Call); ok && an.MethodName(&call.Call) == "GetState" && strings.HasSuffix(call.Type().String(), "lib.TaskState") && stateV == nil {
			stateV = call
		}
	})
	var missing []string
	for _, n := range []string{"TASK_FAILED", "TASK_LOST", "TASK_KILLED"} {
		v := lookupConstInt(c, "github.com/mesos/mesos-go/api/v1/lib", n)
		if v == nil || stateV == nil || !an.ReachableAssuming(fn, stateV, constant.MakeInt64(*v), upd) {
			missing = append(missing, n)
		}
	}
	if v := lookupConstInt(c, "github.com/mesos/mesos-go/api/v1/lib", "TASK_RUNNING"); v != nil && stateV != nil && an.ReachableAssuming(fn, stateV, constant.MakeInt64(*v), upd) {
		missing = append(missing, "(also reached for TASK_RUNNING)")
	}
	sort.Strings(missing)
	key := "(*core/task.Manager).handleMessage|terminal-status->ERROR"
	c.Ob(key+"|states", upd.Pos(), len(missing) == 0, "a Mesos status FAILED/LOST/KILLED of a task must set the task's state to ERROR (states not covered: %v)", missing)
	owned := false
	for _, a := range an.Atoms(upd.Block()) {
		if call, ok := a.X.(*ssa.Call); ok && a.Y == nil && a.Val && an.MethodName(&call.Call) == "IsLocked" {
			owned = true
		}
	}
	c.Ob(key+"|owned-only", upd.Pos(), owned, "only tasks owned by an environment (IsLocked) are set to ERROR on a terminal status")
}

func r03b(c *an.Ctx) {
	c.Rule("R03b", "executor/agent loss: scheduler emits the event on both branches; handlers set every matching task to ERROR and INACTIVE; the environment manager dispatches both", 4)
	obl := map[string][]bool{}
	for _, h := range []struct{ fn, field, evField string }{
		{"Manager.HandleExecutorFailed", "executorId", "ExecutorId"},
		{"Manager.HandleAgentFailed", "agentId", "AgentId"},
	} {
		fn := c.MustFn("core/task", h.fn)
		if fn == nil {
			continue
		}
		c.Subject()
		// selection by id match
		sel := false
		for _, a := range fn.AnonFuncs {
			for _, r := range an.Returns(a) {
				if bo, ok := an.RetVal(r, 0).(*ssa.BinOp); ok && bo.Op == token.EQL {
					if isFieldNamed(bo.X, h.field) || isFieldNamed(bo.Y, h.field) {
						sel = true
					}
				}
			}
		}
		// in the per-task goroutine: updateTaskState(.., "ERROR") and UpdateStatus(INACTIVE)
		errSet, inactive := false, false
		inact := lookupConstInt(c, "github.com/AliceO2Group/Control/core/task", "INACTIVE")
		for _, g := range an.GoClosures(fn) {
			if !an.InLoop(g.Go.Block()) {
				continue
			}
			c.Mark(g.Fn)
			for _, ci := range an.CallsNamed(g.Fn, "(*core/task.Manager).updateTaskState") {
				if s, ok := an.ConstString(ci.Common().Args[2]); ok && s == "ERROR" && !an.PathFromEntryAvoiding(g.Fn, an.IsExit, []ssa.Instruction{ci}) {
					errSet = true
				}
			}
			an.Instrs(g.Fn, func(in ssa.Instruction) {
				if ci, ok := in.(ssa.CallInstruction); ok && an.MethodName(ci.Common()) == "UpdateStatus" {
					for _, a := range ci.Common().Args {
						if k, ok := an.ConstInt(a); ok && inact != nil && k == *inact {
							inactive = true
						}
					}
				}
			})
		}
		obl[h.fn] = []bool{sel, errSet, inactive}
		c.Ob("(*core/task."+strings.Replace(h.fn, ".", ").", 1)+"|tasks->ERROR+INACTIVE", fn.Pos(), sel && errSet && inactive,
			"every task of the lost %s must be selected by id (%v), set to state ERROR on every path (%v) and its role to status INACTIVE (%v)", h.evField, sel, errSet, inactive)
	}
	if a, b := obl["Manager.HandleExecutorFailed"], obl["Manager.HandleAgentFailed"]; a != nil && b != nil {
		same := a[0] == b[0] && a[1] == b[1] && a[2] == b[2]
		c.Ob("HandleExecutorFailed~HandleAgentFailed|siblings-agree", token.NoPos, same, "the two sibling handlers must discharge the same obligations")
	}
	// scheduler failure handler
	if fn := c.MustFn("core/task", "schedulerState.failure"); fn != nil {
		c.Subject()
		ex, ag := false, false
		an.Instrs(fn, func(in ssa.Instruction) {
			s, ok := in.(*ssa.Send)
			if !ok || !isFieldNamed(s.Chan, "internalEventCh") {
				return
			}
			for _, l := range an.BackSlice(s.X, an.SliceOpts{LeafCall: func(n string, _ *ssa.Call) bool {
				return strings.HasSuffix(n, "event.NewExecutorFailedEvent") || strings.HasSuffix(n, "event.NewAgentFailedEvent")
			}}) {
				if l.Kind == "call" {
					if strings.HasSuffix(l.Path, "NewExecutorFailedEvent") {
						ex = true
					} else {
						ag = true
					}
				}
			}
		})
		c.Ob("(*core/task.schedulerState).failure|emits-both", fn.Pos(), ex && ag, "a Mesos FAILURE event must be forwarded both for a lost executor (%v) and for a lost agent (%v)", ex, ag)
	}
	// environment manager dispatch
	if fn := c.MustFn("core/environment", "NewEnvManager"); fn != nil {
		c.Subject()
		ex, ag := false, false
		for _, f := range an.WithAnon(fn) {
			if len(an.CallsNamed(f, "(*core/task.Manager).HandleExecutorFailed")) > 0 {
				ex = true
			}
			if len(an.CallsNamed(f, "(*core/task.Manager).HandleAgentFailed")) > 0 {
				ag = true
			}
		}
		c.Ob("core/environment.NewEnvManager[event loop]|dispatches-both", fn.Pos(), ex && ag, "the environment manager's event loop must hand executor-failed (%v) and agent-failed (%v) events to the task manager", ex, ag)
	}
}

func r03c(c *an.Ctx) {
	c.Rule("R03c", "leaf roles: parent.updateState iff Critical, parent.updateStatus always; aggregators forward always; aggregate skips exactly non-critical leaves", 7)
	type leaf struct{ typ, role string }
	res := map[string][2]bool{}
	for _, l := range []leaf{{"taskRole", "task"}, {"callRole", "call"}} {
		st := c.MustFn("core/workflow", l.typ+".updateState")
		su := c.MustFn("core/workflow", l.typ+".updateStatus")
		if st == nil || su == nil {
			continue
		}
		c.Subject()
		// updateState: the parent.updateState invoke is guarded exactly by the Critical field == true
		gated := false
		n := 0
		an.Instrs(st, func(in ssa.Instruction) {
			ci, ok := in.(ssa.CallInstruction)
			if !ok || !ci.Common().IsInvoke() || an.MethodName(ci.Common()) != "updateState" {
				return
			}
			n++
			atoms := an.Atoms(in.Block())
			crit := 0
			for _, a := range atoms {
				if isFieldNamed(a.X, "Critical") && ((a.Y == nil && a.Val) || (a.Op == token.EQL && a.Y != nil)) {
					crit++
				}
			}
			if crit == 1 && len(atoms) == 1 {
				gated = true
			}
		})
		// and the argument forwarded is the incoming state
		c.Ob("(*core/workflow."+l.typ+").updateState|forward-iff-critical", st.Pos(), gated && n == 1,
			"a %s role must forward a state change to its parent if and only if it is critical (forwarding sites: %d, gated exactly by Critical: %v)", l.role, n, gated)
		c.Subject()
		always := false
		an.Instrs(su, func(in ssa.Instruction) {
			ci, ok := in.(ssa.CallInstruction)
			if !ok || !ci.Common().IsInvoke() || an.MethodName(ci.Common()) != "updateStatus" {
				return
			}
			if !an.PathFromEntryAvoiding(su, an.IsExit, []ssa.Instruction{in}) {
				always = true
			}
		})
		c.Ob("(*core/workflow."+l.typ+").updateStatus|forward-always", su.Pos(), always, "a %s role must forward every status change to its parent, critical or not", l.role)
		res[l.typ] = [2]bool{gated && n == 1, always}
	}
	// aggregators: every update is forwarded to the parent whenever there is one (the fan-out at the root is a
	// non-blocking send that may be dropped; later updates re-offer the state, so forwarding must not depend on
	// whether the aggregator's own value changed)
	for _, m := range []string{"updateState", "updateStatus"} {
		fn := c.MustFn("core/workflow", "aggregatorRole."+m)
		if fn == nil {
			continue
		}
		c.Subject()
		n, ok := 0, false
		var extra []string
		an.Instrs(fn, func(in ssa.Instruction) {
			ci, isCI := in.(ssa.CallInstruction)
			if !isCI || !ci.Common().IsInvoke() || an.MethodName(ci.Common()) != m {
				return
			}
			n++
			ok = true
			for _, a := range an.Atoms(in.Block()) {
				// allowed guards: receiver != nil, parent != nil
				if a.Op == token.NEQ && a.Y != nil && an.IsNilConst(a.Y) {
					if _, isP := a.X.(*ssa.Parameter); isP {
						continue
					}
					if isFieldNamed(a.X, "parent") {
						continue
					}
				}
				ok = false
				extra = append(extra, c.PosStr(atomPos(a)))
			}
		})
		c.Ob("(*core/workflow.aggregatorRole)."+m+"|forward-always", fn.Pos(), ok && n == 1,
			"an aggregator must forward every %s to its parent whenever it has one, independently of whether its own aggregate changed (forwarding sites: %d, extra conditions at %v)", strings.TrimPrefix(m, "update"), n, extra)
	}
	if a, ok1 := res["taskRole"]; ok1 {
		if b, ok2 := res["callRole"]; ok2 {
			c.Ob("taskRole~callRole|siblings-agree", token.NoPos, a == b, "task and call roles must gate their upward notifications identically")
		}
	}
	// aggregate: in SafeState.merge / aggregateState the loop over roles skips non-critical task/call roles
	if fn := c.Fn("core/workflow", "aggregateState"); fn != nil {
		c.Subject()
		skips := 0
		for _, ci := range an.CallsNamed(fn, "(core/task/sm.State).X") {
			if okF, types, _ := foldSkipsExactlyNonCritical(ci); okF {
				skips = len(types)
			}
		}
		c.Ob("core/workflow.aggregateState|skips-noncritical", fn.Pos(), skips >= 1, "the state aggregate must skip non-critical leaves, matching the leaf gate (%d criticality tests in the fold)", skips)
	} else {
		c.Assume("R03c: no function workflow.aggregateState; the aggregate-side criticality gate is checked under C11 (R11c)")
	}
}

func r03d(c *an.Ctx) {
	c.Rule("R03d", "workflow watcher: ERROR => GO_ERROR, forced ERROR when refused; both creation paths subscribe after successful configuration", 3)
	fn := c.MustFn("core/environment", "Environment.subscribeToWfState")
	if fn != nil {
		c.Subject()
		ok, forced := false, false
		for _, f := range an.WithAnon(fn) {
			for _, ci := range an.CallsNamed(f, "(*core/environment.Environment).TryTransition") {
				call := ci.(*ssa.Call)
				isGoErr := false
				for _, l := range an.BackSlice(call.Call.Args[1], an.SliceOpts{LeafCall: func(n string, _ *ssa.Call) bool { return n == "core/environment.NewGoErrorTransition" }}) {
					if l.Kind == "call" {
						isGoErr = true
					}
				}
				if !isGoErr {
					continue
				}
				ok = true
				c.Mark(f)
				// on its error edge: setState reached unless Current()=="ERROR"
				for _, t := range an.ErrTests(call) {
					for _, st := range an.CallsNamed(f, "(*core/environment.Environment).setState") {
						if t.NonNilSucc == st.Block() || t.NonNilSucc.Dominates(st.Block()) {
							// the only allowed way around it is the "already in ERROR" test
							okSkip := true
							for _, g := range an.ControlConds(st.Block()) {
								if g.LoopHeader || g.LoopExit || !an.Dominates(call, g.If) {
									continue
								}
								for _, a := range an.CondAtoms(g.V, g.Val) {
									allowed := false
									if a.Y != nil && (an.IsNilConst(a.Y) || an.IsNilConst(a.X)) && (an.DerivesFrom(a.X, call) || an.DerivesFrom(a.Y, call)) {
										allowed = true // the error of the GO_ERROR attempt
									}
									if cl, isCall := a.X.(*ssa.Call); isCall && a.Y != nil {
										if str, isS := an.ConstString(a.Y); isS && str == "ERROR" && (an.MethodName(&cl.Call) == "Current" || an.MethodName(&cl.Call) == "CurrentState") {
											allowed = true // already in ERROR
										}
									}
									if !allowed {
										okSkip = false
									}
								}
							}
							if okSkip {
								forced = true
							}
						}
					}
				}
			}
		}
		// the GO_ERROR attempt is made in a closure created under `state == ERROR`
		c.Ob("(*core/environment.Environment).subscribeToWfState|ERROR->GO_ERROR", fn.Pos(), ok && forced, "when the workflow state becomes ERROR the watcher must attempt GO_ERROR (%v) and force ERROR when that is refused - whenever it is refused and the environment is not in ERROR already, with no further condition (%v)", ok, forced)
	}
	for _, name := range []string{"Manager.CreateEnvironment", "Manager.CreateAutoEnvironment"} {
		f := c.MustFn("core/environment", name)
		if f == nil {
			continue
		}
		c.Subject()
		subs := an.CallsNamed(f, "(*core/environment.Environment).subscribeToWfState")
		ok := len(subs) == 1
		if ok {
			// after a successful CONFIGURE: guarded by err == nil of a TryTransition result
			g := false
			for _, a := range an.Atoms(subs[0].Block()) {
				if a.Op == token.EQL && a.Y != nil && an.IsNilConst(a.Y) && a.X.Type().String() == "error" {
					g = true
				}
			}
			// or no failure return path skips it: every success return is dominated by it
			if !g {
				// CreateAutoEnvironment: failure paths return before; check it is unconditional after them
				g = len(an.Atoms(subs[0].Block())) >= 0 && dominatedByConfigure(f, subs[0])
			}
			ok = g
		}
		c.Ob("(*core/environment."+strings.Replace(name, ".", ").", 1)+"|subscribes-watcher", f.Pos(), ok, "a successfully configured environment must subscribe its workflow-state watcher, otherwise task failures never reach the environment")
	}
}

func dominatedByConfigure(f *ssa.Function, at ssa.Instruction) bool {
	for _, ci := range an.CallsNamed(f, "(*core/environment.Environment).TryTransition") {
		call := ci.(*ssa.Call)
		for _, l := range an.BackSlice(call.Call.Args[1], an.SliceOpts{LeafCall: func(n string, _ *ssa.Call) bool { return n == "core/environment.NewConfigureTransition" }}) {
			if l.Kind == "call" && an.CanReach(call, at) {
				return true
			}
		}
	}
	return false
}

func r03e(c *an.Ctx) {
	c.Rule("R03e", "TASK_INTERNAL_ERROR: the task's role is set to ERROR whatever the environment state; a RUNNING environment attempts STOP", 1)
	fn := c.MustFn("core/environment", "Manager.handleDeviceEvent")
	if fn == nil {
		return
	}
	c.Subject()
	errConst := lookupConstInt(c, "github.com/AliceO2Group/Control/core/task/sm", "ERROR")
	tie := lookupConstInt(c, "github.com/AliceO2Group/Control/executor/protos", "DeviceEventType_TASK_INTERNAL_ERROR")
	key := "(*core/environment.Manager).handleDeviceEvent|TASK_INTERNAL_ERROR"
	var upd ssa.Instruction
	var updFn *ssa.Function
	var mc *ssa.MakeClosure
	for _, f := range an.WithAnon(fn) {
		an.Instrs(f, func(in ssa.Instruction) {
			ci, ok := in.(ssa.CallInstruction)
			if !ok || an.MethodName(ci.Common()) != "UpdateState" {
				return
			}
			for _, a := range ci.Common().Args {
				if k, ok := an.ConstInt(a); ok && errConst != nil && k == *errConst {
					upd, updFn = in, f
				}
			}
		})
	}
	if upd == nil {
		c.Ob(key+"|role->ERROR", fn.Pos(), false, "no UpdateState(sm.ERROR) on the task's role in the device-event handler")
		return
	}
	// the environment whose run is stopped is the task's own (its current owner), not the one named by the event
	if tie != nil {
		for _, ci := range an.Calls(fn, func(nm string, _ ssa.CallInstruction) bool {
			return strings.HasSuffix(nm, "core/environment.Manager).environment")
		}) {
			if !constsLeadingTo(fn, ci, "DeviceEventType")[*tie] {
				continue
			}
			own := false
			for _, l := range an.BackSlice(ci.Common().Args[len(ci.Common().Args)-1], an.SliceOpts{LeafCall: func(nm string, cl *ssa.Call) bool {
				return an.MethodName(&cl.Call) == "GetEnvironmentId" && strings.Contains(nm, "core/task.Task")
			}}) {
				if l.Kind == "call" {
					own = true
				}
			}
			c.Ob(key+"|environment-of-the-task", ci.Pos(), own, "the environment handling the task's internal error is not looked up by the task's own GetEnvironmentId(): for a task that changed owner the event's label names the previous environment, the lookup fails (or hits the wrong environment) and the failure never reaches the owner")
		}
	}
	// where is the closure created (if in a goroutine)?
	var site ssa.Instruction = upd
	if updFn != fn {
		an.Instrs(fn, func(in ssa.Instruction) {
			if m, ok := in.(*ssa.MakeClosure); ok && m.Fn == updFn {
				mc = m
				site = m
			}
		})
	}
	// the site must be inside the TASK_INTERNAL_ERROR case and NOT guarded by a CurrentState()== comparison
	inCase := false
	if tie != nil {
		inCase = constsLeadingTo(fn, site, "DeviceEventType")[*tie]
	}
	stateGuard := ""
	dependsOnState := func(v ssa.Value) bool {
		if v == nil {
			return false
		}
		isCS := func(n string, cl *ssa.Call) bool { return an.MethodName(&cl.Call) == "CurrentState" }
		for _, l := range an.BackSlice(v, an.SliceOpts{LeafCall: isCS}) {
			if l.Kind == "call" {
				return true
			}
			// captured variable: look at what the spawner stored into it
			if l.Kind == "free" && mc != nil {
				if fv, ok := l.Val.(*ssa.FreeVar); ok {
					if b := an.Binding(mc, fv); b != nil {
						for _, ll := range an.BackSlice(b, an.SliceOpts{LeafCall: isCS}) {
							if ll.Kind == "call" {
								return true
							}
						}
					}
				}
			}
		}
		return false
	}
	check := func(atoms []an.Atom) {
		for _, a := range atoms {
			if dependsOnState(a.X) || dependsOnState(a.Y) {
				stateGuard = "<a value derived from CurrentState()>"
				if a.Y != nil {
					if s, ok := an.ConstString(a.Y); ok {
						stateGuard = s
					} else if s, ok := an.ConstString(a.X); ok {
						stateGuard = s
					}
				}
			}
		}
	}
	check(an.Atoms(site.Block()))
	if updFn != fn {
		check(an.Atoms(upd.Block()))
	}
	_ = mc
	c.Ob(key+"|role->ERROR", upd.Pos(), inCase && stateGuard == "",
		"when a task announces an internal error its role must be set to ERROR in every environment state (in TASK_INTERNAL_ERROR case: %v; guarded by CurrentState()==%q): in a CONFIGURED environment the announcement is otherwise ignored and the environment keeps reporting a healthy state with a dead critical task", inCase, stateGuard)
	// STOP attempt when RUNNING
	stop := false
	for _, f := range an.WithAnon(fn) {
		for _, ci := range an.CallsNamed(f, "(*core/environment.Environment).TryTransition") {
			for _, l := range an.BackSlice(ci.Common().Args[1], an.SliceOpts{LeafCall: func(n string, _ *ssa.Call) bool { return n == "core/environment.NewStopActivityTransition" }}) {
				if l.Kind == "call" {
					stop = true
				}
			}
		}
	}
	c.Ob(key+"|stops-run", fn.Pos(), stop, "a running run is stopped when a task announces an internal error")
}

func r03f(c *an.Ctx) {
	c.Rule("R03f", "GO_ERROR path records the end of the run (run_end_time_ms when empty)", 1)
	cb := envCallbacks(c)
	if cb == nil {
		return
	}
	c.Subject()
	f := cb["before_event"]
	ok := false
	for _, ci := range an.Calls(f, func(n string, ci ssa.CallInstruction) bool { return an.MethodName(ci.Common()) == "SetRuntimeVar" }) {
		a := an.Args(ci.Common())
		if k, isK := an.ConstString(a[1]); !isK || k != "run_end_time_ms" {
			continue
		}
		if eventIs(ci.Block(), "GO_ERROR") {
			ok = true
		}
	}
	c.Ob("core/environment.newEnvironment[before_event]|GO_ERROR-records-end-of-run", f.Pos(), ok, "before_GO_ERROR must record run_end_time_ms (shared with C10)")
}

// r03g: every status update the scheduler receives is handed to the task manager's dispatcher.
func r03g(c *an.Ctx) {
	c.Rule("R03g", "the scheduler's UPDATE handler forwards every Mesos task status to the task manager: no return of the handler bypasses the send of NewTaskStatusMessage(status)", 1)
	fn := c.MustFn("core/task", "schedulerState.statusUpdate")
	if fn == nil {
		return
	}
	n := 0
	for _, f := range an.WithAnon(fn) {
		if f == fn {
			continue
		}
		var sends []ssa.Instruction
		an.Instrs(f, func(in ssa.Instruction) {
			s, ok := in.(*ssa.Send)
			if !ok || !isFieldNamed(s.Chan, "MessageChannel") {
				return
			}
			for _, l := range an.BackSlice(s.X, an.SliceOpts{LeafCall: func(n string, _ *ssa.Call) bool { return strings.HasSuffix(n, "core/task.NewTaskStatusMessage") }}) {
				if l.Kind == "call" {
					sends = append(sends, s)
					return
				}
			}
		})
		if len(sends) == 0 {
			continue
		}
		n++
		c.Subject()
		c.Mark(f)
		bad := an.FirstExitAvoiding(f.Blocks[0].Instrs[0], sends)
		pos := f.Pos()
		if bad != nil {
			pos = bad.Pos()
		}
		c.Ob("(*core/task.schedulerState).statusUpdate[handler]|forwards-every-update", pos, bad == nil,
			"the handler can return without queueing the status for the task manager: a terminal status (e.g. TASK_LOST learnt through reconciliation after a reconnect) of an owned critical task is then never turned into ERROR and the environment keeps reporting a live state")
	}
	if n == 0 {
		c.Lost("send of NewTaskStatusMessage on taskman.MessageChannel in the closure returned by schedulerState.statusUpdate")
	}
}

// R03h: the environment learns of the workflow's state only through the ParentAdapter's fan-out, and that hand-over
// is lossy (a subscriber that is not receiving at that instant misses the value). Every update of the root must
// therefore be offered to the subscribers again: an update filtered out as "no change" may be the only one that
// would have been received.
func r03h(c *an.Ctx) {
	c.Rule("R03h", "ParentAdapter.updateState/updateStatus: every update is offered to the subscribers (no return before the fan-out)", 2)
	for _, name := range []string{"ParentAdapter.updateState", "ParentAdapter.updateStatus"} {
		fn := c.MustFn("core/workflow", name)
		if fn == nil {
			continue
		}
		var ranges []ssa.Instruction
		an.Instrs(fn, func(in ssa.Instruction) {
			if r, ok := in.(*ssa.Range); ok {
				if f := an.FieldOf(r.X); f != nil && strings.HasSuffix(f.Name(), "Subscriptions") {
					ranges = append(ranges, r)
				}
			}
		})
		if len(ranges) == 0 {
			c.Lost("the loop over the subscriptions in " + name)
			continue
		}
		c.Subject()
		skip := an.PathFromEntryAvoiding(fn, an.IsExit, ranges)
		c.Ob("(*core/workflow."+strings.Replace(name, ".", ").", 1)+"|always-fans-out", fn.Pos(), !skip,
			"the function can return without offering the value to the subscribers: the hand-over to the environment's watcher is a non-blocking send that is dropped when the watcher is busy, so an update suppressed as a repetition can be the one that would have got through - the environment then never leaves RUNNING")
	}
}

// R03k: the environment manager dispatches the scheduler's events with a type switch. A case is dead when an earlier
// case names an interface its type implements: the executor-failed / agent-failed events would then be swallowed by
// the generic device-event arm and the tasks of a lost executor or agent never go to ERROR.
func r03k(c *an.Ctx) {
	c.Rule("R03k", "environment manager event dispatch: no case of the type switch is shadowed by an earlier interface case", 1)
	fd, info := c.FuncDecl("core/environment", "NewEnvManager")
	if fd == nil {
		c.Lost("core/environment.NewEnvManager")
		return
	}
	n := 0
	ast.Inspect(fd, func(nd ast.Node) bool {
		ts, ok := nd.(*ast.TypeSwitchStmt)
		if !ok {
			return true
		}
		var seenTypes []types.Type
		var seenPos []token.Pos
		handlesFailure := false
		ast.Inspect(ts, func(m ast.Node) bool {
			if se, isSel := m.(*ast.SelectorExpr); isSel && (se.Sel.Name == "HandleExecutorFailed" || se.Sel.Name == "HandleAgentFailed") {
				handlesFailure = true
			}
			return true
		})
		if !handlesFailure {
			return true
		}
		n++
		c.Subject()
		var bad []string
		for _, cl := range ts.Body.List {
			cc := cl.(*ast.CaseClause)
			for _, e := range cc.List {
				t := info.TypeOf(e)
				if t == nil {
					continue
				}
				for i, prev := range seenTypes {
					iface, isI := prev.Underlying().(*types.Interface)
					if !isI {
						continue
					}
					if _, selfI := t.Underlying().(*types.Interface); selfI {
						continue
					}
					if types.Implements(t, iface) {
						bad = append(bad, fmt.Sprintf("%s (at %s) is caught by the earlier case %s (at %s)", types.TypeString(t, nil), c.PosStr(e.Pos()), types.TypeString(prev, nil), c.PosStr(seenPos[i])))
					}
				}
				seenTypes = append(seenTypes, t)
				seenPos = append(seenPos, e.Pos())
			}
		}
		sort.Strings(bad)
		c.Ob(fmt.Sprintf("core/environment.NewEnvManager|event-dispatch#%d|no-shadowed-case", n), ts.Pos(), len(bad) == 0,
			"a case of the event dispatch can never be taken: %v - its handler (marking the tasks of a lost executor / agent as failed) is dead code", bad)
		return true
	})
	if n == 0 {
		c.Lost("the type switch dispatching executor/agent failure events in NewEnvManager")
	}
}

package rules

import (
	"fmt"
	"go/ast"
	"go/constant"
	"go/token"
	"go/types"
	"sort"
	"strings"

	"verifchk/internal/an"

	"golang.org/x/tools/go/ssa"
)

func init() {
	register("C11", "Decides structural necessary conditions of 'a role's state and status are the fold of its subtree': "+
		"(R11a, exhaustive) the status product table is total, commutative, associative and idempotent, UNDEFINED absorbs, UNDEPLOYABLE dominates the rest, any mix of INACTIVE/PARTIAL/ACTIVE is PARTIAL; "+
		"(R11b, exhaustive by constant propagation over all pairs/triples of declared states) the state product is commutative, associative, idempotent, ERROR absorbs, INVARIANT is neutral, differing healthy states give MIXED; "+
		"(R11c) the state aggregate skips exactly the non-critical task/call roles and the status aggregate skips nothing; (R11d) every merge shortcut is an absorbing row of the respective product, leaf roles assign directly, everything else recomputes from the children, all under the role's lock. "+
		"Order independence of the fold follows from commutativity+associativity. Does not decide lost updates under concurrency.", runC11)
}

func runC11(c *an.Ctx) {
	r11a(c)
	x := r11b(c)
	r11c(c)
	r11d(c, x)
	r11e(c)
	// shared with C03: the fold reaches the root only if every aggregator forwards every update to its parent
	c.As(map[string]string{"R03c": "R11f"}, func() { r03c(c) })
	// round 7
	r11h(c)
	r11i(c)
	c.As(map[string]string{"R15i": "R11g"}, func() { r15i(c) })
	c.As(map[string]string{"R15e": "R11j"}, func() { r15e(c) })
	// round 8
	r11k(c)
	c.As(map[string]string{"R03h": "R11l"}, func() { r03h(c) })
}

// enumConsts returns name->value for the constants of the named type in package rel.
func enumConsts(c *an.Ctx, rel, typ string) map[string]int64 {
	out := map[string]int64{}
	pk := c.TPkg(rel)
	if pk == nil {
		return out
	}
	for _, n := range pk.Types.Scope().Names() {
		k, ok := pk.Types.Scope().Lookup(n).(*types.Const)
		if !ok {
			continue
		}
		named, isN := k.Type().(*types.Named)
		isT := isN && named.Obj().Name() == typ
		if !isT {
			// untyped iota constants (task.UNDEFINED... are untyped ints): accept by declaration group for Status
			if typ == "Status" && (n == "UNDEFINED" || n == "INACTIVE" || n == "PARTIAL" || n == "ACTIVE" || n == "UNDEPLOYABLE") {
				isT = true
			}
		}
		if isT {
			if v, ok := constant.Int64Val(k.Val()); ok {
				out[n] = v
			}
		}
	}
	return out
}

func r11a(c *an.Ctx) {
	c.Rule("R11a", "STATUS_PRODUCT algebra (exhaustive over the table)", 1)
	pk := c.TPkg("core/task")
	if pk == nil {
		c.Lost("package core/task")
		return
	}
	consts := enumConsts(c, "core/task", "Status")
	names := map[int64]string{}
	var vals []int64
	for n, v := range consts {
		names[v] = n
		vals = append(vals, v)
	}
	sort.Slice(vals, func(i, j int) bool { return vals[i] < vals[j] })
	tab := map[[2]int64]int64{}
	var pos token.Pos
	for _, f := range pk.Syntax {
		ast.Inspect(f, func(n ast.Node) bool {
			vs, ok := n.(*ast.ValueSpec)
			if !ok || len(vs.Names) != 1 || vs.Names[0].Name != "STATUS_PRODUCT" || len(vs.Values) != 1 {
				return true
			}
			pos = vs.Pos()
			outer, ok := vs.Values[0].(*ast.CompositeLit)
			if !ok {
				return false
			}
			for _, e := range outer.Elts {
				kv, ok := e.(*ast.KeyValueExpr)
				if !ok {
					continue
				}
				kc := pk.TypesInfo.Types[kv.Key].Value
				inner, ok := kv.Value.(*ast.CompositeLit)
				if kc == nil || !ok {
					continue
				}
				a, _ := constant.Int64Val(kc)
				for _, e2 := range inner.Elts {
					kv2, ok := e2.(*ast.KeyValueExpr)
					if !ok {
						continue
					}
					k2, v2 := pk.TypesInfo.Types[kv2.Key].Value, pk.TypesInfo.Types[kv2.Value].Value
					if k2 == nil || v2 == nil {
						continue
					}
					b, _ := constant.Int64Val(k2)
					r, _ := constant.Int64Val(v2)
					tab[[2]int64{a, b}] = r
				}
			}
			return false
		})
	}
	c.Subject()
	if len(vals) != 5 || len(tab) == 0 {
		c.Ob("core/task.STATUS_PRODUCT|table", pos, false, "cannot read the status product table (%d constants, %d entries)", len(vals), len(tab))
		return
	}
	x := func(a, b int64) (int64, bool) { r, ok := tab[[2]int64{a, b}]; return r, ok }
	var bad []string
	for _, a := range vals {
		for _, b := range vals {
			ab, ok := x(a, b)
			if !ok {
				bad = append(bad, fmt.Sprintf("missing entry %s x %s (a missing entry yields UNDEFINED silently)", names[a], names[b]))
				continue
			}
			if ba, ok := x(b, a); ok && ab != ba {
				bad = append(bad, fmt.Sprintf("not commutative: %s x %s = %s but %s x %s = %s", names[a], names[b], names[ab], names[b], names[a], names[ba]))
			}
			for _, cc := range vals {
				if bc, ok := x(b, cc); ok {
					l, ok1 := x(ab, cc)
					r, ok2 := x(a, bc)
					if ok1 && ok2 && l != r {
						bad = append(bad, fmt.Sprintf("not associative on (%s,%s,%s)", names[a], names[b], names[cc]))
					}
				}
			}
		}
		if aa, ok := x(a, a); ok && aa != a {
			bad = append(bad, fmt.Sprintf("not idempotent: %s x %s = %s", names[a], names[a], names[aa]))
		}
	}
	U, I, P, A, D := consts["UNDEFINED"], consts["INACTIVE"], consts["PARTIAL"], consts["ACTIVE"], consts["UNDEPLOYABLE"]
	for _, a := range vals {
		if r, _ := x(U, a); r != U {
			bad = append(bad, "UNDEFINED does not absorb "+names[a])
		}
		if a != U {
			if r, _ := x(D, a); r != D {
				bad = append(bad, "UNDEPLOYABLE does not dominate "+names[a])
			}
		}
	}
	for _, pr := range [][2]int64{{I, A}, {I, P}, {A, P}} {
		if r, _ := x(pr[0], pr[1]); r != P {
			bad = append(bad, fmt.Sprintf("%s x %s must be PARTIAL", names[pr[0]], names[pr[1]]))
		}
	}
	if len(bad) > 6 {
		bad = append(bad[:6], fmt.Sprintf("... %d more", len(bad)-6))
	}
	c.Ob("core/task.STATUS_PRODUCT|algebra", pos, len(bad) == 0, "status product must be total, commutative, associative, idempotent with UNDEFINED absorbing, UNDEPLOYABLE next, mixes PARTIAL (25 pairs, 125 triples checked) %v", bad)
	// Status.X is the table lookup
	if fn := c.MustFn("core/task", "Status.X"); fn != nil {
		c.Subject()
		// every return yields STATUS_PRODUCT[s][other] (plain or comma-ok lookups), or UNDEFINED - the value a plain lookup
		// would give - on a path where a comma-ok lookup missed
		asLookup := func(v ssa.Value) *ssa.Lookup {
			v = an.Strip(v)
			if ex, isEx := v.(*ssa.Extract); isEx && ex.Index == 0 {
				v = ex.Tuple
			}
			lk, _ := v.(*ssa.Lookup)
			return lk
		}
		cell := func(v ssa.Value) bool {
			lk := asLookup(v)
			if lk == nil || lk.Index != ssa.Value(fn.Params[1]) {
				return false
			}
			lk2 := asLookup(lk.X)
			if lk2 == nil || lk2.Index != ssa.Value(fn.Params[0]) {
				return false
			}
			g, isG := lk2.X.(*ssa.UnOp)
			if !isG {
				return false
			}
			gl, isGl := g.X.(*ssa.Global)
			return isGl && gl.Name() == "STATUS_PRODUCT"
		}
		ok := true
		nCell := 0
		for _, r := range an.Returns(fn) {
			v := an.RetVal(r, 0)
			switch {
			case cell(v):
				nCell++
			default:
				k, isK := an.ConstInt(v)
				missed := an.AnyAtom(r.Block(), func(a an.Atom) bool {
					ex, isEx := a.X.(*ssa.Extract)
					if !isEx || a.Y != nil || a.Val || ex.Index != 1 {
						return false
					}
					lk, isLk := ex.Tuple.(*ssa.Lookup)
					return isLk && lk.CommaOk
				})
				if !(isK && k == U && missed) {
					ok = false
				}
			}
		}
		ok = ok && nCell >= 1
		c.Ob("(core/task.Status).X|is-table-lookup", fn.Pos(), ok, "Status.X(s, other) must be STATUS_PRODUCT[s][other]")
	}
	c.Assume("R11a is exhaustive: all 25 pairs and 125 triples of the five declared status constants")
}

// r11b evaluates State.X on all pairs by constant propagation; returns the evaluated table.
func r11b(c *an.Ctx) map[[2]int64]int64 {
	c.Rule("R11b", "State.X algebra (exhaustive, by constant propagation on all pairs/triples of declared states)", 1)
	fn := c.MustFn("core/task/sm", "State.X")
	if fn == nil {
		return nil
	}
	consts := enumConsts(c, "core/task/sm", "State")
	names := map[int64]string{}
	var vals []int64
	for n, v := range consts {
		names[v] = n
		vals = append(vals, v)
	}
	sort.Slice(vals, func(i, j int) bool { return vals[i] < vals[j] })
	c.Subject()
	tab := map[[2]int64]int64{}
	for _, a := range vals {
		for _, b := range vals {
			res, ok := an.EvalConst(fn, []constant.Value{constant.MakeInt64(a), constant.MakeInt64(b)})
			if !ok || len(res) != 1 {
				c.Ob("(core/task/sm.State).X|foldable", fn.Pos(), false, "State.X is not a pure decision list over its two arguments any more (cannot be folded for %s x %s): undecided", names[a], names[b])
				return nil
			}
			r, _ := constant.Int64Val(res[0])
			tab[[2]int64{a, b}] = r
		}
	}
	var bad []string
	E, INV, MIX := consts["ERROR"], consts["INVARIANT"], consts["MIXED"]
	for _, a := range vals {
		for _, b := range vals {
			ab := tab[[2]int64{a, b}]
			if ab != tab[[2]int64{b, a}] {
				bad = append(bad, fmt.Sprintf("not symmetric on (%s,%s)", names[a], names[b]))
			}
			for _, cc := range vals {
				if tab[[2]int64{ab, cc}] != tab[[2]int64{a, tab[[2]int64{b, cc}]}] {
					bad = append(bad, fmt.Sprintf("not associative on (%s,%s,%s)", names[a], names[b], names[cc]))
				}
			}
			switch {
			case a == E || b == E:
				if ab != E {
					bad = append(bad, fmt.Sprintf("ERROR lost: %s x %s = %s", names[a], names[b], names[ab]))
				}
			case a == b:
				if ab != a {
					bad = append(bad, "not idempotent on "+names[a])
				}
			case a == INV:
				if ab != b {
					bad = append(bad, "INVARIANT not neutral for "+names[b])
				}
			case b == INV:
				if ab != a {
					bad = append(bad, "INVARIANT not neutral for "+names[a])
				}
			default:
				if ab != MIX {
					bad = append(bad, fmt.Sprintf("differing states %s x %s must give MIXED, got %s", names[a], names[b], names[ab]))
				}
			}
			if ab == E && a != E && b != E {
				bad = append(bad, fmt.Sprintf("ERROR invented: %s x %s", names[a], names[b]))
			}
		}
	}
	if len(bad) > 6 {
		bad = append(bad[:6], fmt.Sprintf("... %d more", len(bad)-6))
	}
	c.Ob("(core/task/sm.State).X|algebra", fn.Pos(), len(bad) == 0, "state product must be symmetric, associative, idempotent; ERROR absorbing and never invented; INVARIANT neutral; differing states MIXED (%d pairs, %d triples folded) %v", len(vals)*len(vals), len(vals)*len(vals)*len(vals), bad)
	c.Assume("R11b is exhaustive over the declared sm.State constants by conditional constant propagation of State.X (no execution)")
	return tab
}

func r11c(c *an.Ctx) {
	c.Rule("R11c", "aggregateState skips exactly non-critical task/call roles; aggregateStatus folds every role", 2)
	if fn := c.MustFn("core/workflow", "aggregateState"); fn != nil {
		c.Subject()
		var xcall ssa.Instruction
		for _, ci := range an.CallsNamed(fn, "(core/task/sm.State).X") {
			xcall = ci
		}
		seenT := map[string]bool{}
		ok := xcall != nil
		var why []string
		if ok {
			ok, seenT, why = foldSkipsExactlyNonCritical(xcall)
		}
		ok = ok && seenT["*workflow.taskRole"] && seenT["*workflow.callRole"] && len(seenT) == 2
		c.Ob("core/workflow.aggregateState|skips-exactly-noncritical-leaves", fn.Pos(), ok, "the state fold must skip a task/call role iff it is not critical (criticality tests on: %v) %v", keysOf(seenT), why)
		// initial value INVARIANT (neutral)
		c.Subject()
		inv := enumConsts(c, "core/task/sm", "State")["INVARIANT"]
		initOK := false
		an.Instrs(fn, func(in ssa.Instruction) {
			if p, isP := in.(*ssa.Phi); isP && strings.HasSuffix(p.Type().String(), "sm.State") {
				for _, e := range p.Edges {
					if k, isK := an.ConstInt(e); isK && k == inv {
						initOK = true
					}
				}
			}
		})
		c.Ob("core/workflow.aggregateState|starts-neutral", fn.Pos(), initOK, "the fold must start from INVARIANT, the neutral element (no critical descendant => no opinion)")
	}
	if fn := c.MustFn("core/workflow", "aggregateStatus"); fn != nil {
		c.Subject()
		crit := false
		an.Instrs(fn, func(in ssa.Instruction) {
			if fa, ok := in.(*ssa.FieldAddr); ok && isFieldNamed(fa, "Critical") {
				crit = true
			}
			if ci, ok := in.(ssa.CallInstruction); ok && an.MethodName(ci.Common()) == "IsCritical" {
				crit = true
			}
		})
		xs := an.CallsNamed(fn, "(core/task.Status).X")
		folded := len(xs) == 1 && an.InLoop(xs[0].Block())
		c.Ob("core/workflow.aggregateStatus|folds-all", fn.Pos(), !crit && folded, "the status fold must combine all children regardless of criticality (criticality consulted: %v, fold in loop: %v)", crit, folded)
	}
}

func keysOf(m map[string]bool) []string {
	var out []string
	for k := range m {
		out = append(out, k)
	}
	sort.Strings(out)
	return out
}

func r11d(c *an.Ctx, stateTab map[[2]int64]int64) {
	c.Rule("R11d", "merge shortcuts are absorbing rows; leaves assign directly; the rest recomputes from children; all under the lock", 2)
	stC := enumConsts(c, "core/task/sm", "State")
	suC := enumConsts(c, "core/task", "Status")
	type spec struct {
		typ, field, agg string
		consts          map[string]int64
		x               func(a, b int64) (int64, bool)
	}
	// status table via R11a reader is not returned; recompute minimal absorbing check for UNDEFINED from the constants through Status semantics:
	specs := []spec{
		{"SafeState", "state", "core/workflow.aggregateState", stC, func(a, b int64) (int64, bool) {
			if stateTab == nil {
				return 0, false
			}
			r, ok := stateTab[[2]int64{a, b}]
			return r, ok
		}},
		{"SafeStatus", "status", "core/workflow.aggregateStatus", suC, nil},
	}
	for _, sp := range specs {
		fn := c.MustFn("core/workflow", sp.typ+".merge")
		if fn == nil {
			continue
		}
		c.Subject()
		key := "(*core/workflow." + sp.typ + ").merge"
		var bad []string
		nShort, nLeaf, nAgg := 0, 0, 0
		locked := true
		an.Instrs(fn, func(in ssa.Instruction) {
			st, ok := in.(*ssa.Store)
			if !ok || !isFieldNamed(st.Addr, sp.field) {
				return
			}
			if !an.HoldsExclusive(st, sp.typ+".mu") {
				locked = false
			}
			// a value assigned through a result variable (an extracted helper's result) is a phi: each incoming edge is
			// one assignment, guarded by what is known on that edge
			var handle func(val ssa.Value, atoms []an.Atom, blk *ssa.BasicBlock, depth int)
			handle = func(val ssa.Value, atoms []an.Atom, blk *ssa.BasicBlock, depth int) {
				if phi, isPhi := val.(*ssa.Phi); isPhi && depth < 4 {
					for i, e := range phi.Edges {
						p := phi.Block().Preds[i]
						handle(e, an.EdgeAtoms(p, phi.Block()), p, depth+1)
					}
					return
				}
				// checkShortcut: the constant k is stored on a path whose guards are atoms
				checkShortcut := func(k int64, atoms []an.Atom) {
					nShort++
					// guards: s == K, optionally field != E
					sEq := false
					var except []int64
					for _, a := range atoms {
						if a.Y == nil {
							continue
						}
						kk, isK := an.ConstInt(a.Y)
						if !isK {
							continue
						}
						if _, isP := a.X.(*ssa.Parameter); isP && a.Op == token.EQL && kk == k {
							sEq = true
						}
						if isFieldNamed(a.X, sp.field) && a.Op == token.NEQ {
							except = append(except, kk)
						}
					}
					if !sEq {
						bad = append(bad, fmt.Sprintf("constant %d assigned without the incoming value being that constant", k))
						return
					}
					if sp.x != nil {
						for _, y := range sp.consts {
							skip := false
							for _, e := range except {
								if y == e {
									skip = true
								}
							}
							if skip {
								continue
							}
							if r, ok := sp.x(k, y); !ok || r != k {
								bad = append(bad, fmt.Sprintf("shortcut to %d is not absorbing against %d", k, y))
							}
						}
					} else {
						// status: only UNDEFINED may be short-cut (absorbing by R11a)
						if k != sp.consts["UNDEFINED"] {
							bad = append(bad, fmt.Sprintf("status shortcut to %d: only UNDEFINED absorbs everything", k))
						}
					}
				}
				// the incoming value itself stored where every way of getting there has established which constant it is
				// (`if s == ERROR || (s == MIXED && t.state != ERROR) { t.state = s }`): one shortcut per alternative
				if p, isP := val.(*ssa.Parameter); isP {
					alts := an.AtomAlts(blk)
					all := len(alts) > 0
					var ks []int64
					for _, alt := range alts {
						found := false
						for _, a := range alt {
							if a.Y == nil || a.Op != token.EQL || a.X != ssa.Value(p) {
								continue
							}
							if kk, isK := an.ConstInt(a.Y); isK {
								ks = append(ks, kk)
								found = true
								break
							}
						}
						all = all && found
					}
					if all {
						for i, alt := range alts {
							checkShortcut(ks[i], alt)
						}
						return
					}
				}
				switch v := val.(type) {
				case *ssa.Const:
					k, _ := an.Int64Of(v.Value)
					checkShortcut(k, atoms)
				case *ssa.Parameter:
					nLeaf++
					// direct assignment only for leaf roles: guarded by a successful type assertion to taskRole/callRole
					leaf := false
					for _, a := range atoms {
						if ex, isEx := a.X.(*ssa.Extract); isEx && a.Y == nil && a.Val {
							if ta, isTA := ex.Tuple.(*ssa.TypeAssert); isTA {
								n := an.TypeShort(ta.AssertedType)
								if n == "*workflow.taskRole" || n == "*workflow.callRole" {
									leaf = true
								}
							}
						}
					}
					// `isTaskRole || isCallRole` merges two edges: accept when both asserts exist in the function and the block is reached only from their true edges
					if !leaf {
						leaf = reachedOnlyFromLeafAsserts(blk)
					}
					if !leaf {
						// the test may have travelled through a boolean (an extracted `isLeafRole(r)`): every alternative way of
						// reaching the block must contain a successful leaf assertion
						alts := an.AtomAlts(blk)
						all := len(alts) > 0
						for _, alt := range alts {
							has := false
							for _, a := range alt {
								if ex, isEx := a.X.(*ssa.Extract); isEx && a.Y == nil && a.Val {
									if ta, isTA := ex.Tuple.(*ssa.TypeAssert); isTA {
										n := an.TypeShort(ta.AssertedType)
										if n == "*workflow.taskRole" || n == "*workflow.callRole" {
											has = true
										}
									}
								}
							}
							all = all && has
						}
						leaf = all
					}
					if !leaf {
						bad = append(bad, "the incoming value is assigned directly for a role that is not a task/call leaf")
					}
				case *ssa.Call:
					if an.CalleeName(&v.Call) == sp.agg {
						nAgg++
						if call, isCall := v.Call.Args[0].(*ssa.Call); !isCall || an.MethodName(&call.Call) != "GetRoles" {
							bad = append(bad, "the recomputation does not fold GetRoles() of the role")
						} else if !sameExclusiveAcquisition(call, st, sp.typ+".mu") || !sameExclusiveAcquisition(v, st, sp.typ+".mu") {
							bad = append(bad, "the children are read and folded outside the critical section that stores the result: of two concurrent merges the one that read the children first can store last, leaving an aggregate that is not the fold of the children")
						}
					} else {
						bad = append(bad, "state assigned from an unexpected call")
					}
				default:
					bad = append(bad, "unrecognised assignment shape")
				}
			}
			handle(st.Val, an.Atoms(st.Block()), st.Block(), 0)
		})
		c.Ob(key+"|shortcuts-sound", fn.Pos(), len(bad) == 0 && nLeaf == 1 && nAgg == 1 && locked,
			"%d shortcut(s), %d leaf assignment, %d recomputation from children, under lock: %v %v", nShort, nLeaf, nAgg, locked, bad)
	}
}

// reachedOnlyFromLeafAsserts: every predecessor edge into b is the true edge of a comma-ok type assertion to a leaf role.
func reachedOnlyFromLeafAsserts(b *ssa.BasicBlock) bool {
	if len(b.Preds) == 0 {
		return false
	}
	for _, p := range b.Preds {
		v, trueIdx, ok := an.BoolCondEdge(p)
		if !ok || p.Succs[trueIdx] != b {
			return false
		}
		ex, ok := v.(*ssa.Extract)
		if !ok {
			return false
		}
		ta, ok := ex.Tuple.(*ssa.TypeAssert)
		if !ok {
			return false
		}
		n := an.TypeShort(ta.AssertedType)
		if n != "*workflow.taskRole" && n != "*workflow.callRole" {
			return false
		}
	}
	return true
}

// sameExclusiveAcquisition: a and b execute under one and the same exclusive acquisition of the mutex whose path ends in suffix.
func sameExclusiveAcquisition(a, b ssa.Instruction, suffix string) bool {
	for _, ha := range an.HeldAt(a) {
		if ha.Mode != "x" || !strings.HasSuffix(ha.Path, suffix) {
			continue
		}
		for _, hb := range an.HeldAt(b) {
			if hb.Mode == "x" && hb.At == ha.At {
				return true
			}
		}
	}
	return false
}

// r11e: an aggregator tells its parent what it holds at the moment of telling: the forwarded value is read from the
// merged state/status right at the call, with no event emission (which can take arbitrarily long and lets a sibling's
// update overtake) between the read and the call.
func r11e(c *an.Ctx) {
	c.Rule("R11e", "aggregatorRole.updateState/updateStatus forward a value read after the last event emission (a fresh get()), not a copy taken before", 2)
	for _, m := range []string{"updateState", "updateStatus"} {
		fn := c.MustFn("core/workflow", "aggregatorRole."+m)
		if fn == nil {
			continue
		}
		c.Subject()
		ok, n := true, 0
		an.Instrs(fn, func(in ssa.Instruction) {
			pc, isCall := in.(*ssa.Call)
			if !isCall || !pc.Call.IsInvoke() || pc.Call.Method.Name() != m {
				return
			}
			n++
			if len(pc.Call.Args) != 1 {
				ok = false
				return
			}
			get, isGet := an.Strip(pc.Call.Args[0]).(*ssa.Call)
			if !isGet || an.MethodName(&get.Call) != "get" {
				ok = false
				return
			}
			// nothing that emits an event lies between the read and the forward
			an.Instrs(fn, func(e ssa.Instruction) {
				ec, isEC := e.(*ssa.Call)
				if !isEC || ec == get || ec == pc {
					return
				}
				name := an.MethodName(&ec.Call)
				if name == "SendEvent" || name == "WriteEvent" || name == "WriteEventWithTimestamp" {
					if an.CanReach(get, ec) && an.CanReach(ec, pc) && an.Dominates(get, ec) {
						ok = false
					}
				}
			})
		})
		c.Ob("(*core/workflow.aggregatorRole)."+m+"|forwards-fresh-read", fn.Pos(), ok && n >= 1,
			"the value handed to the parent must be read from the merged %s at the moment of the call (%d forwarding call(s)): a copy taken before the events are written can be overtaken by a sibling's update, and the parent - which takes MIXED/ERROR/UNDEFINED at face value - keeps the stale value", strings.TrimPrefix(m, "update"), n)
	}
}

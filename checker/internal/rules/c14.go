package rules

import (
	"fmt"
	"go/constant"
	"go/token"
	"go/types"
	"sort"
	"strings"

	"verifchk/internal/an"

	"golang.org/x/tools/go/ssa"
)

func init() {
	register("C14", "Decides structural necessary conditions of 'variables resolve by documented precedence at every role': "+
		"(R14a) every place that consolidates the three kinds of variables orders them (locals >) user vars > vars > defaults, FlattenStack lets later arguments win and is called in that order, and the workflow stack wins over each task-template map; "+
		"(R14b) inside one kind the nearer definition overrides the farther one (merge of own copy over the parent's flattening with override; Get looks at the own map first); "+
		"(R14c) per template stage, which kinds include the role's own level matches the documented stage table (0,1: none; 2: defaults; 3: defaults+vars; 4,5: all); "+
		"(R14d) every role kind wraps each of its three maps around the parent's corresponding map, and the environment adapter exposes the global defaults/vars/user vars in those slots; (R14e) after template processing every role kind writes each of its locals (iterator variables) into its own vars unconditionally, so that they are the nearest definition for its task and descendants; (R14f) Set on a level always stores into that level's own map (a value equal to the inherited one is still an own definition). Does not decide values for every tree nor template evaluation.", runC14)
}

func runC14(c *an.Ctx) {
	r14a(c)
	r14b(c)
	r14c(c)
	r14d(c)
	r14e(c)
	r14f(c)
	// R14g: roles expanded from one iterator template have their own stores of every variable kind: a store shared
	// between siblings lets a value set on one role (a call's return variable, a task result) appear, at user-variable
	// rank, on a role that is neither it nor its descendant.
	c.Rule("R14g", "roleBase.copy: Defaults, Vars and UserVars of the copy are copies, not the template's own stores", 1)
	copiedMembers(c, "roleBase.copy", []string{"Defaults", "Vars", "UserVars"})
	r14h(c)
	r14i(c)
	r14j(c)
	// round 7
	r14k(c)
	r14l(c)
	passThrough(c, "R14n", "cacheproxy.GetDefaults/GetVars are plain pass-throughs to the wrapped service", []string{"GetDefaults", "GetVars"}, "a map kept by the proxy is handed to several environments, which write into it: values set by one environment show up in the others, at the rank of the configuration store")
	r14o(c)
	c.As(map[string]string{"R04j": "R14m"}, func() { r04j(c) })
	// round 8
	r14p(c)
	r14q(c)
}

// condsDependingOn: the control conditions of b (outside loop control) that are computed from v (or, when v is a
// load of a local variable, from any load of that variable).
func condsDependingOn(c *an.Ctx, b *ssa.BasicBlock, v ssa.Value) []string {
	same := map[ssa.Value]bool{v: true}
	if u, ok := v.(*ssa.UnOp); ok && u.Op == token.MUL {
		if al, isAl := u.X.(*ssa.Alloc); isAl && al.Referrers() != nil {
			for _, r := range *al.Referrers() {
				if ld, isLd := r.(*ssa.UnOp); isLd && ld.Op == token.MUL {
					same[ld] = true
				}
			}
		}
	}
	var mentions func(x ssa.Value, depth int, seen map[ssa.Value]bool) bool
	mentions = func(x ssa.Value, depth int, seen map[ssa.Value]bool) bool {
		if x == nil || depth > 8 || seen[x] {
			return false
		}
		seen[x] = true
		if same[x] {
			return true
		}
		in, ok := x.(ssa.Instruction)
		if !ok {
			return false
		}
		for _, op := range in.Operands(nil) {
			if *op != nil && mentions(*op, depth+1, seen) {
				return true
			}
		}
		return false
	}
	var out []string
	for _, g := range an.ControlConds(b) {
		if g.LoopHeader || g.LoopExit {
			continue
		}
		if mentions(g.V, 0, map[ssa.Value]bool{}) {
			p := c.PosStr(condPos(g.V))
			dup := false
			for _, e := range out {
				dup = dup || e == p
			}
			if !dup {
				out = append(out, p)
			}
		}
	}
	sort.Strings(out)
	return out
}

// R14h: "an empty value is a definition": the output of a call is stored in its return variable whatever it is.
func r14h(c *an.Ctx) {
	c.Rule("R14h", "Call.Call: the return variable is set whatever the output's value (an empty output is a definition)", 1)
	fn := c.MustFn("core/workflow/callable", "Call.Call")
	if fn == nil {
		return
	}
	n := 0
	for _, ci := range an.Calls(fn, func(nm string, ci ssa.CallInstruction) bool { return an.MethodName(ci.Common()) == "SetRuntimeVar" }) {
		args := ci.Common().Args
		if len(args) < 2 {
			continue
		}
		val := args[len(args)-1]
		n++
		c.Subject()
		deps := condsDependingOn(c, ci.Block(), val)
		c.Ob(fmt.Sprintf("(*core/workflow/callable.Call).Call|set-return-var#%d|whatever-the-value", n), ci.Pos(), len(deps) == 0,
			"whether the call's output is stored in its return variable depends on the output itself (conditions at %v): an empty output no longer overrides the value an ancestor defines (or an earlier result) although an empty value is a definition", deps)
	}
	if n == 0 {
		c.Lost("SetRuntimeVar(returnVar, output) in Call.Call")
	}
}

// R14i: an include role publishes its locals (the iteration variable of an enclosing iterator among them) to its vars
// while it still has them: the replacement of its base by the root of the included workflow brings an empty Locals map.
func r14i(c *an.Ctx) {
	c.Rule("R14i", "includeRole.ProcessTemplates: Locals are copied into Vars before the role's base is replaced by the included root", 1)
	fn := c.MustFn("core/workflow", "includeRole.ProcessTemplates")
	if fn == nil {
		return
	}
	var ranges, replaces []ssa.Instruction
	an.Instrs(fn, func(in ssa.Instruction) {
		switch x := in.(type) {
		case *ssa.Range:
			if isFieldNamed(x.X, "Locals") {
				ranges = append(ranges, x)
			}
		case *ssa.Store:
			if fa, ok := x.Addr.(*ssa.FieldAddr); ok && isFieldNamed(fa, "aggregatorRole") {
				if _, isStruct := x.Val.Type().Underlying().(*types.Struct); isStruct {
					replaces = append(replaces, x)
				}
			}
		}
	})
	if len(ranges) == 0 || len(replaces) == 0 {
		c.Lost("the Locals->Vars copy or the replacement of the embedded aggregatorRole in includeRole.ProcessTemplates")
		return
	}
	c.Subject()
	ok := true
	for _, rg := range ranges {
		for _, rp := range replaces {
			if an.CanReach(rp, rg) {
				ok = false
			}
		}
	}
	c.Ob("(*core/workflow.includeRole).ProcessTemplates|locals-published-before-replacement", ranges[0].Pos(), ok,
		"the Locals of the include role are read after its embedded role was replaced by the included workflow's root (whose Locals are empty): the roles of a workflow included under an iterator see an ancestor's iteration variable, or none")
}

// R14j: a task template's own defaults and vars are evaluated per task in a copy: evaluating them in the class's own
// maps gives every later task of the class the first task's resolved values.
func r14j(c *an.Ctx) {
	c.Rule("R14j", "Task.BuildTaskCommand: the class's Defaults/Vars are templated in copies (RawCopy), never in the class's own maps", 2)
	fn := c.MustFn("core/task", "Task.BuildTaskCommand")
	if fn == nil {
		return
	}
	n := 0
	for _, ci := range an.Calls(fn, func(nm string, _ ssa.CallInstruction) bool {
		return strings.HasSuffix(nm, "configuration/template.WrapMapItems")
	}) {
		arg := ci.Common().Args[0]
		fromClass, viaCopy := false, false
		var shared []string
		for _, l := range an.BackSlice(arg, an.SliceOpts{LeafCall: func(nm string, cl *ssa.Call) bool {
			m := an.MethodName(&cl.Call)
			return m == "RawCopy" || m == "Copy"
		}}) {
			if l.Kind == "call" {
				viaCopy = true
				// is the copy taken from the class?
				cc := &l.Val.(*ssa.Call).Call
				var recv ssa.Value
				if cc.IsInvoke() {
					recv = cc.Value
				} else if len(cc.Args) > 0 {
					recv = cc.Args[0]
				}
				for _, l2 := range an.BackSlice(recv, an.SliceOpts{}) {
					if strings.Contains(l2.Path, "Class") {
						fromClass = true
					}
				}
			}
			if (l.Kind == "field" || l.Kind == "via") && strings.Contains(l.Path, "Class.") {
				fromClass = true
				shared = append(shared, l.Path)
			}
		}
		if !fromClass {
			continue
		}
		n++
		c.Subject()
		sort.Strings(shared)
		c.Ob(fmt.Sprintf("(*core/task.Task).BuildTaskCommand|class-map#%d|templated-in-a-copy", n), ci.Pos(), viaCopy && len(shared) == 0,
			"a map of the task class itself (%v) is handed to the in-place template evaluation: the first task's resolved values are written into the shared class and every later task of that class - under whatever role - gets them", shared)
	}
	if n < 2 {
		c.Lost("the two template evaluations of the class's Defaults and Vars in Task.BuildTaskCommand")
	}
}

// kindOf classifies a value by the variable-kind field it was flattened from.
func kindOf(v ssa.Value) string { return kindOfDepth(v, 0) }

func kindOfDepth(v ssa.Value, depth int) string {
	kinds := map[string]bool{}
	// a result of a same-package function (e.g. the per-kind flattenings returned together by a sibling method): look at
	// what that function returns in that position
	if depth < 2 {
		sv := an.Strip(v)
		idx := 0
		var call *ssa.Call
		if ex, ok := sv.(*ssa.Extract); ok {
			call, _ = ex.Tuple.(*ssa.Call)
			idx = ex.Index
		} else if cl, ok := sv.(*ssa.Call); ok {
			call = cl
		}
		if call != nil {
			if cal := call.Call.StaticCallee(); cal != nil && cal.Blocks != nil && cal.Pkg != nil && call.Parent() != nil && call.Parent().Pkg == cal.Pkg &&
				!strings.HasSuffix(an.CalleeName(&call.Call), ").Flattened") && !strings.HasSuffix(an.CalleeName(&call.Call), ").FlattenedParent") {
				sub := map[string]bool{}
				for _, ret := range an.Returns(cal) {
					if rv := an.RetVal(ret, idx); rv != nil && !an.IsNilConst(rv) {
						if c, isC := rv.(*ssa.Const); isC && c.Value == nil {
							continue
						}
						sub[kindOfDepth(rv, depth+1)] = true
					}
				}
				delete(sub, "?")
				if len(sub) == 1 {
					for k := range sub {
						return k
					}
				}
			}
		}
	}
	for _, l := range an.BackSlice(v, an.SliceOpts{}) {
		if l.Kind != "field" && l.Kind != "via" {
			continue
		}
		for _, k := range []string{"UserVars", "Vars", "Defaults", "Locals"} {
			if strings.HasSuffix(l.Path, "."+k) || strings.HasSuffix(l.Path, "."+k+"[]") {
				kinds[k] = true
			}
		}
	}
	if len(kinds) == 1 {
		for k := range kinds {
			return k
		}
	}
	if len(kinds) == 0 {
		return "?"
	}
	return "mixed:" + strings.Join(keysOf(kinds), "+")
}

// wrapChain: for `A.Wrap(B.Wrap(C))` returns [A, B, C] (outermost = winner first), each being the
// map given to MakeMapWithMap.
func wrapChain(v ssa.Value) []ssa.Value {
	var out []ssa.Value
	for {
		v = an.Strip(v)
		call, ok := v.(*ssa.Call)
		if !ok {
			return out
		}
		n := an.CalleeName(&call.Call)
		switch {
		case strings.HasSuffix(n, ").Wrap"):
			args := an.Args(&call.Call)
			out = append(out, wrapChain(args[0])...)
			v = args[1]
			continue
		case strings.Contains(n, "gera.MakeMapWithMap"):
			return append(out, call.Call.Args[0])
		default:
			return out
		}
	}
}

func r14a(c *an.Ctx) {
	c.Rule("R14a", "consolidation order: (Locals >) UserVars > Vars > Defaults; FlattenStack: later wins; workflow stack over task-template maps", 6)
	for _, s := range []struct {
		pkg, fn string
		want    []string
	}{
		{"core/workflow", "roleBase.ConsolidatedVarStack", []string{"UserVars", "Vars", "Defaults"}},
		{"configuration/template", "VarStack.consolidated", []string{"Locals", "UserVars", "Vars", "Defaults"}},
	} {
		fn := c.MustFn(s.pkg, s.fn)
		if fn == nil {
			continue
		}
		c.Subject()
		var got []string
		for _, ci := range an.Calls(fn, func(n string, ci ssa.CallInstruction) bool { return an.MethodName(ci.Common()) == "Flattened" }) {
			recv := an.Args(ci.Common())[0]
			ch := wrapChain(recv)
			if len(ch) >= 3 {
				got = nil
				for _, x := range ch {
					got = append(got, kindOf(x))
				}
			}
		}
		c.Ob(fmt.Sprintf("%s.%s|wrap-order", s.pkg, s.fn), fn.Pos(), strings.Join(got, ">") == strings.Join(s.want, ">"),
			"the consolidated stack must be built as %s (outermost wins); found %s", strings.Join(s.want, " > "), strings.Join(got, " > "))
	}
	// FlattenStack: in its loop the new element is the receiver of Wrap (wins over the accumulated ones)
	if fn := c.MustFn("common/gera", "FlattenStack"); fn != nil {
		c.Subject()
		ok := false
		for _, ci := range an.Calls(fn, func(n string, ci ssa.CallInstruction) bool {
			return an.MethodName(ci.Common()) == "Wrap" && an.InLoop(ci.Block())
		}) {
			args := an.Args(ci.Common())
			// receiver: MakeMapWithMap(flattening of the current element); argument: the accumulator (a phi / cell)
			if call, isCall := an.Strip(args[0]).(*ssa.Call); isCall && strings.Contains(an.CalleeName(&call.Call), "gera.MakeMapWithMap") {
				fromElem := false
				for _, l := range an.BackSlice(call.Call.Args[0], an.SliceOpts{LeafCall: func(n string, cl *ssa.Call) bool { return an.MethodName(&cl.Call) == "Flattened" }}) {
					if l.Kind == "call" {
						fromElem = true
					}
				}
				accum := false
				switch a := an.Strip(args[1]).(type) {
				case *ssa.Phi:
					accum = true
				case *ssa.UnOp:
					_ = a
					accum = true
				}
				ok = fromElem && accum
			}
		}
		c.Ob("common/gera.FlattenStack|later-argument-wins", fn.Pos(), ok, "FlattenStack must wrap each later map around the accumulated earlier ones (later argument overrides)")
	}
	// call sites of FlattenStack pass Defaults, Vars, UserVars in that order
	for _, s := range c.SitesOf(func(n string) bool { return strings.Contains(n, "common/gera.FlattenStack") }) {
		c.Subject()
		var got []string
		for _, e := range an.VariadicElems(s.Call.Common().Args[0]) {
			if call, ok := an.Strip(e).(*ssa.Call); ok {
				got = append(got, strings.TrimPrefix(an.MethodName(&call.Call), "Get"))
			} else {
				got = append(got, kindOf(e))
			}
		}
		// VariadicElems returns stores in referrer order; sort by index is implicit (IndexAddr order) - compare as sequence
		c.Ob("FlattenStack-call|"+c.RelName(an.OutermostParent(s.Fn)), s.Call.Pos(), strings.Join(got, ",") == "Defaults,Vars,UserVars",
			"FlattenStack must be given (defaults, vars, user vars) in this order so that user vars win; got (%s)", strings.Join(got, ", "))
	}
	// task sites: workflow stack wins over class maps
	for _, name := range []string{"Task.BuildTaskCommand", "Task.BuildPropertyMap"} {
		fn := c.MustFn("core/task", name)
		if fn == nil {
			continue
		}
		n := 0
		for _, f := range an.WithAnon(fn) {
			for _, ci := range an.Calls(f, func(nm string, ci ssa.CallInstruction) bool {
				return an.MethodName(ci.Common()) == "WrappedAndFlattened"
			}) {
				n++
				c.Subject()
				args := an.Args(ci.Common())
				isWorkflow := func(v ssa.Value) bool {
					for _, l := range an.BackSlice(v, an.SliceOpts{LeafCall: func(nm string, cl *ssa.Call) bool { return an.MethodName(&cl.Call) == "ConsolidatedVarStack" }}) {
						if l.Kind == "call" {
							return true
						}
					}
					return false
				}
				isClass := func(v ssa.Value) bool {
					for _, l := range an.BackSlice(v, an.SliceOpts{LeafCall: func(nm string, cl *ssa.Call) bool { return an.MethodName(&cl.Call) == "ConsolidatedVarStack" }}) {
						if (l.Kind == "field" || l.Kind == "via") && (strings.HasSuffix(l.Path, "Class.Defaults") || strings.HasSuffix(l.Path, "Class.Vars")) {
							return true
						}
					}
					return false
				}
				recvWf, argClass := isWorkflow(args[0]), isClass(args[1])
				argWf := isWorkflow(args[1])
				c.Ob(fmt.Sprintf("core/task.%s|workflow-over-class#%d", name, n), ci.Pos(), recvWf && argClass && !argWf,
					"the stack coming from the workflow must be the receiver (winner) and the task template's own map the argument (receiver-from-workflow=%v argument-from-class=%v argument-from-workflow=%v)", recvWf, argClass, argWf)
			}
		}
		if n == 0 {
			c.Lost("WrappedAndFlattened in " + name)
		}
	}
}

func r14b(c *an.Ctx) {
	c.Rule("R14b", "own definition overrides the parent's: merge(own over parent flattening, WithOverride); Get: own map first", 3)
	for _, name := range []string{"WrapMap.Flattened", "WrapMap.WrappedAndFlattened"} {
		fn := c.MustFn("common/gera", name)
		if fn == nil {
			continue
		}
		c.Subject()
		ok := false
		var why string
		for _, ci := range an.CallsSuffix(fn, "mergo.Merge") {
			a := ci.Common().Args
			// dst: address of a cell holding the result of X.Flattened() (the parent / wrapped map); src: the own copy (a map made here and filled from theMap)
			dstParent := false
			for _, l := range an.BackSlice(a[0], an.SliceOpts{LeafCall: func(n string, cl *ssa.Call) bool { return an.MethodName(&cl.Call) == "Flattened" }}) {
				if l.Kind == "call" {
					dstParent = true
				}
			}
			srcOwn := false
			for _, l := range an.BackSlice(a[1], an.SliceOpts{LeafCall: func(n string, cl *ssa.Call) bool { return an.MethodName(&cl.Call) == "Flattened" }}) {
				if (l.Kind == "field" || l.Kind == "via") && strings.Contains(l.Path, "theMap") {
					srcOwn = true
				}
				if l.Kind == "call" {
					srcOwn = false
					break
				}
			}
			if !srcOwn {
				// the own copy may be filled with maps.Copy(copy, w.theMap) instead of a loop
				var srcMap ssa.Value = an.Strip(a[1])
				if mi, isMI := srcMap.(*ssa.MakeInterface); isMI {
					srcMap = an.Strip(mi.X)
				}
				for _, cp := range an.Calls(fn, func(n string, _ ssa.CallInstruction) bool { return strings.HasPrefix(n, "maps.Copy") }) {
					args := cp.Common().Args
					if len(args) != 2 || !(an.Strip(args[0]) == srcMap || an.SameVar(args[0], srcMap) || an.DerivesFrom(srcMap, an.Strip(args[0]))) {
						continue
					}
					for _, l := range an.BackSlice(args[1], an.SliceOpts{}) {
						if (l.Kind == "field" || l.Kind == "via") && strings.Contains(l.Path, "theMap") {
							srcOwn = true
						}
					}
				}
			}
			override := false
			for _, e := range an.VariadicElems(a[2]) {
				if f, isF := an.Strip(e).(*ssa.Function); isF && strings.HasSuffix(f.String(), "mergo.WithOverride") {
					override = true
				}
			}
			// the function returns the destination
			ok = dstParent && srcOwn && override
			why = fmt.Sprintf("dst-is-parent-flattening=%v src-is-own-copy=%v WithOverride=%v", dstParent, srcOwn, override)
		}
		c.Ob("(*common/gera.WrapMap)."+strings.TrimPrefix(name, "WrapMap.")+"|own-over-parent", fn.Pos(), ok, "flattening must merge the own entries over the parent's flattening with override (%s)", why)
	}
	if fn := c.MustFn("common/gera", "WrapMap.Get"); fn != nil {
		c.Subject()
		ok := false
		var lk *ssa.Lookup
		an.Instrs(fn, func(in ssa.Instruction) {
			if l, isL := in.(*ssa.Lookup); isL && l.CommaOk && isFieldNamed(l.X, "theMap") {
				lk = l
			}
		})
		if lk != nil {
			var okV ssa.Value
			for _, r := range *lk.Referrers() {
				if ex, isEx := r.(*ssa.Extract); isEx && ex.Index == 1 {
					okV = ex
				}
			}
			for _, ci := range an.Calls(fn, func(n string, ci ssa.CallInstruction) bool { return an.MethodName(ci.Common()) == "Get" }) {
				if okV != nil && an.KnownFalse(ci.Block(), okV) {
					ok = true
				}
			}
		}
		c.Ob("(*common/gera.WrapMap).Get|own-first", fn.Pos(), ok, "Get must consult the parent only when the key is absent from the own map")
	}
}

func r14c(c *an.Ctx) {
	c.Rule("R14c", "stage table: which kinds include the role's own level (S) vs parents only (P)", 6)
	fn := c.MustFn("configuration/template", "VarStack.consolidated")
	if fn == nil {
		return
	}
	want := map[int64]string{0: "PPP", 1: "PPP", 2: "SPP", 3: "SSP", 4: "SSS", 5: "SSS"}
	// the block holding the final consolidation
	var final *ssa.BasicBlock
	for _, ci := range an.Calls(fn, func(n string, ci ssa.CallInstruction) bool { return an.MethodName(ci.Common()) == "Wrap" }) {
		final = ci.Block()
	}
	if final == nil {
		c.Lost("final Wrap chain in VarStack.consolidated")
		return
	}
	stageParam := fn.Params[1]
	for k := int64(0); k <= 5; k++ {
		c.Subject()
		// follow the unique feasible path for stage == k, taking the err == nil side of every error test
		state := map[string]string{}
		b := fn.Blocks[0]
		okWalk := true
		for steps := 0; steps < 500 && b != final; steps++ {
			var next *ssa.BasicBlock
			for _, in := range b.Instrs {
				switch x := in.(type) {
				case *ssa.Call:
					m := an.MethodName(&x.Call)
					if m == "Flattened" || m == "FlattenedParent" {
						kind := kindOf(an.Args(&x.Call)[0])
						if m == "Flattened" {
							state[kind] = "S"
						} else {
							state[kind] = "P"
						}
					}
				case *ssa.If:
					cond := x.Cond
					if bo, isB := cond.(*ssa.BinOp); isB {
						// stage comparison?
						if bo.X == ssa.Value(stageParam) || bo.Y == ssa.Value(stageParam) {
							other := bo.Y
							if bo.Y == ssa.Value(stageParam) {
								other = bo.X
							}
							if cst, isC := other.(*ssa.Const); isC && cst.Value != nil {
								res := constant.Compare(constant.MakeInt64(k), bo.Op, cst.Value)
								if bo.Y == ssa.Value(stageParam) {
									res = constant.Compare(cst.Value, bo.Op, constant.MakeInt64(k))
								}
								if res {
									next = b.Succs[0]
								} else {
									next = b.Succs[1]
								}
								break
							}
						}
						// error test: take the nil side
						if an.IsNilConst(bo.Y) || an.IsNilConst(bo.X) {
							if bo.Op == token.NEQ {
								next = b.Succs[1]
							} else if bo.Op == token.EQL {
								next = b.Succs[0]
							}
							break
						}
					}
					okWalk = false
				case *ssa.Jump:
					next = b.Succs[0]
				case *ssa.Return:
					okWalk = false
				}
			}
			if next == nil || !okWalk {
				okWalk = false
				break
			}
			b = next
		}
		got := state["Defaults"] + state["Vars"] + state["UserVars"]
		c.Ob(fmt.Sprintf("configuration/template.(*VarStack).consolidated|stage%d", k), fn.Pos(), okWalk && got == want[k],
			"stage %d must see (defaults, vars, user vars) = %s where S = own level included, P = parents only; the code gives %s (walk ok: %v)", k, want[k], got, okWalk)
	}
	c.Assume("R14c follows, for each declared stage constant, the unique feasible path of VarStack.consolidated (constant folding of the stage comparisons, success side of every error test); nothing is executed")
}

func r14d(c *an.Ctx) {
	c.Rule("R14d", "every role kind wraps Defaults/Vars/UserVars around the parent's Defaults/Vars/UserVars; the environment adapter exposes GlobalDefaults/GlobalVars/UserVars", 4)
	for _, typ := range []string{"aggregatorRole", "taskRole", "callRole"} {
		fn := c.MustFn("core/workflow", typ+".setParent")
		if fn == nil {
			continue
		}
		c.Subject()
		pairs := map[string]string{}
		for _, ci := range an.Calls(fn, func(n string, ci ssa.CallInstruction) bool { return an.MethodName(ci.Common()) == "Wrap" }) {
			args := an.Args(ci.Common())
			k := kindOf(args[0])
			got := "?"
			if call, ok := an.Strip(args[1]).(*ssa.Call); ok {
				got = strings.TrimPrefix(an.MethodName(&call.Call), "Get")
				// on the parent parameter
				if len(an.Args(&call.Call)) > 0 {
					if _, isP := an.Args(&call.Call)[0].(*ssa.Parameter); !isP {
						got += "(not-the-parent)"
					}
				}
			}
			pairs[k] = got
		}
		ok := pairs["Defaults"] == "Defaults" && pairs["Vars"] == "Vars" && pairs["UserVars"] == "UserVars" && len(pairs) == 3
		c.Ob("(*core/workflow."+typ+").setParent|wraps-corresponding-maps", fn.Pos(), ok, "each of the role's three maps must be wrapped around the parent's map of the same kind; found %v", pairs)
	}
	// environment adapter slots
	if fn := c.MustFn("core/environment", "newEnvironment"); fn != nil {
		c.Subject()
		ok := false
		for _, ci := range an.CallsNamed(fn, "core/workflow.NewParentAdapter") {
			a := ci.Common().Args
			field := func(v ssa.Value) string {
				f := an.ClosureFn(v)
				if f == nil {
					return "?"
				}
				for _, r := range an.Returns(f) {
					for _, l := range an.BackSlice(an.RetVal(r, 0), an.SliceOpts{}) {
						if l.Kind == "field" || l.Kind == "via" {
							return l.Path[strings.LastIndex(l.Path, ".")+1:]
						}
					}
				}
				return "?"
			}
			if len(a) >= 5 {
				got := []string{field(a[2]), field(a[3]), field(a[4])}
				ok = got[0] == "GlobalDefaults" && got[1] == "GlobalVars" && got[2] == "UserVars"
			}
		}
		c.Ob("core/environment.newEnvironment|adapter-slots", fn.Pos(), ok, "the workflow's outermost ancestor must expose the environment's GlobalDefaults, GlobalVars and UserVars as defaults, vars and user vars respectively")
	}
	for _, g := range []struct{ meth, fld string }{{"GetDefaults", "getDefaultsFunc"}, {"GetVars", "getVarsFunc"}, {"GetUserVars", "getUserVarsFunc"}} {
		fn := c.Fn("core/workflow", "ParentAdapter."+g.meth)
		if fn == nil {
			continue
		}
		c.Subject()
		ok := false
		an.Instrs(fn, func(in ssa.Instruction) {
			if call, isCall := in.(*ssa.Call); isCall && isFieldNamed(call.Call.Value, g.fld) {
				ok = true
			}
		})
		c.Ob("(*core/workflow.ParentAdapter)."+g.meth+"|slot", fn.Pos(), ok, "ParentAdapter.%s must answer from %s", g.meth, g.fld)
	}
	// constructor stores args in matching slots
	if fn := c.Fn("core/workflow", "NewParentAdapter"); fn != nil {
		c.Subject()
		ok := true
		want := map[string]int{"getDefaultsFunc": 2, "getVarsFunc": 3, "getUserVarsFunc": 4}
		seen := 0
		an.Instrs(fn, func(in ssa.Instruction) {
			st, isSt := in.(*ssa.Store)
			if !isSt {
				return
			}
			f := an.FieldOf(st.Addr)
			if f == nil {
				return
			}
			if idx, isW := want[f.Name()]; isW {
				seen++
				if st.Val != ssa.Value(fn.Params[idx]) {
					ok = false
				}
			}
		})
		c.Ob("core/workflow.NewParentAdapter|slots", fn.Pos(), ok && seen == 3, "the adapter constructor must store the defaults/vars/user-vars getters in their own slots")
	}
}

// r14e: iterator variables (Locals) are the nearest definition of their key for the generated role: after template
// processing every role kind must copy each of them into the role's own Vars, whatever the ancestors define.
func r14e(c *an.Ctx) {
	c.Rule("R14e", "ProcessTemplates of every role kind writes each Local into the role's own Vars unconditionally (directly or through a same-package helper, depth <= 2)", 4)
	exports := func(f *ssa.Function) (found bool, cond []string) {
		an.Instrs(f, func(in ssa.Instruction) {
			r, ok := in.(*ssa.Range)
			if !ok || r.Referrers() == nil {
				return
			}
			if fld := an.FieldOf(r.X); fld == nil || fld.Name() != "Locals" {
				return
			}
			for _, ref := range *r.Referrers() {
				nx, ok := ref.(*ssa.Next)
				if !ok {
					continue
				}
				body := an.NaturalLoop(nx.Block())
				var k, v ssa.Value
				if nx.Referrers() != nil {
					for _, e := range *nx.Referrers() {
						if ex, ok := e.(*ssa.Extract); ok {
							switch ex.Index {
							case 1:
								k = ex
							case 2:
								v = ex
							}
						}
					}
				}
				for b := range body {
					for _, bi := range b.Instrs {
						call, ok := bi.(*ssa.Call)
						if !ok || an.MethodName(&call.Call) != "Set" {
							continue
						}
						args := an.Args(&call.Call)
						if len(args) != 3 || args[1] != k || args[2] != v {
							continue
						}
						if fld := an.FieldOf(args[0]); fld == nil || fld.Name() != "Vars" {
							continue
						}
						found = true
						for _, g := range an.Guards(b) {
							if g.LoopHeader || g.LoopExit || !body[g.If.Block()] || g.If.Block() == nx.Block() {
								continue
							}
							cond = append(cond, c.PosStr(call.Pos()))
						}
					}
				}
			}
		})
		return
	}
	for _, kind := range []string{"aggregatorRole", "includeRole", "taskRole", "callRole"} {
		fn := c.MustFn("core/workflow", kind+".ProcessTemplates")
		if fn == nil {
			continue
		}
		c.Subject()
		found, cond := exports(fn)
		where := fn
		if !found {
			// same-package helpers, depth <= 2
			seen := map[*ssa.Function]bool{fn: true}
			level := []*ssa.Function{fn}
			for d := 0; d < 2 && !found; d++ {
				var next []*ssa.Function
				for _, f := range level {
					an.Instrs(f, func(in ssa.Instruction) {
						if call, ok := in.(*ssa.Call); ok {
							if cal := call.Call.StaticCallee(); cal != nil && cal.Pkg == fn.Pkg && !seen[cal] && cal.Blocks != nil {
								seen[cal] = true
								next = append(next, cal)
							}
						}
					})
				}
				for _, f := range next {
					if ok, cnd := exports(f); ok && !found {
						found, cond, where = true, cnd, f
						c.Mark(f)
					}
				}
				level = next
			}
		}
		c.Ob("(*core/workflow."+kind+").ProcessTemplates|locals-exported-to-own-vars", where.Pos(), found && len(cond) == 0,
			"after template processing every Local (iterator variable) must be written into the role's own Vars, unconditionally (loop found: %v, conditional writes at %v): a Local that is skipped because an ancestor already defines the key leaves the ancestor's value visible to the role's task and descendants, although the iterator variable is the nearest definition", found, cond)
	}
}

// r14f: "an empty value is a definition", and so is a value equal to the inherited one: Set must store into the own map on
// every path (bar the nil-receiver / nil-map refusals), whatever Get would currently answer.
func r14f(c *an.Ctx) {
	c.Rule("R14f", "WrapMap.Set stores into the level's own map on every path that reports success; nothing but the nil guards may skip the store", 1)
	fn := c.MustFn("common/gera", "WrapMap.Set")
	if fn == nil {
		return
	}
	c.Subject()
	var stores []ssa.Instruction
	an.Instrs(fn, func(in ssa.Instruction) {
		if mu, ok := in.(*ssa.MapUpdate); ok && isFieldNamed(an.Strip(mu.Map), "theMap") {
			stores = append(stores, mu)
		}
	})
	ok := len(stores) > 0
	var why []string
	// every return that can be true passes a store
	for _, ret := range an.Returns(fn) {
		v := an.RetVal(ret, 0)
		if k, isC := v.(*ssa.Const); isC && k.Value != nil && k.Value.String() == "false" {
			// a refusal: only allowed under the nil guards
			guarded := an.GuardedByAll(ret.Block(), func(a an.Atom) bool {
				if a.Y == nil || !an.IsNilConst(a.Y) || a.Op != token.EQL {
					return false
				}
				if _, isP := a.X.(*ssa.Parameter); isP {
					return true
				}
				return isFieldNamed(an.Strip(a.X), "theMap")
			})
			if !guarded {
				ok = false
				why = append(why, "refuses at "+c.PosStr(ret.Pos())+" for a reason other than a nil receiver/map")
			}
			continue
		}
		if an.PathFromEntryAvoiding(fn, func(in ssa.Instruction) bool { return in == ssa.Instruction(ret) }, stores) {
			ok = false
			why = append(why, "returns at "+c.PosStr(ret.Pos())+" without having stored")
		}
	}
	c.Ob("(*common/gera.WrapMap).Set|stores-unconditionally", fn.Pos(), ok, "Set must write the key into this level's own map whenever it does not refuse: skipping the store because the inherited value already equals it leaves the level without an own definition, and a later change of the ancestor shows through %v", why)
}

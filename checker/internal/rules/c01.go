package rules

import (
	"fmt"
	"go/ast"
	"go/constant"
	"go/token"
	"go/types"
	"sort"
	"strings"

	"verifchk/internal/an"

	"golang.org/x/tools/go/ssa"
)

func init() {
	register("C01", "Decides structural necessary conditions of 'environment state changes only along the documented graph, one at a time': "+
		"(R01a) the FSM event table is the documented graph (exhaustive over the table; DONE terminal, GO_ERROR from every live state); (R01b) every FSM event of an environment is fired under the environment's exclusive transition lock; "+
		"(R01c) teardown holds the same lock from its first state read to unlisting; (R01d) state is forced without an event only to ERROR or DONE; (R01e) hooks and transition bodies are reachable only from the FSM callbacks and teardown, never from the request path before the FSM accepted the event; "+
		"(R01f) the API turns a failed transition into GO_ERROR and forces ERROR if that is refused. Does not decide the serial behaviour under concurrent callers.", runC01)
}

func runC01(c *an.Ctx) {
	libFsm1(c)
	r01a(c)
	r01b(c)
	r01c(c)
	r01d(c)
	r01e(c)
	r01f(c)
	// shared with C08: "at most one transition or teardown at any time" includes the hooks a transition started: the
	// transition is answered (and its lock released) only after every awaited hook call has returned
	c.As(map[string]string{"R08f": "R01g"}, func() { r08f(c) })
	// round 7: shared rules (Await answers only what it received; who may cancel; task errors fail the transition; hooks awaited at a reachable moment)
	c.As(map[string]string{"R08j": "R01h"}, func() { r08j(c) })
	whoMayCancel(c, "R01i")
	c.As(map[string]string{"R02a": "R01j", "R02b": "R01k", "R02c": "R01l", "R02g": "R01m"}, func() { r02abcg(c) })
	c.As(map[string]string{"R09j": "R01n"}, func() { r09j(c) })
	// round 8
	r01o(c)
	// round 9
	r01q(c)
}

type fsmEvent struct {
	name string
	src  []string
	dst  string
	pos  token.Pos
}

// envEventTable reads the fsm.Events literal of newEnvironment.
func envEventTable(c *an.Ctx) []fsmEvent {
	fd, info := c.FuncDecl("core/environment", "newEnvironment")
	if fd == nil {
		return nil
	}
	var out []fsmEvent
	ast.Inspect(fd, func(n ast.Node) bool {
		cl, ok := n.(*ast.CompositeLit)
		if !ok {
			return true
		}
		tv, ok := info.Types[cl]
		if !ok || !strings.HasSuffix(tv.Type.String(), "looplab/fsm.Events") {
			return true
		}
		for _, e := range cl.Elts {
			el, ok := e.(*ast.CompositeLit)
			if !ok {
				continue
			}
			ev := fsmEvent{pos: el.Pos()}
			for _, f := range el.Elts {
				kv, ok := f.(*ast.KeyValueExpr)
				if !ok {
					continue
				}
				k := kv.Key.(*ast.Ident).Name
				switch k {
				case "Name", "Dst":
					if v := info.Types[kv.Value].Value; v != nil {
						if k == "Name" {
							ev.name = constant.StringVal(v)
						} else {
							ev.dst = constant.StringVal(v)
						}
					}
				case "Src":
					if sl, ok := kv.Value.(*ast.CompositeLit); ok {
						for _, s := range sl.Elts {
							if v := info.Types[s].Value; v != nil {
								ev.src = append(ev.src, constant.StringVal(v))
							}
						}
					}
				}
			}
			sort.Strings(ev.src)
			out = append(out, ev)
		}
		return false
	})
	return out
}

func r01a(c *an.Ctx) {
	c.Rule("R01a", "FSM event table = documented graph; DONE terminal; GO_ERROR from every live state", 6)
	tab := envEventTable(c)
	if len(tab) == 0 {
		c.Lost("fsm.Events literal in newEnvironment")
		return
	}
	want := map[string]struct {
		src []string
		dst string
	}{
		"DEPLOY":         {[]string{"STANDBY"}, "DEPLOYED"},
		"CONFIGURE":      {[]string{"DEPLOYED"}, "CONFIGURED"},
		"START_ACTIVITY": {[]string{"CONFIGURED"}, "RUNNING"},
		"STOP_ACTIVITY":  {[]string{"RUNNING"}, "CONFIGURED"},
		"RESET":          {[]string{"CONFIGURED"}, "DEPLOYED"},
		"GO_ERROR":       {[]string{"CONFIGURED", "DEPLOYED", "RUNNING", "STANDBY"}, "ERROR"},
	}
	seen := map[string]bool{}
	for _, ev := range tab {
		c.Subject()
		key := "core/environment.newEnvironment|event|" + ev.name
		if seen[ev.name] {
			c.Ob(key, ev.pos, false, "event %s is declared twice in the table", ev.name)
			continue
		}
		seen[ev.name] = true
		for _, s := range ev.src {
			if s == "DONE" {
				c.Ob(key+"|DONE-terminal", ev.pos, false, "event %s leaves DONE, which must be terminal", ev.name)
			}
		}
		if w, ok := want[ev.name]; ok {
			okSrc := strings.Join(ev.src, ",") == strings.Join(w.src, ",")
			c.Ob(key, ev.pos, okSrc && ev.dst == w.dst, "documented: %s: %v -> %s; table: %v -> %s", ev.name, w.src, w.dst, ev.src, ev.dst)
			continue
		}
		// undocumented events may only end the life of the environment (-> DONE) or leave ERROR
		onlyFromError := len(ev.src) > 0
		for _, s := range ev.src {
			if s != "ERROR" {
				onlyFromError = false
			}
		}
		c.Ob(key, ev.pos, ev.dst == "DONE" || onlyFromError, "event %s (%v -> %s) is not in the documented graph: an additional event may only lead to DONE or leave ERROR", ev.name, ev.src, ev.dst)
	}
	for name := range want {
		if !seen[name] {
			c.Ob("core/environment.newEnvironment|event|"+name, token.NoPos, false, "documented event %s is missing from the table", name)
		}
	}
	c.Assume("R01a is exhaustive over the finite event table (every row is compared with the documented graph)")
}

func envSmField(c *an.Ctx) *types.Var { return c.Field("core/environment", "Environment", "Sm") }

func r01b(c *an.Ctx) {
	c.Rule("R01b", "every (*fsm.FSM).Event on Environment.Sm is called with Environment.transitionMutex held exclusively and released on every exit", 1)
	sm := envSmField(c)
	if sm == nil {
		c.Lost("field Environment.Sm")
		return
	}
	for _, s := range c.SitesNamed("(*github.com/looplab/fsm.FSM).Event") {
		if an.FieldOf(s.Call.Common().Args[0]) != sm {
			continue
		}
		c.Subject()
		c.Mark(s.Fn)
		name := c.RelName(an.OutermostParent(s.Fn))
		held := an.HoldsExclusive(s.Call, "Environment.transitionMutex")
		// release: a deferred Unlock on the same mutex, or every path from the call to a return passes an Unlock
		released := false
		var unlocks []ssa.Instruction
		an.Instrs(s.Fn, func(in ssa.Instruction) {
			if ci, ok := in.(ssa.CallInstruction); ok && isXUnlock(an.CalleeName(ci.Common())) && strings.HasSuffix(an.LockPath(ci.Common().Args[0]), "Environment.transitionMutex") {
				if _, isDefer := in.(*ssa.Defer); isDefer {
					if an.Dominates(in, s.Call) {
						released = true
					}
				} else {
					unlocks = append(unlocks, in)
				}
			}
		})
		if !released && len(unlocks) > 0 && an.MustPassBeforeExit(s.Call, unlocks) {
			released = true
		}
		c.Ob("Sm.Event|"+name, s.Call.Pos(), held && released, "the FSM event is fired without holding the environment's transition lock exclusively (held=%v) or the lock is not released on every exit (released=%v): two requests could run their transitions concurrently", held, released)
	}
}

func r01c(c *an.Ctx) {
	c.Rule("R01c", "TeardownEnvironment holds the transition lock from its first state read to the unlisting", 1)
	fn := c.MustFn("core/environment", "Manager.TeardownEnvironment")
	if fn == nil {
		return
	}
	c.Subject()
	key := "(*core/environment.Manager).TeardownEnvironment"
	var points []ssa.Instruction
	var first ssa.Instruction
	for _, ci := range an.CallsNamed(fn, "(*core/environment.Environment).CurrentState") {
		if first == nil || an.Dominates(ci, first) {
			first = ci
		}
	}
	if first != nil {
		points = append(points, first)
	}
	for _, ci := range an.CallsNamed(fn, "(*core/environment.Environment).handleAllHooks", "(*core/task.Manager).TriggerHooks", "(*core/environment.Environment).setState", "builtin.delete") {
		points = append(points, ci)
	}
	an.Instrs(fn, func(in ssa.Instruction) {
		if s, ok := in.(*ssa.Send); ok && isFieldNamed(s.Chan, "MessageChannel") {
			points = append(points, s)
		}
	})
	bad := []string{}
	for _, p := range points {
		if !an.HoldsExclusive(p, "Environment.transitionMutex") {
			bad = append(bad, c.PosStr(p.Pos()))
		}
	}
	deferred := false
	an.Instrs(fn, func(in ssa.Instruction) {
		if d, ok := in.(*ssa.Defer); ok && isXUnlock(an.CalleeName(&d.Call)) && strings.HasSuffix(an.LockPath(d.Call.Args[0]), "Environment.transitionMutex") {
			deferred = true
		}
	})
	c.Ob(key+"|under-transition-lock", fn.Pos(), len(bad) == 0 && len(points) >= 6 && deferred,
		"state read, hooks, release messages, DONE and unlisting must all happen under the environment's transition lock, released by defer (%d points checked, not under lock: %v, deferred unlock: %v)", len(points), bad, deferred)
}

// forcedStateOK decides whether the state argument of a forced state write is ERROR/DONE.
func forcedStateOK(c *an.Ctx, fn *ssa.Function, at ssa.Instruction, arg ssa.Value) (bool, string) {
	if s, ok := an.ConstString(arg); ok {
		return s == "ERROR" || s == "DONE", "constant " + s
	}
	// a captured local that holds the name (`name := wfState.String()` taken before the closure is made): every
	// assignment of that local, judged where it is made
	if u, isLoad := arg.(*ssa.UnOp); isLoad && u.Op == token.MUL {
		if fv, isFV := u.X.(*ssa.FreeVar); isFV && fn.Parent() != nil {
			for _, f := range an.WithAnon(an.OutermostParent(fn)) {
				var mc *ssa.MakeClosure
				an.Instrs(f, func(in ssa.Instruction) {
					if m, ok := in.(*ssa.MakeClosure); ok && m.Fn == ssa.Value(fn) {
						mc = m
					}
				})
				if mc == nil {
					continue
				}
				cell := an.Binding(mc, fv)
				if cell == nil || cell.Referrers() == nil {
					break
				}
				n, allOK := 0, true
				for _, r := range *cell.Referrers() {
					st, isSt := r.(*ssa.Store)
					if !isSt || st.Addr != cell {
						continue
					}
					n++
					if _, isLd := st.Val.(*ssa.UnOp); isLd {
						allOK = false // no chains of captured cells
						continue
					}
					if ok, _ := forcedStateOK(c, st.Parent(), st, st.Val); !ok {
						allOK = false
					}
				}
				if n > 0 && allOK {
					return true, "captured name, every assignment of which is ERROR/DONE"
				}
				break
			}
		}
	}
	// X.String() where X == sm.ERROR is known
	call, ok := arg.(*ssa.Call)
	if !ok || an.MethodName(&call.Call) != "String" || len(call.Call.Args) != 1 {
		return false, "non-constant state"
	}
	x := call.Call.Args[0]
	errConst := lookupConstInt(c, "github.com/AliceO2Group/Control/core/task/sm", "ERROR")
	isErr := func(a an.Atom, v ssa.Value) bool {
		if a.Op != token.EQL || a.Y == nil || errConst == nil {
			return false
		}
		for _, pair := range [][2]ssa.Value{{a.X, a.Y}, {a.Y, a.X}} {
			if cst, ok := pair[1].(*ssa.Const); ok && cst.Value != nil {
				if k, ok := an.Int64Of(cst.Value); ok && k == *errConst && an.SameVar(pair[0], v) {
					return true
				}
			}
		}
		return false
	}
	for _, a := range an.Atoms(at.Block()) {
		if isErr(a, x) {
			return true, "state guarded by == sm.ERROR"
		}
	}
	// x is a load of a captured variable: the guard is at the closure's creation site
	if u, ok := x.(*ssa.UnOp); ok {
		if fv, ok := u.X.(*ssa.FreeVar); ok && fn.Parent() != nil {
			var mc *ssa.MakeClosure
			for _, f := range an.WithAnon(an.OutermostParent(fn)) {
				an.Instrs(f, func(in ssa.Instruction) {
					if m, ok := in.(*ssa.MakeClosure); ok && m.Fn == fn {
						mc = m
					}
				})
			}
			if mc != nil {
				cell := an.Binding(mc, fv)
				for _, a := range an.Atoms(mc.Block()) {
					if a.Op != token.EQL || a.Y == nil {
						continue
					}
					for _, pair := range [][2]ssa.Value{{a.X, a.Y}, {a.Y, a.X}} {
						ld, isLd := pair[0].(*ssa.UnOp)
						cst, isC := pair[1].(*ssa.Const)
						if !isLd || !isC || cst.Value == nil || ld.X != cell {
							continue
						}
						if k, ok := an.Int64Of(cst.Value); ok && errConst != nil && k == *errConst && !an.StoreBetween(cell, mc, nil2(mc)) {
							return true, "captured state guarded by == sm.ERROR where the closure is created"
						}
					}
				}
			}
		}
	}
	return false, "state value not known to be ERROR"
}

// nil2 returns the last instruction of the function (so StoreBetween checks "any store after").
func nil2(in ssa.Instruction) ssa.Instruction {
	fn := in.Parent()
	var last ssa.Instruction = in
	for _, b := range fn.Blocks {
		if r, ok := b.Instrs[len(b.Instrs)-1].(*ssa.Return); ok {
			last = r
		}
	}
	return last
}

func r01d(c *an.Ctx) {
	c.Rule("R01d", "the environment state is forced (FSM.SetState, directly or through Environment.setState) only to ERROR or DONE", 7)
	sm := envSmField(c)
	check := func(s an.Site, arg ssa.Value, via string) {
		c.Subject()
		c.Mark(s.Fn)
		ok, why := forcedStateOK(c, s.Fn, s.Call, arg)
		c.Ob("forced-state|"+c.RelName(an.OutermostParent(s.Fn))+via, s.Call.Pos(), ok, "the environment state is written without an FSM event to something other than ERROR/DONE (%s): the environment can end up in a state the documented graph does not lead to", why)
	}
	for _, s := range c.SitesNamed("(*github.com/looplab/fsm.FSM).SetState") {
		if an.FieldOf(s.Call.Common().Args[0]) != sm {
			continue
		}
		if c.RelName(s.Fn) == "(*core/environment.Environment).setState" {
			// wrapper: passes its parameter through
			if _, isP := s.Call.Common().Args[1].(*ssa.Parameter); isP {
				for _, cs := range c.SitesNamed("(*core/environment.Environment).setState") {
					check(cs, cs.Call.Common().Args[1], "|via-setState")
				}
				continue
			}
		}
		check(s, s.Call.Common().Args[1], "")
	}
}

func r01e(c *an.Ctx) {
	c.Rule("R01e", "hooks and transition bodies run only from the FSM callbacks / teardown; the request path fires nothing before the FSM accepted the event", 5)
	cb := envCallbacks(c)
	if cb == nil {
		return
	}
	isCb := map[*ssa.Function]bool{}
	roleOf := map[*ssa.Function]string{}
	for k, f := range cb {
		isCb[f] = true
		roleOf[f] = "core/environment.newEnvironment[" + k + "]"
	}
	nameOf := func(f *ssa.Function) string {
		if r, ok := roleOf[f]; ok {
			return r
		}
		if f.Parent() != nil {
			return c.RelName(an.OutermostParent(f)) + "[closure]"
		}
		return c.RelName(f)
	}
	allowedOuter := map[string]bool{
		"(*core/environment.Manager).TeardownEnvironment": true,
	}
	check := func(callee string, wrapperOK map[string]bool) {
		for _, s := range c.SitesNamed(callee) {
			c.Subject()
			name := c.RelName(an.OutermostParent(s.Fn))
			ok := isCb[s.Fn] || allowedOuter[name] || wrapperOK[c.RelName(s.Fn)]
			c.Ob("caller-of|"+callee+"|"+nameOf(s.Fn), s.Call.Pos(), ok, "%s is called from %s: hooks may only be started by the FSM callbacks (after the FSM accepted the event) or by teardown", callee, nameOf(s.Fn))
		}
	}
	wrappers := map[string]bool{
		"(*core/environment.Environment).handleAllHooks":                 true,
		"(*core/environment.Environment).handleHooksWithNegativeWeights": true,
		"(*core/environment.Environment).handleHooksWithPositiveWeights": true,
	}
	check("(*core/environment.Environment).handleHooks", wrappers)
	check("(*core/environment.Environment).handleHooksWithNegativeWeights", nil)
	check("(*core/environment.Environment).handleHooksWithPositiveWeights", nil)
	check("(*core/environment.Environment).handleAllHooks", nil)
	check("(*core/environment.Environment).runTasksAsHooks", map[string]bool{"(*core/environment.Environment).handleHooks": true})
	// transition bodies: invoke of Transition.do only inside the handlerFunc closure, which is used only by leave_state
	for _, s := range c.SitesOf(func(n string) bool { return n == "(iface core/environment.Transition).do" }) {
		c.Subject()
		parent := s.Fn.Parent()
		ok := parent != nil && c.RelName(parent) == "(*core/environment.Environment).handlerFunc"
		c.Ob("caller-of|Transition.do|"+nameOf(s.Fn), s.Call.Pos(), ok, "a transition body is executed from %s; it may only run from the FSM's leave_state callback", nameOf(s.Fn))
	}
	for _, s := range c.SitesNamed("(*core/environment.Environment).handlerFunc") {
		c.Subject()
		c.Ob("caller-of|handlerFunc|"+nameOf(s.Fn), s.Call.Pos(), s.Fn == cb["leave_state"], "the task-transition handler is obtained outside the leave_state callback (%s)", nameOf(s.Fn))
	}
	// TryTransition itself sends nothing and runs no hook
	if fn := c.MustFn("core/environment", "Environment.TryTransition"); fn != nil {
		c.Subject()
		clean := true
		an.Instrs(fn, func(in ssa.Instruction) {
			if s, ok := in.(*ssa.Send); ok && isFieldNamed(s.Chan, "MessageChannel") {
				clean = false
			}
		})
		c.Ob("(*core/environment.Environment).TryTransition|no-command-before-event", fn.Pos(), clean, "the request path must not send task commands itself; only the FSM callbacks may, after the event was accepted")
	}
}

func r01f(c *an.Ctx) {
	c.Rule("R01f", "ControlEnvironment: a failed requested transition is followed by GO_ERROR, and by a forced ERROR if GO_ERROR is refused", 1)
	fn := c.MustFn("core", "RpcServer.ControlEnvironment")
	if fn == nil {
		return
	}
	c.Subject()
	key := "(*core.RpcServer).ControlEnvironment"
	var req, goerr *ssa.Call
	for _, ci := range an.CallsNamed(fn, "(*core/environment.Environment).TryTransition") {
		call := ci.(*ssa.Call)
		for _, l := range an.BackSlice(call.Call.Args[1], an.SliceOpts{LeafCall: func(n string, _ *ssa.Call) bool {
			return n == "core/environment.MakeTransition" || n == "core/environment.NewGoErrorTransition"
		}}) {
			if l.Kind == "call" {
				if l.Path == "core/environment.MakeTransition" {
					req = call
				} else {
					goerr = call
				}
			}
		}
	}
	if req == nil || goerr == nil {
		c.Ob(key+"|fallback", fn.Pos(), false, "requested transition or GO_ERROR fallback not found (requested=%v fallback=%v)", req != nil, goerr != nil)
		return
	}
	ok1 := false
	for _, t := range an.ErrTests(req) {
		if !pathToExitAvoiding(t.NonNilSucc, goerr) {
			ok1 = true
		}
	}
	// on every path: with the requested transition's error set, no reply is reached without the GO_ERROR attempt
	// (whatever kind of error it is - a cancelled event included)
	{
		var errv ssa.Value = req
		fl := an.FlowFromFacts(req.Block(), func(b *ssa.BasicBlock, succ int) bool { return b == goerr.Block() }, errv)
		for _, r := range fl.ReachedReturns() {
			if r.Block() != goerr.Block() {
				ok1 = false
			}
		}
	}
	var forced ssa.Instruction
	sm := envSmField(c)
	for _, ci := range an.CallsNamed(fn, "(*github.com/looplab/fsm.FSM).SetState", "(*core/environment.Environment).setState") {
		a := ci.Common().Args
		if s, ok := an.ConstString(a[1]); ok && s == "ERROR" {
			if an.CalleeName(ci.Common()) == "(*core/environment.Environment).setState" || an.FieldOf(a[0]) == sm {
				forced = ci
			}
		}
	}
	ok2 := false
	if forced != nil {
		for _, t := range an.ErrTests(goerr) {
			if !pathToExitAvoiding(t.NonNilSucc, forced) {
				ok2 = true
			}
		}
	}
	c.Ob(key+"|failed-transition-goes-to-ERROR", req.Pos(), ok1 && ok2, "after a failed requested transition every path to the reply must attempt GO_ERROR (%v), and force ERROR when GO_ERROR is refused (%v)", ok1, ok2)
	_ = fmt.Sprint
}

// pathToExitAvoiding: from the start of block b, can a Return be reached without executing `through`?
func pathToExitAvoiding(b *ssa.BasicBlock, through ssa.Instruction) bool {
	return !an.AllPathsReturnAvoidingNot(b, through)
}

func isXUnlock(n string) bool { return n == "(*sync.Mutex).Unlock" || n == "(*sync.RWMutex).Unlock" }

package rules

import (
	"fmt"
	"go/token"
	"go/types"
	"sort"
	"strings"

	"verifchk/internal/an"

	"golang.org/x/tools/go/ssa"
)

func init() {
	register("C20", "Decides structural necessary conditions of 'configuration lookups return the most specific existing entry': "+
		"(R20a) candidates are tried in the order exact, any-run-type, any-role, any/any (abstract evaluation of each candidate over {orig,ANY} x {orig,any}); "+
		"(R20b) a candidate is returned only after its own existence test succeeded, otherwise a non-nil error with no query; the path test returns nil error only when the backend says the path exists; "+
		"(R20c) each fallback constructor changes exactly its one field; (R20d) the three query regular expressions are anchored at both ends with no top-level alternation and the parsers reject non-matching input with the bad-key error. "+
		"Does not decide parse/print round trips, backend Exists semantics or the template engine itself; of 'templated with exactly the variables supplied' only (R20e): the variables of one request never flow into a function that updates state kept by the Service (the per-directory template-set cache).", runC20)
}

func runC20(c *an.Ctx) {
	summ := r20c(c)
	r20ab(c, summ)
	r20d(c)
	r20e(c)
	r20f(c)
	// round 7
	passThrough(c, "R20i", "cacheproxy: component configuration lookups are plain pass-throughs to the wrapped service", []string{"ResolveComponentQuery", "GetComponentConfiguration", "GetComponentConfigurationWithLastIndex", "GetAndProcessComponentConfiguration"}, "an answer kept by the proxy outlives the entry it names: after the entry is removed or a more specific one is added, the query still resolves to the remembered path")
	r20g(c)
	r20h(c)
	// round 8
	r20j(c)
	r20k(c)
	r20l(c)
	// round 9
	r20m(c)
	r20n(c)
}

const cfgPkg = "configuration/componentcfg"

// r20c returns constructor name -> field it replaces ("RunType"/"RoleName").
func r20c(c *an.Ctx) map[string]string {
	c.Rule("R20c", "fallback constructors: copy every field from the receiver except the one set to its FALLBACK constant", 2)
	out := map[string]string{}
	named := c.NamedType(cfgPkg, "Query")
	if named == nil {
		c.Lost("type componentcfg.Query")
		return out
	}
	st := named.Underlying().(*types.Struct)
	for _, w := range []struct{ fn, field string }{{"WithFallbackRunType", "RunType"}, {"WithFallbackRoleName", "RoleName"}} {
		fn := c.MustFn(cfgPkg, "Query."+w.fn)
		if fn == nil {
			continue
		}
		c.Subject()
		var lit *ssa.Alloc
		an.Instrs(fn, func(in ssa.Instruction) {
			if al, ok := in.(*ssa.Alloc); ok && strings.HasSuffix(al.Type().String(), "componentcfg.Query") {
				lit = al
			}
		})
		var bad []string
		if lit == nil {
			bad = append(bad, "no Query literal")
		} else {
			// the stores into the new Query in execution order: a whole-struct copy of the receiver (`q := *p`) sets
			// every field to the receiver's, a field store overrides one field; only stores on every path to the
			// return count
			stored := map[string]ssa.Value{}
			fromRecv := map[string]bool{}
			var ret *ssa.Return
			for _, r := range an.Returns(fn) {
				ret = r
			}
			type wr struct {
				in    ssa.Instruction
				field int // -1: whole struct
				val   ssa.Value
			}
			var wrs []wr
			addStore := func(s *ssa.Store, field int) {
				if ret == nil || len(an.Returns(fn)) != 1 || !(s.Block() == ret.Block() || s.Block().Dominates(ret.Block())) {
					bad = append(bad, "a store into the new Query at "+c.PosStr(s.Pos())+" is not on every path to the return")
					return
				}
				wrs = append(wrs, wr{s, field, s.Val})
			}
			for _, r := range *lit.Referrers() {
				switch t := r.(type) {
				case *ssa.FieldAddr:
					if t.Referrers() != nil {
						for _, rr := range *t.Referrers() {
							if s, ok := rr.(*ssa.Store); ok && s.Addr == ssa.Value(t) {
								addStore(s, t.Field)
							}
						}
					}
				case *ssa.Store:
					if t.Addr == ssa.Value(lit) {
						addStore(t, -1)
					}
				}
			}
			depth := func(b *ssa.BasicBlock) int {
				n := 0
				for d := b.Idom(); d != nil; d = d.Idom() {
					n++
				}
				return n
			}
			idx := func(in ssa.Instruction) int {
				for i, x := range in.Block().Instrs {
					if x == in {
						return i
					}
				}
				return -1
			}
			sort.SliceStable(wrs, func(i, j int) bool {
				bi, bj := wrs[i].in.Block(), wrs[j].in.Block()
				if bi != bj {
					return depth(bi) < depth(bj)
				}
				return idx(wrs[i].in) < idx(wrs[j].in)
			})
			for _, w := range wrs {
				if w.field >= 0 {
					stored[st.Field(w.field).Name()] = w.val
					fromRecv[st.Field(w.field).Name()] = false
					continue
				}
				whole := false
				if u, isU := w.val.(*ssa.UnOp); isU && u.Op == token.MUL && u.X == ssa.Value(fn.Params[0]) {
					whole = true
				}
				for i := 0; i < st.NumFields(); i++ {
					stored[st.Field(i).Name()] = w.val
					fromRecv[st.Field(i).Name()] = whole
				}
			}
			for i := 0; i < st.NumFields(); i++ {
				name := st.Field(i).Name()
				v := stored[name]
				if name == w.field {
					if _, isC := an.Strip(v).(*ssa.Const); v == nil || !isC {
						bad = append(bad, name+" is not set to the fallback constant")
					} else {
						// the constant is the declared FALLBACK_* value
						want := "FALLBACK_RUNTYPE"
						if w.field == "RoleName" {
							want = "FALLBACK_ROLENAME"
						}
						if pk := c.TPkg(cfgPkg); pk != nil {
							if k, ok := pk.Types.Scope().Lookup(want).(*types.Const); ok {
								if an.Strip(v).(*ssa.Const).Value.ExactString() != k.Val().ExactString() {
									bad = append(bad, name+" is not "+want)
								}
							}
						}
					}
					continue
				}
				ok := fromRecv[name]
				if u, isU := v.(*ssa.UnOp); isU && !ok {
					if fa, isFA := u.X.(*ssa.FieldAddr); isFA && fa.Field == i && fa.X == ssa.Value(fn.Params[0]) {
						ok = true
					}
				}
				if !ok {
					bad = append(bad, name+" is not copied from the receiver")
				}
			}
		}
		if len(bad) == 0 {
			out[w.fn] = w.field
		}
		c.Ob("(*configuration/componentcfg.Query)."+w.fn+"|changes-only-"+w.field, fn.Pos(), len(bad) == 0, "the fallback constructor must copy every field except %s, which becomes the fallback value %v", w.field, bad)
	}
	return out
}

type cand struct{ rt, role string }

func r20ab(c *an.Ctx, summ map[string]string) {
	c.Rule("R20a", "resolveComponentQuery tries (orig,orig), (ANY,orig), (orig,any), (ANY,any) in this order", 1)
	fn := c.MustFn("apricot/local", "Service.resolveComponentQuery")
	if fn == nil {
		return
	}
	queryParam := fn.Params[1]
	var eval func(v ssa.Value, depth int) (cand, bool)
	eval = func(v ssa.Value, depth int) (cand, bool) {
		if depth > 10 {
			return cand{}, false
		}
		switch x := v.(type) {
		case *ssa.Parameter:
			if x == queryParam {
				return cand{"orig", "orig"}, true
			}
		case *ssa.Alloc:
			// a copy: `*resolved = *query`
			for _, r := range *x.Referrers() {
				if st, ok := r.(*ssa.Store); ok && st.Addr == ssa.Value(x) {
					if ld, ok := st.Val.(*ssa.UnOp); ok && ld.Op == token.MUL {
						return eval(ld.X, depth+1)
					}
				}
			}
		case *ssa.Call:
			n := an.MethodName(&x.Call)
			if fld, ok := summ[n]; ok {
				base, ok := eval(x.Call.Args[0], depth+1)
				if !ok {
					return cand{}, false
				}
				if fld == "RunType" {
					base.rt = "ANY"
				} else {
					base.role = "any"
				}
				return base, true
			}
		case *ssa.Phi:
			var first cand
			for i, e := range x.Edges {
				cv, ok := eval(e, depth+1)
				if !ok {
					return cand{}, false
				}
				if i == 0 {
					first = cv
				} else if cv != first {
					return cand{}, false
				}
			}
			return first, true
		}
		return cand{}, false
	}
	var tests []*ssa.Call
	for _, ci := range an.CallsNamed(fn, "(*apricot/local.Service).queryToAbsPath") {
		tests = append(tests, ci.(*ssa.Call))
	}
	// order by dominance
	for i := 0; i < len(tests); i++ {
		for j := i + 1; j < len(tests); j++ {
			if an.Dominates(tests[j], tests[i]) {
				tests[i], tests[j] = tests[j], tests[i]
			}
		}
	}
	c.Subject()
	var got []string
	okEval := true
	// the candidates in the order they are tested: one test site per candidate in a dominance chain, or one test site in
	// a range loop over a slice literal (elements in index order)
	var seq []ssa.Value
	chain := true
	if len(tests) == 1 && an.InLoop(tests[0].Block()) {
		chain = false
		h0, _ := an.EnclosingLoop(tests[0].Block())
		// array literal ranged by value: candidates[i] is an Index on a copy of the literal
		if ix, ok := an.Strip(tests[0].Call.Args[1]).(*ssa.Index); ok && h0 != nil && strings.HasPrefix(h0.Comment, "rangeindex") {
			if bo, isBo := ix.Index.(*ssa.BinOp); isBo && bo.Block() == h0 {
				if ld, isLd := ix.X.(*ssa.UnOp); isLd && ld.Op == token.MUL {
					if arr, isArr := ld.X.(*ssa.Alloc); isArr && arr.Referrers() != nil {
						elems := map[int64]ssa.Value{}
						for _, r := range *arr.Referrers() {
							if ea, ok := r.(*ssa.IndexAddr); ok && ea.Referrers() != nil {
								if k, isK := an.ConstInt(ea.Index); isK {
									for _, rr := range *ea.Referrers() {
										if st, ok := rr.(*ssa.Store); ok && st.Addr == ssa.Value(ea) {
											elems[k] = st.Val
										}
									}
								}
							}
						}
						chain = len(elems) > 0
						for k := int64(0); k < int64(len(elems)); k++ {
							v, has := elems[k]
							if !has {
								chain = false
								break
							}
							seq = append(seq, v)
						}
					}
				}
			}
		}
		if ld, ok := an.Strip(tests[0].Call.Args[1]).(*ssa.UnOp); ok && ld.Op == token.MUL {
			if ia, ok := ld.X.(*ssa.IndexAddr); ok {
				inRange := false
				if h, _ := an.EnclosingLoop(tests[0].Block()); h != nil && strings.HasPrefix(h.Comment, "rangeindex") {
					if bo, isBo := ia.Index.(*ssa.BinOp); isBo && bo.Block() == h {
						inRange = true // the range statement's own index: every element, ascending
					}
				}
				if sl, ok := an.Strip(ia.X).(*ssa.Slice); ok && inRange && sl.Low == nil && sl.High == nil {
					if arr, ok := sl.X.(*ssa.Alloc); ok && arr.Referrers() != nil {
						elems := map[int64]ssa.Value{}
						for _, r := range *arr.Referrers() {
							if ea, ok := r.(*ssa.IndexAddr); ok && ea.Referrers() != nil {
								if k, isK := an.ConstInt(ea.Index); isK {
									for _, rr := range *ea.Referrers() {
										if st, ok := rr.(*ssa.Store); ok && st.Addr == ssa.Value(ea) {
											elems[k] = st.Val
										}
									}
								}
							}
						}
						chain = true
						for k := int64(0); k < int64(len(elems)); k++ {
							v, has := elems[k]
							if !has {
								chain = false
								break
							}
							seq = append(seq, v)
						}
					}
				}
			}
		}
	} else {
		for _, t := range tests {
			seq = append(seq, t.Call.Args[1])
		}
		for i := 1; i < len(tests); i++ {
			if !an.Dominates(tests[i-1], tests[i]) {
				chain = false
			}
		}
	}
	for _, v := range seq {
		cv, ok := eval(v, 0)
		if !ok {
			okEval = false
			got = append(got, "?")
			continue
		}
		got = append(got, "("+cv.rt+","+cv.role+")")
	}
	wantSeq := "(orig,orig) (ANY,orig) (orig,any) (ANY,any)"
	c.Ob("(*apricot/local.Service).resolveComponentQuery|fallback-order", fn.Pos(), okEval && chain && strings.Join(got, " ") == wantSeq,
		"existence tests must be made in the order %s; found %s", wantSeq, strings.Join(got, " "))

	c.Rule("R20b", "a candidate is returned only after its own existence test succeeded; else nil query + non-nil error; queryToAbsPath: nil error only if Exists", 2)
	c.Subject()
	var bad []string
	nOK, nFail := 0, 0
	for _, ret := range an.Returns(fn) {
		q, e := an.RetVal(ret, 0), an.RetVal(ret, 1)
		if an.NonNil(e) {
			nFail++
			if !an.IsNilConst(q) {
				bad = append(bad, "the failure exit returns a query")
			}
			continue
		}
		// success exit: e must be the error of test K known nil, and q the argument of test K
		matched := false
		for _, t := range tests {
			var errK ssa.Value
			for _, r := range *t.Referrers() {
				if ex, ok := r.(*ssa.Extract); ok && ex.Index == 1 {
					errK = ex
				}
			}
			if errK == nil || (e != errK && !an.IsNilConst(e)) {
				continue
			}
			known := false
			for _, a := range an.Atoms(ret.Block()) {
				if a.Op == token.EQL && a.Y != nil && an.IsNilConst(a.Y) && a.X == errK {
					known = true
				}
			}
			if known && q == t.Call.Args[1] {
				matched = true
			}
		}
		if matched {
			nOK++
		} else {
			bad = append(bad, "a query is returned at "+c.PosStr(ret.Pos())+" that is not the candidate whose existence test just succeeded")
		}
	}
	c.Ob("(*apricot/local.Service).resolveComponentQuery|exists-before-return", fn.Pos(), len(bad) == 0 && nOK == len(tests) && nFail == 1,
		"%d success exits (one per candidate), %d failure exit %v", nOK, nFail, bad)
	if qa := c.MustFn("apricot/local", "Service.queryToAbsPath"); qa != nil {
		c.Subject()
		ok := true
		n := 0
		for _, ret := range an.Returns(qa) {
			e := an.RetVal(ret, 1)
			if an.NonNil(e) {
				continue
			}
			n++
			exists, nilq := false, false
			for _, a := range an.Atoms(ret.Block()) {
				if ex, isEx := a.X.(*ssa.Extract); isEx && a.Y == nil && a.Val {
					if call, isCall := ex.Tuple.(*ssa.Call); isCall && an.MethodName(&call.Call) == "Exists" {
						// and the path tested is the path returned
						if an.RetVal(ret, 0) == call.Call.Args[0] || an.SameVar(an.RetVal(ret, 0), an.Args(&call.Call)[1]) {
							exists = true
						}
					}
				}
				if a.Op == token.EQL && a.Y != nil && an.IsNilConst(a.Y) {
					if _, isP := a.X.(*ssa.Parameter); isP {
						nilq = true
					}
				}
			}
			if !exists && !nilq {
				ok = false
			}
		}
		c.Ob("(*apricot/local.Service).queryToAbsPath|nil-error-iff-exists", qa.Pos(), ok && n >= 1, "a nil error may only be returned when the backend reports that the very path returned exists (%d nil-error exits)", n)
	}
}

func r20d(c *an.Ctx) {
	c.Rule("R20d", "query regular expressions are anchored (^...$, no top-level alternation); parsers reject non-matching input with E_BAD_KEY", 6)
	pk := c.Pkg(cfgPkg)
	if pk == nil {
		c.Lost("package configuration/componentcfg")
		return
	}
	initFn := pk.Func("init")
	regs := map[string]string{}
	if initFn != nil {
		an.Instrs(initFn, func(in ssa.Instruction) {
			st, ok := in.(*ssa.Store)
			if !ok {
				return
			}
			g, ok := st.Addr.(*ssa.Global)
			if !ok {
				return
			}
			if call, ok := st.Val.(*ssa.Call); ok && an.CalleeName(&call.Call) == "regexp.MustCompile" {
				if s, ok := an.ConstString(call.Call.Args[0]); ok {
					regs[g.Name()] = s
				}
			}
		})
	}
	for _, name := range []string{"inputFullRegex", "inputEntriesRegex", "inputParametersRegex"} {
		c.Subject()
		re, ok := regs[name]
		anchored := ok && strings.HasPrefix(re, "^") && strings.HasSuffix(re, "$") && !strings.HasSuffix(re, `\$`)
		depth, alt, esc, cls := 0, false, false, false
		for _, ch := range re {
			switch {
			case esc:
				esc = false
			case ch == '\\':
				esc = true
			case cls:
				if ch == ']' {
					cls = false
				}
			case ch == '[':
				cls = true
			case ch == '(':
				depth++
			case ch == ')':
				depth--
			case ch == '|' && depth == 0:
				alt = true
			}
		}
		c.Ob("configuration/componentcfg."+name+"|anchored", token.NoPos, anchored && !alt, "the expression must match the whole input: start with ^, end with $, no alternation at the top level (found: %q)", re)
	}
	for _, p := range []struct{ fn, valid, global string }{
		{"NewQuery", "IsStringValidQueryPath", "inputFullRegex"},
		{"NewEntriesQuery", "IsStringValidEntriesQueryPath", "inputEntriesRegex"},
		{"NewQueryParameters", "IsStringValidQueryParameters", "inputParametersRegex"},
	} {
		fn := c.MustFn(cfgPkg, p.fn)
		if fn == nil {
			continue
		}
		c.Subject()
		var valid *ssa.Call
		for _, ci := range an.CallsNamed(fn, cfgPkg+"."+p.valid) {
			valid, _ = ci.(*ssa.Call)
		}
		ok := valid != nil
		var why []string
		if ok {
			rejected := false
			for _, ret := range an.Returns(fn) {
				e := an.RetVal(ret, 1)
				isBad := false
				if u, isU := e.(*ssa.UnOp); isU {
					if g, isG := u.X.(*ssa.Global); isG && g.Name() == "E_BAD_KEY" {
						isBad = true
					}
				}
				if an.KnownFalse(ret.Block(), valid) {
					if isBad {
						rejected = true
					} else {
						ok = false
						why = append(why, "non-matching input does not yield E_BAD_KEY")
					}
				}
				if an.IsNilConst(e) && !an.KnownTrue(ret.Block(), valid) {
					ok = false
					why = append(why, "a nil error is returned without the input having matched")
				}
			}
			if !rejected {
				ok = false
				why = append(why, "no rejecting exit")
			}
		}
		// and the validity helper uses the right expression
		if vf := c.Fn(cfgPkg, p.valid); vf != nil {
			uses := false
			an.Instrs(vf, func(in ssa.Instruction) {
				if u, isU := in.(*ssa.UnOp); isU {
					if g, isG := u.X.(*ssa.Global); isG && g.Name() == p.global {
						uses = true
					}
				}
			})
			if !uses {
				ok = false
				why = append(why, p.valid+" does not test "+p.global)
			}
		}
		c.Ob("configuration/componentcfg."+p.fn+"|rejects-malformed", fn.Pos(), ok, "malformed input must be rejected with E_BAD_KEY and well-formedness must be established before success %v", why)
	}
	_ = fmt.Sprint
}

// R20e: "templated with exactly the variables supplied" needs the variables of a request to stay with that request.
// Whatever GetAndProcessComponentConfiguration hands to a function that updates state kept in the Service (the
// template-set cache, which lives until it is explicitly invalidated) must not be computed from varStack.
func r20e(c *an.Ctx) {
	c.Rule("R20e", "GetAndProcessComponentConfiguration: nothing derived from the request's variables is passed to a function that updates state kept by the Service", 1)
	fn := c.MustFn("apricot/local", "Service.GetAndProcessComponentConfiguration")
	if fn == nil {
		return
	}
	var vars *ssa.Parameter
	for _, p := range fn.Params {
		if m, ok := p.Type().Underlying().(*types.Map); ok && types.Identical(m.Key(), types.Typ[types.String]) {
			vars = p
		}
	}
	if vars == nil {
		c.Lost("the variables parameter (map[string]string) of GetAndProcessComponentConfiguration")
		return
	}
	// state reachable from a *Service receiver: fields, and what is looked up in / loaded from them
	fromRecv := func(v ssa.Value, recv ssa.Value) bool {
		for i := 0; i < 12 && v != nil; i++ {
			switch x := v.(type) {
			case *ssa.Parameter:
				return ssa.Value(x) == recv
			case *ssa.FieldAddr:
				v = x.X
			case *ssa.UnOp:
				v = x.X
			case *ssa.IndexAddr:
				v = x.X
			case *ssa.Lookup:
				v = x.X
			case *ssa.Extract:
				v = x.Tuple
			default:
				return false
			}
		}
		return false
	}
	// functions that update state reachable from their *Service receiver
	updatesService := func(f *ssa.Function) bool {
		if f == nil || len(f.Blocks) == 0 || f.Signature.Recv() == nil || len(f.Params) == 0 || !types.Identical(f.Params[0].Type(), fn.Params[0].Type()) {
			return false
		}
		recv := f.Params[0]
		found := false
		an.Instrs(f, func(in ssa.Instruction) {
			switch x := in.(type) {
			case *ssa.MapUpdate:
				if fromRecv(x.Map, recv) {
					found = true
				}
			case *ssa.Store:
				if _, isFA := x.Addr.(*ssa.FieldAddr); isFA && fromRecv(x.Addr, recv) {
					found = true
				}
			}
		})
		return found
	}
	fromVars := func(v ssa.Value) bool {
		for _, l := range an.BackSlice(v, an.SliceOpts{}) {
			if l.Val == ssa.Value(vars) {
				return true
			}
		}
		return false
	}
	// updates made by the function itself (or by helpers expanded into it)
	c.Subject()
	var direct []string
	an.Instrs(fn, func(in ssa.Instruction) {
		switch x := in.(type) {
		case *ssa.MapUpdate:
			if fromRecv(x.Map, fn.Params[0]) && (fromVars(x.Key) || fromVars(x.Value)) {
				direct = append(direct, c.PosStr(x.Pos()))
			}
		case *ssa.Store:
			if _, isFA := x.Addr.(*ssa.FieldAddr); isFA && fromRecv(x.Addr, fn.Params[0]) && fromVars(x.Val) {
				direct = append(direct, c.PosStr(x.Pos()))
			}
		}
	})
	sort.Strings(direct)
	c.Ob("(*apricot/local.Service).GetAndProcessComponentConfiguration|own-updates|no-request-variables", fn.Pos(), len(direct) == 0,
		"state kept by the Service is updated at %v with values computed from this request's variables: later requests with other variables are served from it", direct)
	n := 0
	an.Instrs(fn, func(in ssa.Instruction) {
		call, ok := in.(ssa.CallInstruction)
		if !ok {
			return
		}
		cal := call.Common().StaticCallee()
		if !updatesService(cal) {
			return
		}
		n++
		c.Subject()
		var bad []string
		for i, a := range call.Common().Args {
			if fromVars(a) {
				bad = append(bad, fmt.Sprintf("argument %d", i))
			}
		}
		c.Ob("(*apricot/local.Service).GetAndProcessComponentConfiguration|call "+an.Short(cal.String())+"|no-request-variables", call.Pos(), len(bad) == 0,
			"%s updates state kept by the Service and receives values computed from this request's variables (%v): what it keeps (e.g. template functions closed over the first request's variables in the cached template set) is then applied to later requests with other variables", an.Short(cal.String()), bad)
	})
	if n == 0 {
		c.Lost("a call from GetAndProcessComponentConfiguration to a Service method that updates cached state (templateSetForBasePath)")
	}
}

// R20f: (a) "malformed queries are rejected": a run type name that is not a run type is rejected - the parsers look the
// name up with the comma-ok form and test the answer; (b) the template loader hands a failed lookup of an (included)
// entry on as an error - answered with a nil error the error text itself is cached as the entry's template.
func r20f(c *an.Ctx) {
	c.Rule("R20f", "query parsers test the run-type lookup; the template loader returns the error of a failed entry lookup", 3)
	pk := c.Pkg(cfgPkg)
	if pk == nil {
		c.Lost("package configuration/componentcfg")
		return
	}
	n := 0
	for _, fn := range c.ModuleFuncs() {
		if fn.Pkg != pk {
			continue
		}
		an.Instrs(fn, func(in ssa.Instruction) {
			lk, ok := in.(*ssa.Lookup)
			if !ok {
				return
			}
			ld, isLd := lk.X.(*ssa.UnOp)
			if !isLd {
				return
			}
			g, isG := ld.X.(*ssa.Global)
			if !isG || g.Name() != "RunType_value" {
				return
			}
			n++
			c.Subject()
			tested := false
			if lk.CommaOk && lk.Referrers() != nil {
				for _, r := range *lk.Referrers() {
					if ex, isEx := r.(*ssa.Extract); isEx && ex.Index == 1 && ex.Referrers() != nil {
						for _, rr := range *ex.Referrers() {
							switch rr.(type) {
							case *ssa.If, *ssa.UnOp, *ssa.BinOp, *ssa.Phi:
								tested = true
							}
						}
					}
				}
			}
			c.Ob(fmt.Sprintf("%s|run-type-lookup#%d|answer-tested", c.RelName(fn), n), lk.Pos(), tested,
				"the run type name is looked up without testing whether it exists: an unknown name is accepted as run type 0 (NULL) instead of being rejected as a bad key")
		})
	}
	if n == 0 {
		c.Lost("a lookup in apricotpb.RunType_value in configuration/componentcfg")
	}
	if fn := c.MustFn("configuration/template", "ConsulTemplateLoader.Get"); fn != nil {
		for _, ci := range an.Calls(fn, func(nm string, ci ssa.CallInstruction) bool {
			return an.MethodName(ci.Common()) == "GetComponentConfiguration"
		}) {
			call, ok := ci.(*ssa.Call)
			if !ok {
				continue
			}
			c.Subject()
			var bad []string
			for _, r := range errSwallowed(call) {
				bad = append(bad, c.PosStr(lastPos(r.Block())))
			}
			sort.Strings(bad)
			c.Ob("(*configuration/template.ConsulTemplateLoader).Get|lookup-error-returned", call.Pos(), len(bad) == 0,
				"when the entry cannot be fetched the loader can return a nil error (at %v): the error text is taken for the entry's content, cached as its template, and served as the payload even after the entry exists", bad)
		}
	}
}

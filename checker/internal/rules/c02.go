package rules

import (
	"fmt"
	"go/token"
	"go/types"
	"strings"

	"verifchk/internal/an"
	"verifchk/internal/load"

	"golang.org/x/tools/go/ssa"
)

func init() {
	register("C02", "Decides structural necessary conditions of 'a transition succeeds iff every critical task acknowledged it': "+
		"(R02a) each transition body awaits an answer only for a command it sent, at most once, and (R02b) returns the answer's error; (R02c) nothing is commanded (and nothing awaited) for an empty task list; "+
		"(R02d) the task manager answers each Configure/Transition message exactly once with the aggregated error; (R02e) per-target errors are classified by the Critical trait, only critical ones are returned; "+
		"(R02f) DEPLOY leaves its wait loop successfully only on status ACTIVE; (R02g) only ACTIVE tasks are commanded; (R02h) the transition error cancels the FSM event. "+
		"Does not decide the iff over all fault assignments and timings.", runC02)
}

func runC02(c *an.Ctx) {
	r02abcg(c)
	r02d(c)
	r02e(c)
	r02f(c)
	r02h(c)
	// shared with C12: a target that could not be reached or did not answer must appear in the aggregated answer as an error
	r12f(c)
	// shared with C12: an answer is credited to the pending call of its own (command id, target) pair only - an answer
	// credited to another target's call hides that target's failure or silence from the transition
	c.As(map[string]string{"R12e": "R02i"}, func() { r12e(c) })
	c.As(map[string]string{"R12j": "R02j"}, func() { r12j(c) })
	r02k(c)
	c.As(map[string]string{"R12l": "R02l"}, func() { r12l(c) })
	// round 7: shared with C12 (per-target copy keeps id and timeout; sizes agree; registered before sent) and C11 (status merge)
	c.As(map[string]string{"R12h": "R02m"}, func() { r12h(c) })
	c.As(map[string]string{"R12a": "R02n", "R12b": "R02o"}, func() { r12ab(c) })
	c.As(map[string]string{"R12d": "R02p"}, func() { r12d(c) })
	c.As(map[string]string{"R11b": "R02q", "R11d": "R02r"}, func() { r11d(c, r11b(c)) })
	r02t(c)
	// round 8
	r02u(c)
	r02v(c)
	c.As(map[string]string{"R12o": "R02w"}, func() { r12o(c) })
	c.As(map[string]string{"R04g": "R02x"}, func() { r04g(c) })
	// round 9
	r02y(c)
	r02z(c)
	c.As(map[string]string{"R12p": "R02A"}, func() { r12p(c) })
	c.As(map[string]string{"R16c": "R02B", "R16f": "R02C", "R16d": "R02D"}, func() { r16cd(c) })
}

// transitionDos returns the `do` methods of all implementers of environment.Transition.
func transitionDos(c *an.Ctx) map[string]*ssa.Function {
	out := map[string]*ssa.Function{}
	pk := c.TPkg("core/environment")
	if pk == nil {
		return out
	}
	obj := pk.Types.Scope().Lookup("Transition")
	if obj == nil {
		return out
	}
	iface, ok := obj.Type().Underlying().(*types.Interface)
	if !ok {
		return out
	}
	for _, name := range pk.Types.Scope().Names() {
		tn, ok := pk.Types.Scope().Lookup(name).(*types.TypeName)
		if !ok || tn == obj {
			continue
		}
		if _, isI := tn.Type().Underlying().(*types.Interface); isI {
			continue
		}
		if types.Implements(tn.Type(), iface) || types.Implements(types.NewPointer(tn.Type()), iface) {
			if f := c.Fn("core/environment", name+".do"); f != nil {
				out[name] = f
			}
		}
	}
	return out
}

func isFieldNamed(v ssa.Value, name string) bool {
	f := an.FieldOf(v)
	return f != nil && f.Name() == name
}

func r02abcg(c *an.Ctx) {
	dos := transitionDos(c)
	c.Rule("R02a", "every receive of the tasks' answer in a transition body is dominated by the send of the command it answers; at most one receive per send", 4)
	names := make([]string, 0, len(dos))
	for n := range dos {
		names = append(names, n)
	}
	sortStrings(names)
	type body struct {
		name         string
		fn           *ssa.Function
		sends, recvs []ssa.Instruction
	}
	var bodies []body
	for _, n := range names {
		fn := dos[n]
		b := body{name: n, fn: fn}
		an.Instrs(fn, func(in ssa.Instruction) {
			switch x := in.(type) {
			case *ssa.Send:
				if isFieldNamed(x.Chan, "MessageChannel") {
					b.sends = append(b.sends, x)
				}
			case *ssa.UnOp:
				if x.Op == token.ARROW && isFieldNamed(x.X, "stateChangedCh") {
					b.recvs = append(b.recvs, x)
				}
			}
		})
		bodies = append(bodies, b)
	}
	for _, b := range bodies {
		for i, r := range b.recvs {
			c.Subject()
			dom := false
			for _, s := range b.sends {
				if an.Dominates(s, r) {
					dom = true
				}
			}
			c.Ob(fmt.Sprintf("core/environment.%s.do|receive#%d", b.name, i+1), r.Pos(), dom && len(b.recvs) <= len(b.sends),
				"the transition waits for the tasks' answer on a path on which no command was sent (send is conditional, receive is not): with no active task nobody ever answers and the transition blocks forever while holding the environment's transition lock")
		}
	}
	c.Rule("R02b", "the error carried by the answer is returned by the transition body", 4)
	for _, b := range bodies {
		for i, r := range b.recvs {
			c.Subject()
			rv := r.(*ssa.UnOp)
			ok := false
			for _, ref := range *rv.Referrers() {
				call, isCall := ref.(*ssa.Call)
				if !isCall || an.MethodName(&call.Call) != "GetTasksStateChangedError" {
					continue
				}
				// with the tasks' error set, every return that can be reached returns that error (possibly after it travelled
				// through a result variable), never nil
				fl := an.FlowFromFacts(call.Block(), nil, call)
				all := true
				n := 0
				for _, ret := range fl.ReachedReturns() {
					n++
					v := an.RetVal(ret, 0)
					if v == nil || !an.DerivesFrom(v, call) || fl.NilCanReach(v, ret, call) {
						all = false
					}
				}
				if all && n > 0 {
					ok = true
				}
			}
			c.Ob(fmt.Sprintf("core/environment.%s.do|error-returned#%d", b.name, i+1), r.Pos(), ok, "a non-nil task error in the answer must be returned (it cancels the FSM event); it must not be dropped or replaced by nil")
		}
	}
	c.Rule("R02c", "a command whose task list is GetActiveTasks(..) is only sent for a non-empty list", 4)
	c.Rule("R02g", "only ACTIVE tasks are commanded: the task list of every command built in a transition body comes from workflow.GetActiveTasks", 4)
	for _, b := range bodies {
		for i, s := range b.sends {
			msg := s.(*ssa.Send).X
			// the task list argument
			var tasksArg ssa.Value
			var isAcquire bool
			for _, l := range an.BackSlice(msg, an.SliceOpts{LeafCall: func(n string, _ *ssa.Call) bool {
				return n == "core/task.NewTransitionTaskMessage" || n == "core/task.NewEnvironmentMessage"
			}}) {
				if l.Kind != "call" {
					continue
				}
				call := l.Val.(*ssa.Call)
				if an.CalleeName(&call.Call) == "core/task.NewTransitionTaskMessage" {
					tasksArg = call.Call.Args[0]
				} else {
					tasksArg = call.Call.Args[2]
					if k, ok := an.ConstInt(call.Call.Args[0]); ok {
						if want := lookupConstInt(c, "github.com/AliceO2Group/Control/core/task/taskop", "AcquireTasks"); want != nil && k == *want {
							isAcquire = true
						}
					}
				}
			}
			if isAcquire {
				continue // DEPLOY sends descriptors, not tasks
			}
			key := fmt.Sprintf("core/environment.%s.do|send#%d", b.name, i+1)
			if tasksArg == nil {
				c.Rule("R02g", "", 0)
				c.Ob(key+"|tasks-argument", s.Pos(), false, "cannot identify the task list of the command being sent")
				continue
			}
			var active *ssa.Call
			for _, l := range an.BackSlice(tasksArg, an.SliceOpts{LeafCall: func(n string, _ *ssa.Call) bool { return n == "core/workflow.GetActiveTasks" }}) {
				if l.Kind == "call" {
					active = l.Val.(*ssa.Call)
				}
			}
			c.Rule("R02g", "", 0)
			c.Subject()
			c.Ob(key+"|active-tasks-only", s.Pos(), active != nil, "the command must be addressed to workflow.GetActiveTasks(..) (inactive tasks cannot answer and would fail the transition)")
			c.Rule("R02c", "", 0)
			c.Subject()
			nonEmpty := false
			for _, a := range an.Atoms(s.Block()) {
				if a.Y == nil {
					continue
				}
				if call, ok := a.X.(*ssa.Call); ok && an.CalleeName(&call.Call) == "builtin.len" {
					if z, isZ := an.ConstInt(a.Y); isZ && z == 0 && (a.Op == token.NEQ || a.Op == token.GTR) {
						if active != nil && an.SameVar(call.Call.Args[0], active) {
							nonEmpty = true
						}
					}
				}
			}
			c.Ob(key+"|non-empty", s.Pos(), nonEmpty,
				"the command is sent even when no task is active: the command queue answers nil for zero targets, the task manager turns that into 'nil response received', and a transition with nothing to command fails instead of succeeding at once")
		}
	}
}

func sortStrings(s []string) {
	for i := 1; i < len(s); i++ {
		for j := i; j > 0 && s[j] < s[j-1]; j-- {
			s[j], s[j-1] = s[j-1], s[j]
		}
	}
}

func r02d(c *an.Ctx) {
	c.Rule("R02d", "task manager: each Configure/Transition message is answered exactly once with the error of configureTasks/transitionTasks", 2)
	fn := c.MustFn("core/task", "Manager.handleMessage")
	if fn == nil {
		return
	}
	for _, g := range an.GoClosures(fn) {
		var work *ssa.Call
		for _, ci := range an.Calls(g.Fn, func(n string, _ ssa.CallInstruction) bool {
			return n == "(*core/task.Manager).configureTasks" || n == "(*core/task.Manager).transitionTasks"
		}) {
			work, _ = ci.(*ssa.Call)
		}
		if work == nil {
			continue
		}
		c.Subject()
		c.Mark(g.Fn)
		name := an.MethodName(&work.Call)
		var sends []*ssa.Send
		an.Instrs(g.Fn, func(in ssa.Instruction) {
			if s, ok := in.(*ssa.Send); ok && isFieldNamed(s.Chan, "internalEventCh") {
				sends = append(sends, s)
			}
		})
		ok := len(sends) == 1
		why := ""
		if ok {
			s := sends[0]
			// exactly once: dominated by the work call, post-dominates it (no return avoiding it), not in a loop
			if an.InLoop(s.Block()) || !an.Dominates(work, s) || an.PathFromEntryAvoiding(g.Fn, an.IsExit, []ssa.Instruction{s}) {
				ok = false
				why = "the answer is not sent exactly once on every path"
			}
			// the event carries the work's error
			ev, isCall := an.Strip(s.X).(*ssa.Call)
			if !isCall || !strings.HasSuffix(an.CalleeName(&ev.Call), "common/event.NewTasksStateChangedEvent") || len(ev.Call.Args) != 3 || ev.Call.Args[2] != ssa.Value(work) {
				ok = false
				why = "the answer does not carry the error returned by " + name
			}
		} else {
			why = fmt.Sprintf("%d sends of the answer", len(sends))
		}
		c.Ob("(*core/task.Manager).handleMessage[go "+name+"]|one-answer-with-error", g.Go.Pos(), ok, "the goroutine must answer exactly once with NewTasksStateChangedEvent(env, ids, <error of %s>) %s", name, why)
	}
}

func r02e(c *an.Ctx) {
	c.Rule("R02e", "configureTasks / transitionTasks: per-target errors enter the returned error only under the Critical trait; every error return after the reply is classified", 2)
	var sets [2]map[string]bool
	for i, name := range []string{"Manager.configureTasks", "Manager.transitionTasks"} {
		fn := c.MustFn("core/task", name)
		if fn == nil {
			continue
		}
		c.Subject()
		key := "(*core/task." + strings.Replace(name, ".", ").", 1)
		sets[i] = map[string]bool{}
		// appends of strings inside the range over response.Errors()
		isCrit := func(v ssa.Value) bool { return isFieldNamed(v, "Critical") }
		critGuard := func(b *ssa.BasicBlock) bool {
			return an.GuardedByAll(b, func(a an.Atom) bool { return a.Y == nil && a.Val && isCrit(a.X) })
		}
		var critLists, otherLists []*ssa.Call
		for _, ci := range an.CallsNamed(fn, "builtin.append") {
			call := ci.(*ssa.Call)
			if call.Type().String() != "[]string" || !an.InLoop(call.Block()) {
				continue
			}
			if critGuard(call.Block()) {
				critLists = append(critLists, call)
			} else {
				otherLists = append(otherLists, call)
			}
		}
		// returns with non-nil error guarded by len(list) > 0: the list must be fed only by critical-guarded appends
		okRet, nRet := true, 0
		for _, ret := range an.Returns(fn) {
			rv := an.RetVal(ret, 0)
			if an.IsNilConst(rv) {
				continue
			}
			for _, a := range an.Atoms(ret.Block()) {
				if a.Y == nil {
					continue
				}
				call, ok := a.X.(*ssa.Call)
				if !ok || an.CalleeName(&call.Call) != "builtin.len" || call.Call.Args[0].Type().String() != "[]string" {
					continue
				}
				nRet++
				// which appends feed this list?
				for _, ap := range otherLists {
					if feeds(ap, call.Call.Args[0]) {
						okRet = false
						c.Ob(key+"|noncritical-error-returned", ret.Pos(), false, "an error is returned because of a list that also collects failures of non-critical tasks")
					}
				}
				fed := false
				for _, ap := range critLists {
					if feeds(ap, call.Call.Args[0]) {
						fed = true
					}
				}
				if !fed {
					okRet = false
				}
			}
		}
		// the task whose trait classifies a failed target is the roster's task with the id carried by the error key
		// (ids are stable; agent and executor ids of a task change or are blanked when its executor or agent is lost)
		byId, nSubj := true, 0
		an.Instrs(fn, func(in ssa.Instruction) {
			call, isCall := in.(*ssa.Call)
			if !isCall || !an.InLoop(call.Block()) {
				return
			}
			if n := an.MethodName(&call.Call); n != "GetTraits" && n != "GetTaskTraits" {
				return
			}
			// walk from the receiver to the lookup that produced the task
			recv := an.Strip(an.Args(&call.Call)[0])
			for d := 0; d < 4; d++ {
				if ld, isLd := recv.(*ssa.UnOp); isLd && ld.Op == token.MUL {
					if fa, isFA := ld.X.(*ssa.FieldAddr); isFA { // task.parent
						recv = an.Strip(fa.X)
						continue
					}
				}
				break
			}
			nSubj++
			lk, isLk := recv.(*ssa.Call)
			if !isLk {
				if ex, isEx := recv.(*ssa.Extract); isEx {
					lk, isLk = ex.Tuple.(*ssa.Call)
				}
			}
			okLk := false
			if isLk {
				if n := an.MethodName(&lk.Call); n == "GetTask" || n == "getByTaskId" {
					for _, a := range an.Args(&lk.Call)[1:] {
						for _, l := range an.BackSlice(a, an.SliceOpts{}) {
							if strings.Contains(l.Path, "TaskId") || strings.Contains(l.Path, "TaskID") {
								okLk = true
							}
						}
						if !okLk && (strings.Contains(an.ExprKey(a), "TaskId") || strings.Contains(an.ExprKey(a), "TaskID")) {
							okLk = true
						}
					}
				}
			}
			if !okLk {
				byId = false
			}
		})
		c.Ob(key+"|classified-by-task-id", fn.Pos(), byId && nSubj > 0,
			"the task whose Critical trait decides whether a failed target fails the transition must be looked up in the roster by the task id of the error key (%d trait reads inspected): matching by the whole command target misses a critical task whose executor or agent id changed or was blanked while the command was in flight, and its failure is then treated as non-critical", nSubj)
		sets[i]["critical-appends"] = len(critLists) >= 1
		sets[i]["classified-return"] = okRet && nRet >= 1
		c.Ob(key+"|critical-classification", fn.Pos(), len(critLists) >= 1 && okRet && nRet >= 1,
			"per-target errors reach the returned error only through a list guarded by the task's (or its role's) Critical trait (%d critical-guarded appends, %d other appends, %d classified returns)", len(critLists), len(otherLists), nRet)
		// single-target branch: an error return whose value derives from response.Err() without any Critical test
		for _, ret := range an.Returns(fn) {
			rv := an.RetVal(ret, 0)
			if an.IsNilConst(rv) {
				continue
			}
			fromErr := false
			for _, l := range an.BackSlice(rv, an.SliceOpts{LeafCall: func(n string, cl *ssa.Call) bool { return an.MethodName(&cl.Call) == "Err" && cl.Call.IsInvoke() }}) {
				if l.Kind == "call" {
					fromErr = true
				}
			}
			if !fromErr {
				continue
			}
			classified := false
			for _, a := range an.Atoms(ret.Block()) {
				if a.Y == nil && isCrit(a.X) {
					classified = true
				}
			}
			c.Ob(key+"|single-target-unclassified", ret.Pos(), classified,
				"when the command had exactly one target the reply is not a multi-response and its error is returned without consulting the Critical trait: the failure of a lone non-critical task fails the transition")
		}
	}
	if sets[0] != nil && sets[1] != nil {
		same := true
		for k, v := range sets[0] {
			if sets[1][k] != v {
				same = false
			}
		}
		c.Ob("configureTasks~transitionTasks|siblings-agree", token.NoPos, same, "the two sibling functions must discharge the same classification obligations")
	}
}

// feeds: append call ap contributes to slice value v (through phis).
func feeds(ap *ssa.Call, v ssa.Value) bool {
	seen := map[ssa.Value]bool{}
	var walk func(x ssa.Value) bool
	walk = func(x ssa.Value) bool {
		if x == nil || seen[x] {
			return false
		}
		seen[x] = true
		if x == ssa.Value(ap) {
			return true
		}
		switch y := x.(type) {
		case *ssa.Phi:
			for _, e := range y.Edges {
				if walk(e) {
					return true
				}
			}
		case *ssa.Call:
			if an.CalleeName(&y.Call) == "builtin.append" {
				return walk(y.Call.Args[0])
			}
		}
		return false
	}
	return walk(v)
}

func r02f(c *an.Ctx) {
	c.Rule("R02f", "DEPLOY: the wait loop is left without error only on status ACTIVE; success is reported only with err == nil", 1)
	fn := c.MustFn("core/environment", "DeployTransition.do")
	if fn == nil {
		return
	}
	c.Subject()
	key := "core/environment.DeployTransition.do"
	active := lookupConstInt(c, "github.com/AliceO2Group/Control/core/task", "ACTIVE")
	if active == nil {
		c.Lost("constant core/task.ACTIVE")
		return
	}
	isActiveAtom := func(a an.Atom) bool {
		if a.Op != token.EQL || a.Y == nil {
			return false
		}
		for _, v := range []ssa.Value{a.X, a.Y} {
			if cst, ok := v.(*ssa.Const); ok && cst.Value != nil && strings.HasSuffix(cst.Type().String(), "task.Status") {
				if k, ok := an.Int64Of(cst.Value); ok && k == *active {
					return true
				}
			}
		}
		return false
	}
	// success = the send of the DEPLOYED environment event / the final nil return. Find the error test guarding it.
	var okRet *ssa.Return
	for _, ret := range an.Returns(fn) {
		for _, a := range an.Atoms(ret.Block()) {
			if a.Op == token.EQL && a.Y != nil && an.IsNilConst(a.Y) && a.X.Type().String() == "error" {
				okRet = ret
			}
		}
	}
	if okRet == nil {
		c.Ob(key+"|success-requires-nil-error", fn.Pos(), false, "the success exit of DEPLOY is not guarded by err == nil")
		return
	}
	c.Ob(key+"|success-requires-nil-error", okRet.Pos(), true, "DEPLOYED is reported only when err == nil")
	// the tested error value
	var tested ssa.Value
	for _, a := range an.Atoms(okRet.Block()) {
		if a.Op == token.EQL && a.Y != nil && an.IsNilConst(a.Y) && a.X.Type().String() == "error" {
			tested = a.X
		}
	}
	// cut every edge on which `status == ACTIVE` is established; on what remains, the error reaching the
	// success test must be non-nil by construction.
	type edge struct {
		b *ssa.BasicBlock
		i int
	}
	cutSet := map[edge]bool{}
	nActive := 0
	for _, b := range fn.Blocks {
		v, trueIdx, ok := an.BoolCondEdge(b)
		if !ok {
			continue
		}
		bo, ok := v.(*ssa.BinOp)
		if !ok {
			continue
		}
		if isActiveAtom(an.Atom{Op: token.EQL, X: bo.X, Y: bo.Y}) {
			switch bo.Op {
			case token.EQL:
				cutSet[edge{b, trueIdx}] = true
				nActive++
			case token.NEQ:
				cutSet[edge{b, 1 - trueIdx}] = true
				nActive++
			}
		}
	}
	cut := func(b *ssa.BasicBlock, i int) bool { return cutSet[edge{b, i}] }
	ld, isLoad := tested.(*ssa.UnOp)
	if !isLoad {
		c.Ob(key+"|loop-exit-requires-ACTIVE", okRet.Pos(), false, "unrecognised shape of the error value tested before the success exit (expected the named result cell)")
		return
	}
	stores, fromEntry := an.ReachingStoresCut(ld, cut)
	bad := 0
	for _, st := range stores {
		if !an.NonNil(st.Val) {
			bad++
			c.Ob(key+"|loop-exit-requires-ACTIVE", st.Pos(), false, "DEPLOY can reach its success test with a nil error (assigned here) on a path on which the workflow status was never found ACTIVE")
		}
	}
	if fromEntry {
		bad++
		c.Ob(key+"|loop-exit-requires-ACTIVE", fn.Pos(), false, "DEPLOY can reach its success test from entry without any error assignment and without the workflow status found ACTIVE")
	}
	if bad == 0 {
		c.Ob(key+"|loop-exit-requires-ACTIVE", okRet.Pos(), nActive >= 2 && len(stores) >= 2,
			"without a `status == ACTIVE` edge (%d such tests) the success test is only reached with errors that are non-nil by construction (%d assignments)", nActive, len(stores))
	}
}

func edgeHas(from, to *ssa.BasicBlock, pred func(an.Atom) bool) bool {
	for _, a := range an.EdgeAtoms(from, to) {
		if pred(a) {
			return true
		}
	}
	// `wfStatus != ACTIVE` false edge is EQL after negation; also accept NEQ false handled by negate()
	return false
}

func r02h(c *an.Ctx) {
	c.Rule("R02h", "the transition body's error cancels the FSM event", 1)
	fn := c.MustFn("core/environment", "Environment.handlerFunc")
	if fn == nil || len(fn.AnonFuncs) != 1 {
		if fn != nil {
			c.Lost("closure returned by Environment.handlerFunc")
		}
		return
	}
	cl := fn.AnonFuncs[0]
	c.Mark(cl)
	c.Subject()
	ok := false
	for _, ci := range an.Calls(cl, func(n string, ci ssa.CallInstruction) bool {
		return an.MethodName(ci.Common()) == "do" && ci.Common().IsInvoke()
	}) {
		call := ci.(*ssa.Call)
		cancelIn := map[*ssa.BasicBlock]bool{}
		for _, cn := range an.CallsNamed(cl, fsmCancel) {
			if cancelArgIs(cn, call) && an.KnownNonNil(cn.Block(), call) {
				ok = true
				cancelIn[cn.Block()] = true
			}
		}
		// and on every path: with a non-nil error no return is reached without passing a Cancel of that error
		fl := an.FlowFromFacts(call.Block(), func(b *ssa.BasicBlock, succ int) bool { return cancelIn[b] }, call)
		for _, r := range fl.ReachedReturns() {
			if !cancelIn[r.Block()] {
				ok = false
			}
		}
	}
	c.Ob("(*core/environment.Environment).handlerFunc[closure]|error-cancels-event", cl.Pos(), ok, "a non-nil error of transition.do must be passed to e.Cancel on every path (no return reachable with the error set and the event not cancelled) so that the FSM stays in the source state")
}

// R02k: DEPLOY succeeds iff every critical task became active *in time*: a critical task is declared UNDEPLOYABLE to
// its role (which aborts the DEPLOY at once) only when the deployment attempts are over, not after an attempt that
// will be retried.
func r02k(c *an.Ctx) {
	c.Rule("R02k", "acquireTasks: a role is told UNDEPLOYABLE only outside the loop of deployment attempts", 1)
	fn := c.MustFn("core/task", "Manager.acquireTasks")
	if fn == nil {
		return
	}
	und := lookupConstInt(c, load.ModulePath+"/core/task", "UNDEPLOYABLE")
	// the attempts loop: the outermost natural loop containing the hand-over of the deployment request to the scheduler
	var attempts map[*ssa.BasicBlock]bool
	an.Instrs(fn, func(in ssa.Instruction) {
		snd, ok := in.(*ssa.Send)
		if !ok || !strings.HasSuffix(snd.Chan.Type().String(), "ResourceOffersDeploymentRequest") {
			return
		}
		for _, h := range fn.Blocks {
			if body := an.NaturalLoop(h); body[snd.Block()] && len(body) > len(attempts) {
				attempts = body
			}
		}
	})
	if und == nil || attempts == nil {
		c.Lost("the UNDEPLOYABLE status constant or the deployment attempts loop of acquireTasks")
		return
	}
	c.Subject()
	var inside []string
	n := 0
	an.Instrs(fn, func(in ssa.Instruction) {
		call, ok := in.(ssa.CallInstruction)
		if !ok || an.MethodName(call.Common()) != "UpdateStatus" || len(call.Common().Args) == 0 {
			return
		}
		k, isK := call.Common().Args[len(call.Common().Args)-1].(*ssa.Const)
		if !isK || k.Value == nil {
			return
		}
		if v, exact := an.Int64Of(k.Value); !exact || v != *und {
			return
		}
		n++
		if attempts[in.Block()] {
			inside = append(inside, c.PosStr(in.Pos()))
		}
	})
	c.Ob("(*core/task.Manager).acquireTasks|undeployable-after-attempts", fn.Pos(), len(inside) == 0,
		"a role is told UNDEPLOYABLE at %v, inside the loop of deployment attempts (%d notification sites): the DEPLOY transition aborts on the first attempt that cannot place a critical task although a later attempt within the timeout would have placed it", inside, n)
}

package rules

import (
	"go/token"

	"verifchk/internal/an"

	"golang.org/x/tools/go/ssa"
)

func init() {
	register("C05", "Decides structural necessary conditions of constraint/resource-respecting placement: "+
		"(R05a) in Attributes.Satisfy a negative verdict can never flow back into the constraint loop (conjunction over all constraints); "+
		"further rules are listed under coverage.rules. Does not decide range arithmetic, float comparisons or Mesos' own behaviour.",
		runC05)
}

func runC05(c *an.Ctx) {
	r05a(c)
}

// R05a: verdict finality in constraint.Attributes.Satisfy.
func r05a(c *an.Ctx) {
	c.Rule("R05a", "Attributes.Satisfy: no edge into a loop header carries the constant false for the verdict; false is returnable from inside the loop", 1)
	fn := c.MustFn("core/task/constraint", "Attributes.Satisfy")
	if fn == nil {
		return
	}
	c.Subject()
	// phi closure of the returned verdict
	phis := map[*ssa.Phi]bool{}
	var visit func(v ssa.Value)
	visit = func(v ssa.Value) {
		if p, ok := v.(*ssa.Phi); ok && !phis[p] {
			phis[p] = true
			for _, e := range p.Edges {
				visit(e)
			}
		}
	}
	canReturnFalseFromLoop := false
	for _, r := range an.Returns(fn) {
		if len(r.Results) != 1 {
			continue
		}
		visit(r.Results[0])
	}
	bad := 0
	for p := range phis {
		b := p.Block()
		for i, pred := range b.Preds {
			isBack := b.Dominates(pred)
			cst, isConst := p.Edges[i].(*ssa.Const)
			isFalse := isConst && cst.Value != nil && cst.Value.String() == "false"
			if isBack && isFalse {
				bad++
				c.Ob("core/task/constraint.Attributes.Satisfy|verdict-phi|backedge-false", lastPos(pred), false,
					"negative verdict `false` flows back to the constraint loop header (edge b%d->b%d): a later constraint can overwrite it, so the last constraint decides alone", pred.Index, b.Index)
			}
			if !isBack && isFalse && afterLoopHeader(pred) {
				canReturnFalseFromLoop = true
			}
		}
	}
	// direct `return false` from inside a loop
	for _, r := range an.Returns(fn) {
		if len(r.Results) == 1 {
			if cst, ok := r.Results[0].(*ssa.Const); ok && cst.Value != nil && cst.Value.String() == "false" && afterLoopHeader(r.Block()) {
				canReturnFalseFromLoop = true
			}
		}
	}
	if bad == 0 {
		c.Ob("core/task/constraint.Attributes.Satisfy|verdict-phi|backedge-false", fn.Pos(), true, "no back edge carries a constant false verdict (%d phis inspected)", len(phis))
	}
	c.Ob("core/task/constraint.Attributes.Satisfy|false-leaves-loop", fn.Pos(), canReturnFalseFromLoop,
		"a false verdict must be able to leave the constraint loop towards a return")
}

// afterLoopHeader: b is reachable from (or is) a block that lies on a CFG cycle.
func afterLoopHeader(b *ssa.BasicBlock) bool {
	if an.InLoop(b) {
		return true
	}
	for _, x := range b.Parent().Blocks {
		if an.InLoop(x) && an.BlockReaches(x, b) {
			return true
		}
	}
	return false
}

func lastPos(b *ssa.BasicBlock) token.Pos {
	for i := len(b.Instrs) - 1; i >= 0; i-- {
		if p := b.Instrs[i].Pos(); p.IsValid() {
			return p
		}
	}
	return b.Parent().Pos()
}

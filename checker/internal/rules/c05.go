package rules

import (
	"fmt"
	"go/token"
	"go/types"
	"sort"
	"strings"

	"verifchk/internal/an"

	"golang.org/x/tools/go/ssa"
)

func init() {
	register("C05", "Decides structural necessary conditions of constraint/resource-respecting placement: "+
		"(R05a) in Attributes.Satisfy a negative verdict can never flow back into the constraint loop (conjunction over all constraints); "+
		"further rules are listed under coverage.rules. Does not decide range arithmetic, float comparisons or Mesos' own behaviour.",
		runC05)
}

func runC05(c *an.Ctx) {
	r05a(c)
	r05b(c)
	r05c(c)
	r05d(c)
	r05e(c)
	r05f(c)
	r05g(c)
	// round 7
	r05h(c)
	r05i(c)
	r05j(c)
	r05k(c)
	// round 8
	r05l(c)
	r05m(c)
	c.As(map[string]string{"R13f": "R05n"}, func() { r13f(c) })
	// round 9
	r05o(c)
	r05p(c)
	r05q(c)
}

// R05a: verdict finality in constraint.Attributes.Satisfy.
func r05a(c *an.Ctx) {
	c.Rule("R05a", "Attributes.Satisfy: no edge into a loop header carries the constant false for the verdict; false is returnable from inside the loop", 1)
	fn := c.MustFn("core/task/constraint", "Attributes.Satisfy")
	if fn == nil {
		return
	}
	c.Subject()
	// phi closure of the returned verdict
	phis := map[*ssa.Phi]bool{}
	var visit func(v ssa.Value)
	visit = func(v ssa.Value) {
		if p, ok := v.(*ssa.Phi); ok && !phis[p] {
			phis[p] = true
			for _, e := range p.Edges {
				visit(e)
			}
		}
	}
	canReturnFalseFromLoop := false
	for _, r := range an.Returns(fn) {
		if len(r.Results) != 1 {
			continue
		}
		visit(r.Results[0])
	}
	bad := 0
	for p := range phis {
		b := p.Block()
		for i, pred := range b.Preds {
			isBack := b.Dominates(pred)
			cst, isConst := p.Edges[i].(*ssa.Const)
			isFalse := isConst && cst.Value != nil && cst.Value.String() == "false"
			if !isConst {
				// a variable known to be false on this very edge (e.g. the ok of a failed lookup carried round by `continue`)
				alts := an.EdgeAlts(pred, b)
				isFalse = len(alts) > 0
				for _, alt := range alts {
					has := false
					for _, a := range alt {
						if a.Y == nil && a.Op == token.ILLEGAL && a.X == p.Edges[i] && !a.Val {
							has = true
						}
					}
					if !has {
						isFalse = false
					}
				}
			}
			if isBack && isFalse {
				bad++
				c.Ob("core/task/constraint.Attributes.Satisfy|verdict-phi|backedge-false", lastPos(pred), false,
					"a negative verdict (constant false, or a variable known false on that edge) flows back to the constraint loop header (edge b%d->b%d): a later constraint can overwrite it, so the last constraint decides alone", pred.Index, b.Index)
			}
			if !isBack && isFalse && afterLoopHeader(pred) {
				canReturnFalseFromLoop = true
			}
		}
	}
	// direct `return false` from inside a loop
	for _, r := range an.Returns(fn) {
		if len(r.Results) == 1 {
			if cst, ok := r.Results[0].(*ssa.Const); ok && cst.Value != nil && cst.Value.String() == "false" && afterLoopHeader(r.Block()) {
				canReturnFalseFromLoop = true
			}
		}
	}
	if bad == 0 {
		c.Ob("core/task/constraint.Attributes.Satisfy|verdict-phi|backedge-false", fn.Pos(), true, "no back edge carries a constant false verdict (%d phis inspected)", len(phis))
	}
	c.Ob("core/task/constraint.Attributes.Satisfy|false-leaves-loop", fn.Pos(), canReturnFalseFromLoop,
		"a false verdict must be able to leave the constraint loop towards a return")
}

// afterLoopHeader: b is reachable from (or is) a block that lies on a CFG cycle.
func afterLoopHeader(b *ssa.BasicBlock) bool {
	if an.InLoop(b) {
		return true
	}
	for _, x := range b.Parent().Blocks {
		if an.InLoop(x) && an.BlockReaches(x, b) {
			return true
		}
	}
	return false
}

func lastPos(b *ssa.BasicBlock) token.Pos {
	for i := len(b.Instrs) - 1; i >= 0; i-- {
		if p := b.Instrs[i].Pos(); p.IsValid() {
			return p
		}
	}
	return b.Parent().Pos()
}

func isNumericOrResources(t types.Type) bool {
	switch u := t.Underlying().(type) {
	case *types.Basic:
		return u.Info()&types.IsNumeric != 0
	case *types.Slice:
		return strings.HasSuffix(u.Elem().String(), "mesos-go/api/v1/lib.Resource")
	case *types.Pointer:
		return isNumericOrResources(u.Elem())
	case *types.Struct:
		if u.NumFields() == 0 {
			return false
		}
		for i := 0; i < u.NumFields(); i++ {
			b, ok := u.Field(i).Type().Underlying().(*types.Basic)
			if !ok || b.Info()&types.IsNumeric == 0 {
				return false
			}
		}
		return true
	}
	return false
}

// quantityLeaves: numeric (or []Resource) roots of the backward slice of v; calls of
// (Ranges).Min are leaves (an allocated port).
func quantityLeaves(v ssa.Value) map[string]an.Leaf {
	out := map[string]an.Leaf{}
	ls := an.BackSlice(v, an.SliceOpts{LeafCall: func(n string, _ *ssa.Call) bool {
		return strings.HasSuffix(n, "mesos-go/api/v1/lib.Ranges).Min")
	}})
	for _, l := range ls {
		switch l.Kind {
		case "field":
			t := l.Val.Type()
			if _, isAddr := l.Val.(*ssa.FieldAddr); isAddr {
				t = t.Underlying().(*types.Pointer).Elem()
			}
			if _, isAddr := l.Val.(*ssa.IndexAddr); isAddr {
				t = t.Underlying().(*types.Pointer).Elem()
			}
			if isNumericOrResources(t) {
				out["field:"+l.Path] = l
			}
		case "call":
			out[fmt.Sprintf("call:Min@%d", l.Val.Pos())] = l
		}
	}
	return out
}

// R05b: everything put into the Mesos resource request of a task is also subtracted from the
// remaining offer.
func r05b(c *an.Ctx) {
	c.Rule("R05b", "task builder: every quantity added to the resource request (Resources.Add/Add1) is also passed to Resources.Subtract on the remaining offer", 5)
	fn := c.MustFn("core/task", "makeTaskForMesosResources")
	if fn == nil {
		return
	}
	const resT = "mesos-go/api/v1/lib.Resources)."
	var reqArgs, subArgs []ssa.Value
	var remParam *ssa.Parameter
	for _, ci := range an.Calls(fn, func(n string, _ ssa.CallInstruction) bool { return strings.Contains(n, resT) }) {
		cc := ci.Common()
		recv := cc.Args[0]
		m := an.MethodName(cc)
		// is the receiver the spilled parameter (remaining offer) or a fresh local (request)?
		isParam := false
		if al, ok := recv.(*ssa.Alloc); ok {
			for _, r := range *al.Referrers() {
				if st, ok := r.(*ssa.Store); ok && st.Addr == al {
					if p, ok := st.Val.(*ssa.Parameter); ok {
						isParam = true
						remParam = p
					}
				}
			}
		}
		switch {
		case (m == "Add" || m == "Add1") && !isParam:
			reqArgs = append(reqArgs, cc.Args[1:]...)
		case (m == "Subtract" || m == "Subtract1") && isParam:
			subArgs = append(subArgs, cc.Args[1:]...)
		}
	}
	if len(reqArgs) == 0 || remParam == nil {
		c.Lost("resource request Add/Add1 calls or Subtract on the remaining-offer parameter in makeTaskForMesosResources")
		return
	}
	req := map[string]an.Leaf{}
	sub := map[string]an.Leaf{}
	for _, a := range reqArgs {
		for k, l := range quantityLeaves(a) {
			req[k] = l
		}
	}
	for _, a := range subArgs {
		for k, l := range quantityLeaves(a) {
			sub[k] = l
		}
	}
	keys := make([]string, 0, len(req))
	for k := range req {
		keys = append(keys, k)
	}
	sort.Strings(keys)
	minOrd := 0
	for _, k := range keys {
		l := req[k]
		c.Subject()
		_, ok := sub[k]
		name := k
		if l.Kind == "call" {
			minOrd++
			name = fmt.Sprintf("call:Ranges.Min#%d", minOrd)
		}
		if ok {
			c.Ob("core/task.makeTaskForMesosResources|"+name, l.Val.Pos(), true, "requested quantity is subtracted from the remaining offer")
		} else {
			c.Ob("core/task.makeTaskForMesosResources|"+name, l.Val.Pos(), false,
				"quantity %s is added to the task's resource request but never subtracted from the remaining offer: a second task matched on the same offer is checked against resources already promised", name)
		}
	}
}

// R05c: every call of the task builder is dominated by successful attribute and resource checks
// on the same offer / descriptor / wants / remaining resources.
func r05c(c *an.Ctx) {
	c.Rule("R05c", "every call of makeTaskForMesosResources is dominated by Attributes.Satisfy==true and Resources.Satisfy==true on the same offer, descriptor, wants and remaining resources", 2)
	sites := c.SitesOfFn(c.Fn("core/task", "makeTaskForMesosResources"))
	ord := 0
	for _, s := range sites {
		c.Subject()
		c.Mark(s.Fn)
		ord++
		args := s.Call.Common().Args
		if len(args) < 6 {
			c.Ob(fmt.Sprintf("call#%d|signature", ord), s.Call.Pos(), false, "unexpected signature of makeTaskForMesosResources (rule needs offer, descriptor, wants, remaining at positions 1,2,3,5)")
			continue
		}
		offer, desc, wants, remaining := args[1], args[2], args[3], args[5]
		blk := s.Call.Block()
		attrOK, resOK := false, false
		why := []string{}
		for _, ci := range an.Calls(s.Fn, func(n string, _ ssa.CallInstruction) bool { return strings.HasSuffix(n, ").Satisfy") }) {
			call, isCall := ci.(*ssa.Call)
			if !isCall || !an.Dominates(ci, s.Call) || !an.KnownTrue(blk, call) {
				continue
			}
			n := an.CalleeName(ci.Common())
			a := ci.Common().Args
			switch n {
			case "(core/task/constraint.Attributes).Satisfy":
				// receiver: offer.Attributes of the same offer; arg: constraints[descriptor]
				sameOffer := false
				if base := an.FieldBase(an.Strip(a[0])); base != nil && an.SameVar(base, offer) {
					sameOffer = true
				}
				sameDesc := false
				if lk, ok := an.Strip(a[1]).(*ssa.Lookup); ok && an.SameVar(lk.Index, desc) {
					sameDesc = true
				}
				if sameOffer && sameDesc {
					attrOK = true
				} else {
					why = append(why, fmt.Sprintf("Attributes.Satisfy at %s checks a different offer/descriptor (sameOffer=%v sameDescriptor=%v)", c.PosStr(ci.Pos()), sameOffer, sameDesc))
				}
			case "(core/task.Resources).Satisfy":
				if an.SameVar(a[0], remaining) && an.SameVar(a[1], wants) {
					resOK = true
				} else {
					why = append(why, fmt.Sprintf("Resources.Satisfy at %s checks different resources/wants", c.PosStr(ci.Pos())))
				}
			}
		}
		k := fmt.Sprintf("%s|makeTaskForMesosResources#%d", c.RelName(an.OutermostParent(s.Fn)), ord)
		c.Ob(k+"|attributes", s.Call.Pos(), attrOK, "task build must be dominated by a successful Attributes.Satisfy(constraints[descriptor]) on the same offer %s", strings.Join(why, "; "))
		c.Ob(k+"|resources", s.Call.Pos(), resOK, "task build must be dominated by a successful Resources(remaining).Satisfy(wants) on the same values %s", strings.Join(why, "; "))
	}
}

// R05d: port discipline in the task builder.
func r05d(c *an.Ctx) {
	c.Rule("R05d", "every port taken with Ranges.Min() comes from a fresh read of the remaining offer and is subtracted from it before any other port is taken", 2)
	fn := c.MustFn("core/task", "makeTaskForMesosResources")
	if fn == nil {
		return
	}
	isMin := func(n string) bool { return strings.HasSuffix(n, "mesos-go/api/v1/lib.Ranges).Min") }
	mins := an.Calls(fn, func(n string, _ ssa.CallInstruction) bool { return isMin(n) })
	subs := an.Calls(fn, func(n string, _ ssa.CallInstruction) bool {
		return strings.HasSuffix(n, "mesos-go/api/v1/lib.Resources).Subtract") || strings.HasSuffix(n, "mesos-go/api/v1/lib.Resources).Subtract1")
	})
	var remaining *ssa.Parameter
	for _, p := range fn.Params {
		if strings.HasSuffix(p.Type().String(), "mesos-go/api/v1/lib.Resources") {
			remaining = p
		}
	}
	if remaining == nil {
		c.Lost("remaining-offer parameter of type mesos.Resources in makeTaskForMesosResources")
		return
	}
	minInstrs := []ssa.Instruction{}
	for _, m := range mins {
		minInstrs = append(minInstrs, m)
	}
	for i, m := range mins {
		c.Subject()
		mc := m.(*ssa.Call)
		key := fmt.Sprintf("core/task.makeTaskForMesosResources|Ranges.Min#%d", i+1)
		// (0) receiver derives from resources.Ports(remaining...)
		var portsCall *ssa.Call
		recvLeaves := an.BackSlice(mc.Call.Args[0], an.SliceOpts{LeafCall: func(n string, _ *ssa.Call) bool {
			return strings.HasSuffix(n, "mesos-go/api/v1/lib/resources.Ports")
		}})
		for _, l := range recvLeaves {
			if l.Kind == "call" {
				pc := l.Val.(*ssa.Call)
				// its argument must be the remaining parameter
				for _, al := range an.BackSlice(pc.Call.Args[0], an.SliceOpts{}) {
					if al.Kind == "param" && al.Val == remaining {
						portsCall = pc
					}
				}
			}
		}
		c.Ob(key+"|from-remaining-offer", m.Pos(), portsCall != nil, "the port candidates must be read from the remaining-offer parameter via resources.Ports")
		// (1) a Subtract on remaining of this very port dominates... follows the Min on all paths before another Min
		var mySub ssa.Instruction
		for _, s := range subs {
			cc := s.Common()
			if al, ok := cc.Args[0].(*ssa.Alloc); !ok || an.SpilledParam(al) != remaining {
				continue
			}
			for _, a := range cc.Args[1:] {
				for _, l := range an.BackSlice(a, an.SliceOpts{LeafCall: func(n string, _ *ssa.Call) bool { return isMin(n) }}) {
					if l.Kind == "call" && l.Val == mc && an.Dominates(m, s) {
						mySub = s
					}
				}
			}
		}
		if mySub == nil {
			c.Ob(key+"|subtracted", m.Pos(), false, "the allocated port is never subtracted from the remaining offer: the next allocation can hand out the same port")
			continue
		}
		c.Ob(key+"|subtracted", m.Pos(), true, "port is subtracted at %s", c.PosStr(mySub.Pos()))
		// (2) no path from this Min to any Min (incl. itself via a back edge) avoiding the Subtract
		leak := false
		for _, other := range minInstrs {
			if an.CanReachAvoiding(m, other, []ssa.Instruction{mySub}) {
				leak = true
			}
		}
		c.Ob(key+"|subtract-before-next-min", m.Pos(), !leak, "another Min() is reachable from this one without passing its Subtract: two allocations can yield the same port")
		// (2b) nor to a return that hands a task back (the port is part of what that task requests)
		unsub := false
		for _, r := range an.Returns(fn) {
			if len(r.Results) == 0 || an.IsNilConst(r.Results[0]) {
				continue
			}
			if an.CanReachAvoiding(m, r, []ssa.Instruction{mySub}) {
				unsub = true
			}
		}
		c.Ob(key+"|subtract-before-task-returned", m.Pos(), !unsub, "a task can be returned from this allocation without the port having been subtracted from the remaining offer (the Subtract is conditional): the next task built on the same offer is given the same port")
		// (3) after the subtract, the next Min must re-read the offer: every path Subtract -> Min' passes Min's own Ports call
		if portsCall != nil {
			stale := an.CanReachAvoiding(mySub, m, []ssa.Instruction{portsCall})
			c.Ob(key+"|fresh-read", m.Pos(), !stale, "this Min() can be reached again after a Subtract without re-reading the remaining offer (stale candidate set)")
		}
	}
}

// R05e: override direction of constraint merging.
func r05e(c *an.Ctx) {
	c.Rule("R05e", "Constraints.MergeParent: receiver is the nearer definition, argument the farther; inside, receiver entries override", 4)
	classify := func(v ssa.Value) string {
		ls := an.BackSlice(v, an.SliceOpts{LeafCall: func(n string, _ *ssa.Call) bool {
			return strings.HasSuffix(n, ").getConstraints") || strings.HasSuffix(n, ").GetParentRole")
		}})
		own, parent := false, false
		for _, l := range ls {
			switch {
			case (l.Kind == "field" || l.Kind == "via") && (strings.HasSuffix(l.Path, "Descriptor.RoleConstraints") || strings.HasSuffix(l.Path, "roleBase.Constraints")):
				own = true
			case (l.Kind == "field" || l.Kind == "via") && strings.HasSuffix(l.Path, "Class.Constraints"):
				parent = true
			case l.Kind == "call":
				parent = true
			}
		}
		switch {
		case own && !parent:
			return "near"
		case parent && !own:
			return "far"
		case own && parent:
			return "mixed"
		}
		return "unknown"
	}
	for i, s := range c.SitesNamed("(core/task/constraint.Constraints).MergeParent") {
		c.Mark(s.Fn)
		a := s.Call.Common().Args
		r, p := classify(a[0]), classify(a[1])
		key := fmt.Sprintf("%s|MergeParent#%d", c.RelName(an.OutermostParent(s.Fn)), i+1)
		if r == "unknown" || p == "unknown" || r == "mixed" || p == "mixed" {
			c.Assume(fmt.Sprintf("R05e: MergeParent site at %s has operands of unclassified provenance (%s,%s); not decided", c.PosStr(s.Call.Pos()), r, p))
			continue
		}
		c.Subject()
		c.Ob(key, s.Call.Pos(), r == "near" && p == "far", "receiver=%s argument=%s: the nearer constraints must be the receiver (they override), the farther ones the argument", r, p)
	}
	// body: entries written into the result inside a loop derive from the receiver
	fn := c.MustFn("core/task/constraint", "Constraints.MergeParent")
	if fn == nil || len(fn.Params) != 2 {
		return
	}
	c.Subject()
	recv, par := fn.Params[0], fn.Params[1]
	okOverride, bad := false, false
	an.Instrs(fn, func(in ssa.Instruction) {
		st, ok := in.(*ssa.Store)
		if !ok {
			return
		}
		if _, isIdx := st.Addr.(*ssa.IndexAddr); !isIdx || !an.InLoop(st.Block()) {
			return
		}
		fromRecv, fromPar := false, false
		for _, l := range an.BackSlice(st.Val, an.SliceOpts{}) {
			if l.Kind == "param" && l.Val == recv {
				fromRecv = true
			}
			if l.Kind == "param" && l.Val == par {
				fromPar = true
			}
		}
		// varargs array stores for append are IndexAddr on a fresh [1]T alloc: also fine to classify
		if fromRecv && !fromPar {
			okOverride = true
		}
		if fromPar && !fromRecv {
			bad = true
		}
	})
	// the merged result is a fresh allocation: no element store goes through a slice that aliases a parameter
	alias := false
	var aliasPos token.Pos
	var rootIsParam func(v ssa.Value, depth int) bool
	rootIsParam = func(v ssa.Value, depth int) bool {
		if depth > 10 {
			return false
		}
		switch x := v.(type) {
		case *ssa.Parameter:
			return true
		case *ssa.Slice:
			return rootIsParam(x.X, depth+1)
		case *ssa.Phi:
			for _, e := range x.Edges {
				if e != ssa.Value(x) && rootIsParam(e, depth+1) {
					return true
				}
			}
		case *ssa.Call:
			if an.CalleeName(&x.Call) == "builtin.append" {
				// append may return its first operand's backing array
				return rootIsParam(x.Call.Args[0], depth+1)
			}
		case *ssa.ChangeType:
			return rootIsParam(x.X, depth+1)
		}
		return false
	}
	an.Instrs(fn, func(in ssa.Instruction) {
		if st, ok := in.(*ssa.Store); ok {
			if ia, isIA := st.Addr.(*ssa.IndexAddr); isIA && rootIsParam(ia.X, 0) {
				alias = true
				aliasPos = st.Pos()
			}
		}
	})
	c.Subject()
	c.Ob("core/task/constraint.Constraints.MergeParent|result-does-not-alias-operands", aliasPos, !alias,
		"MergeParent writes an element through a slice that shares its backing array with one of its operands: the override is written into the caller's constraints (e.g. the cached task class), so later descriptors of that class are matched against another role's value")
	c.Ob("core/task/constraint.Constraints.MergeParent|override-from-receiver", fn.Pos(), okOverride && !bad,
		"inside the merge loop, entries written into the merged result must come from the receiver (nearer) only (fromReceiver=%v, fromParentOnly=%v)", okOverride, bad)
	r05eRole(c)
}

// R05f: unused offers are declined.
func r05f(c *an.Ctx) {
	c.Rule("R05f", "the decline set starts with every offer, is reduced only by the task builder, and is sent unconditionally (modulo emptiness)", 2)
	fn := c.MustFn("core/task", "schedulerState.resourceOffers")
	if fn == nil {
		return
	}
	isDeclineMap := func(t types.Type) bool {
		m, ok := t.Underlying().(*types.Map)
		if !ok || !strings.HasSuffix(m.Key().String(), "mesos-go/api/v1/lib.OfferID") {
			return false
		}
		st, ok := m.Elem().Underlying().(*types.Struct)
		return ok && st.NumFields() == 0
	}
	// (a) who deletes from a map keyed by OfferID
	delOK := true
	nDel := 0
	for _, s := range c.SitesOf(func(n string) bool { return n == "builtin.delete" }) {
		if !isDeclineMap(s.Call.Common().Args[0].Type()) {
			continue
		}
		nDel++
		if s.Fn != c.Fn("core/task", "makeTaskForMesosResources") {
			delOK = false
			c.Ob("delete-from-decline-set|"+c.RelName(an.OutermostParent(s.Fn)), s.Call.Pos(), false, "an offer is removed from the decline set outside the task builder: an offer no task was built for may be left neither used nor declined")
		}
	}
	if nDel > 0 {
		c.Subject()
	}
	if delOK {
		c.Ob("delete-from-decline-set", fn.Pos(), nDel > 0, "offers leave the decline set only in makeTaskForMesosResources (%d delete sites)", nDel)
	}
	// (d) every offer is answered: the per-offer worker sends its ACCEPT (possibly empty) on every path - the task builder
	// removes an offer from the decline set before steps that can still fail, so only the ACCEPT hands such an offer back
	for _, f := range an.WithAnon(fn) {
		var sends []ssa.Instruction
		for _, ci := range an.CallsSuffix(f, "scheduler/calls.Accept") {
			acc, isCall := ci.(*ssa.Call)
			if !isCall {
				continue
			}
			for _, snd := range an.Calls(f, func(n string, _ ssa.CallInstruction) bool {
				return strings.HasSuffix(n, "scheduler/calls.CallNoData") || strings.HasSuffix(n, ").Call")
			}) {
				for _, a := range snd.Common().Args {
					if an.DerivesFrom(a, acc) {
						sends = append(sends, snd)
					}
				}
			}
		}
		if len(sends) == 0 {
			continue
		}
		c.Subject()
		c.Mark(f)
		bad := an.FirstExitAvoiding(f.Blocks[0].Instrs[0], sends)
		pos := f.Pos()
		if bad != nil {
			pos = bad.Pos()
		}
		c.Ob("core/task.(*schedulerState).resourceOffers[per-offer]|accept-always-sent", pos, bad == nil,
			"the per-offer worker can finish without sending its ACCEPT: an offer the task builder had already taken out of the decline set (then failed to build a task for) is neither accepted nor declined and its resources stay allocated to the framework")
	}
	// (b)+(c) in the handler closure(s)
	for _, f := range an.WithAnon(fn) {
		var mk *ssa.MakeMap
		an.Instrs(f, func(in ssa.Instruction) {
			if m, ok := in.(*ssa.MakeMap); ok && isDeclineMap(m.Type()) {
				mk = m
			}
		})
		if mk == nil {
			continue
		}
		c.Mark(f)
		c.Subject()
		// (b) filled in a loop from the offers
		filled := false
		for _, al := range an.MapAliases(mk) {
			for _, r := range *al.Referrers() {
				if mu, ok := r.(*ssa.MapUpdate); ok && an.InLoop(mu.Block()) {
					for _, l := range an.BackSlice(mu.Key, an.SliceOpts{}) {
						if strings.Contains(l.Path, "Offer") || strings.Contains(an.TypeShort(l.Val.Type()), "Offer") {
							filled = true
						}
					}
					// the fill loop must not be conditional on anything but its range
				}
			}
		}
		c.Ob("core/task.(*schedulerState).resourceOffers|decline-set-init", mk.Pos(), filled, "the decline set is initialised from every received offer")
		// (c) the Decline call
		var declCall *ssa.Call
		for _, ci := range an.CallsSuffix(f, "scheduler/calls.Decline") {
			declCall, _ = ci.(*ssa.Call)
		}
		if declCall == nil {
			c.Ob("core/task.(*schedulerState).resourceOffers|decline-sent", mk.Pos(), false, "no calls.Decline built from the decline set")
			continue
		}
		fromSet := false
		for _, l := range an.BackSlice(declCall.Call.Args[0], an.SliceOpts{}) {
			if l.Val == ssa.Value(mk) {
				fromSet = true
			}
		}
		// MakeMap is traversed, not a leaf; check syntactically that a Range over the map feeds the slice
		if !fromSet {
			for _, al := range an.MapAliases(mk) {
				for _, r := range *al.Referrers() {
					if _, ok := r.(*ssa.Range); ok {
						fromSet = true
					}
				}
			}
		}
		c.Ob("core/task.(*schedulerState).resourceOffers|decline-from-set", declCall.Pos(), fromSet, "the DECLINE call is built from the decline set")
		// find the send of that call
		var send ssa.CallInstruction
		for _, ci := range an.CallsSuffix(f, "scheduler/calls.CallNoData") {
			for _, l := range an.BackSlice(ci.Common().Args[2], an.SliceOpts{LeafCall: func(n string, cl *ssa.Call) bool { return cl == declCall }}) {
				if l.Kind == "call" && l.Val == ssa.Value(declCall) {
					send = ci
				}
			}
		}
		if send == nil {
			c.Ob("core/task.(*schedulerState).resourceOffers|decline-sent", declCall.Pos(), false, "the DECLINE call is never sent")
			continue
		}
		// guards: only emptiness of the decline set
		extra := []string{}
		for _, a := range an.Atoms(send.Block()) {
			if isLenOfMapCmp(a, mk) {
				continue
			}
			extra = append(extra, fmt.Sprintf("%s: %v %s %v (=%v)", c.PosStr(atomPos(a)), a.X, a.Op, a.Y, a.Val))
		}
		c.Ob("core/task.(*schedulerState).resourceOffers|decline-sent", send.Pos(), len(extra) == 0,
			"sending DECLINE may depend only on the decline set being non-empty; extra conditions at %v", extra)
	}
}

func atomPos(a an.Atom) token.Pos {
	if in, ok := a.X.(ssa.Instruction); ok {
		return in.Pos()
	}
	return token.NoPos
}

// isLenOfMapCmp: atom is len(<alias of mk>) >/!= 0.
func isLenOfMapCmp(a an.Atom, mk *ssa.MakeMap) bool {
	if a.Y == nil {
		return false
	}
	isLen := func(v ssa.Value) bool {
		// through phi-free copies: `n := len(m)`
		call, ok := v.(*ssa.Call)
		if !ok || an.CalleeName(&call.Call) != "builtin.len" {
			return false
		}
		for _, al := range an.MapAliases(mk) {
			if call.Call.Args[0] == al {
				return true
			}
		}
		return false
	}
	zero := func(v ssa.Value) bool { i, ok := an.ConstInt(v); return ok && i == 0 }
	switch a.Op {
	case token.GTR, token.NEQ:
		return isLen(a.X) && zero(a.Y)
	case token.LSS:
		return isLen(a.Y) && zero(a.X)
	}
	return false
}

// r05eRole: workflow roles merge their own constraints over the parent's.
func r05eRole(c *an.Ctx) {
	fn := c.MustFn("core/workflow", "roleBase.getConstraints")
	if fn == nil {
		return
	}
	for _, ci := range an.CallsNamed(fn, "(core/task/constraint.Constraints).MergeParent") {
		c.Subject()
		a := ci.Common().Args
		// receiver: derives from r.Constraints (own field of the receiver); argument: result of getConstraints on the parent role
		own := false
		for _, l := range an.BackSlice(a[0], an.SliceOpts{LeafCall: func(n string, _ *ssa.Call) bool { return strings.HasSuffix(n, ").getConstraints") }}) {
			if (l.Kind == "field" || l.Kind == "via") && strings.HasSuffix(l.Path, "roleBase.Constraints") {
				own = true
			}
			if l.Kind == "call" {
				own = false
				break
			}
		}
		par := false
		for _, l := range an.BackSlice(a[1], an.SliceOpts{LeafCall: func(n string, _ *ssa.Call) bool { return strings.HasSuffix(n, ").GetParentRole") }}) {
			if l.Kind == "call" {
				par = true
			}
			if (l.Kind == "field" || l.Kind == "via") && strings.HasSuffix(l.Path, "roleBase.Constraints") {
				par = false
				break
			}
		}
		c.Ob("core/workflow.(*roleBase).getConstraints|MergeParent", ci.Pos(), own && par,
			"the role's own constraints must be the receiver and the parent role's the argument (own-as-receiver=%v parent-as-argument=%v)", own, par)
	}
}

// R05g: the resource demands computed for a descriptor come from that descriptor. One dynamic port is requested
// per inbound TCP channel of the role's bind list merged with the class's; a Wants object obtained in any
// other way (remembered from another descriptor of the same class, say) asks for another role's ports.
func r05g(c *an.Ctx) {
	c.Rule("R05g", "GetWantsForDescriptor: every Wants it returns is computed from the descriptor's own bind list", 1)
	fn := c.MustFn("core/task", "Manager.GetWantsForDescriptor")
	if fn == nil {
		return
	}
	c.Subject()
	var resolve func(v ssa.Value, depth int) []ssa.Value
	resolve = func(v ssa.Value, depth int) []ssa.Value {
		if depth > 5 {
			return []ssa.Value{v}
		}
		switch x := v.(type) {
		case *ssa.Phi:
			var out []ssa.Value
			for _, e := range x.Edges {
				out = append(out, resolve(e, depth+1)...)
			}
			return out
		case *ssa.UnOp:
			if al, ok := x.X.(*ssa.Alloc); ok && x.Op == token.MUL {
				if _, isPtr := al.Type().Underlying().(*types.Pointer).Elem().Underlying().(*types.Pointer); isPtr {
					var out []ssa.Value
					for _, st := range an.ReachingStores(x) {
						out = append(out, resolve(st.Val, depth+1)...)
					}
					return out
				}
			}
		}
		return []ssa.Value{v}
	}
	var bad []string
	n := 0
	for _, r := range an.Returns(fn) {
		if len(r.Results) == 0 {
			continue
		}
		for _, v := range resolve(r.Results[0], 0) {
			if an.IsNilConst(v) {
				continue
			}
			n++
			has := false
			for _, l := range an.BackSlice(v, an.SliceOpts{}) {
				if l.Kind == "field" && strings.HasSuffix(l.Path, "Descriptor.RoleBind") {
					has = true
				}
			}
			if !has {
				bad = append(bad, c.PosStr(lastPos(r.Block())))
			}
		}
	}
	sort.Strings(bad)
	c.Ob("(*core/task.Manager).GetWantsForDescriptor|wants-from-this-descriptor", fn.Pos(), len(bad) == 0 && n > 0,
		"a Wants returned at %v is not computed from the descriptor's RoleBind (%d returned values examined): the inbound channels - and with them the number of dynamic ports asked of the offer and allocated - are those of whichever descriptor was seen first", bad, n)
}

package rules

import (
	"go/constant"
	"go/token"
	"go/types"
	"strings"

	"verifchk/internal/an"

	"golang.org/x/tools/go/ssa"
)

// Shared helpers for the rules about core/task.(*Manager).doKillTasks (C04 R04g, C06 R06e).

func isTasksType(v ssa.Value) bool {
	return strings.HasSuffix(v.Type().String(), "core/task.Tasks")
}

// fromTasksParam: v (a value of the function that owns the kill list) derives from a parameter of
// type Tasks, possibly narrowed by Tasks.Filtered.
func fromTasksParam(v ssa.Value, seen map[ssa.Value]bool) bool {
	if v == nil || seen[v] {
		return false
	}
	seen[v] = true
	switch x := v.(type) {
	case *ssa.Parameter:
		return isTasksType(x)
	case *ssa.Phi:
		for _, e := range x.Edges {
			if !fromTasksParam(e, seen) {
				return false
			}
		}
		return len(x.Edges) > 0
	case *ssa.Call:
		if an.CalleeName(&x.Call) == "(core/task.Tasks).Filtered" {
			return fromTasksParam(x.Call.Args[0], seen)
		}
	case *ssa.ChangeType:
		return fromTasksParam(x.X, seen)
	case *ssa.UnOp:
		if x.Op == token.MUL {
			if al, ok := x.X.(*ssa.Alloc); ok && al.Referrers() != nil {
				n := 0
				for _, r := range *al.Referrers() {
					if st, ok := r.(*ssa.Store); ok && st.Addr == ssa.Value(al) {
						n++
						if !fromTasksParam(st.Val, seen) {
							return false
						}
					}
				}
				return n > 0
			}
		}
	}
	return false
}

// closureValueInParent resolves a value used inside closure fn (created by mc in its parent) to
// the parent's value when it is (a load of) a captured variable.
func closureValueInParent(mc *ssa.MakeClosure, v ssa.Value) ssa.Value {
	if u, ok := v.(*ssa.UnOp); ok && u.Op == token.MUL {
		if fv, ok := u.X.(*ssa.FreeVar); ok {
			if b := an.Binding(mc, fv); b != nil {
				if al, ok := b.(*ssa.Alloc); ok {
					// synthesise "load of the cell": look at its stores
					return &ssa.UnOp{Op: token.MUL, X: al}
				}
				return b
			}
		}
	}
	if fv, ok := v.(*ssa.FreeVar); ok {
		return an.Binding(mc, fv)
	}
	return nil
}

// taskIdentity: v names the identity of a task: its taskId field, GetTaskId(), or the *Task itself.
func taskIdentity(v ssa.Value) bool {
	v = an.Strip(v)
	if f := an.FieldOf(v); f != nil && f.Name() == "taskId" {
		return true
	}
	if call, ok := v.(*ssa.Call); ok && an.MethodName(&call.Call) == "GetTaskId" {
		return true
	}
	return strings.HasSuffix(v.Type().String(), "core/task.Task") && strings.HasPrefix(v.Type().String(), "*")
}

// identityMatcher: closure fn returns `a == b` over task identities and nothing else.
func identityMatcher(fn *ssa.Function) bool {
	rets := an.Returns(fn)
	if len(rets) == 0 {
		return false
	}
	for _, r := range rets {
		if len(r.Results) != 1 {
			return false
		}
		bo, ok := an.RetVal(r, 0).(*ssa.BinOp)
		if !ok || bo.Op != token.EQL || !taskIdentity(bo.X) || !taskIdentity(bo.Y) {
			return false
		}
	}
	return true
}

// memberOfKillList: inside filter closure pred (created by mc in the function owning the kill
// list), boolean value v is the test "this roster task is a member of the kill list".
func memberOfKillList(mc *ssa.MakeClosure, v ssa.Value) bool {
	switch x := v.(type) {
	case *ssa.Call:
		if an.CalleeName(&x.Call) != "(core/task.Tasks).Contains" || len(x.Call.Args) != 2 {
			return false
		}
		recv := closureValueInParent(mc, x.Call.Args[0])
		if recv == nil || !fromTasksParam(recv, map[ssa.Value]bool{}) {
			return false
		}
		inner := an.ClosureFn(x.Call.Args[1])
		return inner != nil && identityMatcher(inner)
	case *ssa.Extract:
		// _, ok := set[task.taskId] with set filled in the parent from the kill list's identities
		lk, ok := x.Tuple.(*ssa.Lookup)
		if !ok || !lk.CommaOk || x.Index != 1 || !taskIdentity(lk.Index) {
			return false
		}
		m := closureValueInParent(mc, lk.X)
		if m == nil {
			return false
		}
		var mk ssa.Value = m
		if u, ok := m.(*ssa.UnOp); ok {
			if al, ok := u.X.(*ssa.Alloc); ok && al.Referrers() != nil {
				for _, r := range *al.Referrers() {
					if st, ok := r.(*ssa.Store); ok && st.Addr == ssa.Value(al) {
						mk = st.Val
					}
				}
			}
		}
		if _, isMake := mk.(*ssa.MakeMap); !isMake || mk.Referrers() == nil {
			return false
		}
		// every insertion into the set (directly or through the cell) is keyed by the identity of an element of the kill list
		n := 0
		okAll := true
		an.Instrs(mc.Parent(), func(in ssa.Instruction) {
			mu, isMU := in.(*ssa.MapUpdate)
			if !isMU {
				return
			}
			mm := mu.Map
			if u, ok := mm.(*ssa.UnOp); ok {
				if al, ok := u.X.(*ssa.Alloc); ok {
					if mu2, ok := m.(*ssa.UnOp); ok && mu2.X == ssa.Value(al) {
						mm = mk
					}
				}
			}
			if mm != mk {
				return
			}
			n++
			if !(taskIdentity(mu.Key) && elemOfKillList(mu.Key)) && !elemOfKillListIds(mu.Key) {
				okAll = false
			}
		})
		return n > 0 && okAll
	}
	return false
}

// elemOfKillListIds: v is an element of the id list of the kill list: kill.GetTaskIds()[i].
func elemOfKillListIds(v ssa.Value) bool {
	seen := map[ssa.Value]bool{}
	var walk func(v ssa.Value) bool
	walk = func(v ssa.Value) bool {
		if v == nil || seen[v] {
			return false
		}
		seen[v] = true
		switch x := v.(type) {
		case *ssa.UnOp:
			if al, ok := x.X.(*ssa.Alloc); ok && al.Referrers() != nil {
				for _, r := range *al.Referrers() {
					if st, ok := r.(*ssa.Store); ok && st.Addr == ssa.Value(al) && walk(st.Val) {
						return true
					}
				}
				return false
			}
			return walk(x.X)
		case *ssa.IndexAddr:
			return walk(x.X)
		case *ssa.Phi:
			for _, e := range x.Edges {
				if !walk(e) {
					return false
				}
			}
			return len(x.Edges) > 0
		case *ssa.Call:
			if an.CalleeName(&x.Call) == "(core/task.Tasks).GetTaskIds" {
				return fromTasksParam(x.Call.Args[0], map[ssa.Value]bool{})
			}
		}
		return false
	}
	return walk(v)
}

// elemOfKillList: identity value v is read from an element of a slice deriving from the Tasks parameter.
func elemOfKillList(v ssa.Value) bool {
	seen := map[ssa.Value]bool{}
	var walk func(v ssa.Value) bool
	walk = func(v ssa.Value) bool {
		if v == nil || seen[v] {
			return false
		}
		seen[v] = true
		switch x := v.(type) {
		case *ssa.UnOp:
			return walk(x.X)
		case *ssa.FieldAddr:
			return walk(x.X)
		case *ssa.IndexAddr:
			return fromTasksParam(x.X, map[ssa.Value]bool{})
		case *ssa.Call:
			if len(x.Call.Args) > 0 {
				return walk(x.Call.Args[0])
			}
		case *ssa.Alloc:
			if x.Referrers() != nil {
				for _, r := range *x.Referrers() {
					if st, ok := r.(*ssa.Store); ok && st.Addr == ssa.Value(x) {
						if walk(st.Val) {
							return true
						}
					}
				}
			}
		}
		return false
	}
	return walk(v)
}

// filterFnOf: the filter function literal passed as argument 1 of roster.filtered / Tasks.Filtered
// (mc is nil when the literal captures nothing).
func filterFnOf(call *ssa.Call) (*ssa.Function, *ssa.MakeClosure) {
	if len(call.Call.Args) < 2 {
		return nil, nil
	}
	pick := func(v ssa.Value) (*ssa.Function, *ssa.MakeClosure) {
		switch x := v.(type) {
		case *ssa.MakeClosure:
			return x.Fn.(*ssa.Function), x
		case *ssa.Function:
			if x.Parent() != nil {
				return x, nil
			}
		}
		return nil, nil
	}
	if f, mc := pick(an.Strip(call.Call.Args[1])); f != nil {
		return f, mc
	}
	if ct, ok := call.Call.Args[1].(*ssa.ChangeType); ok {
		if f, mc := pick(ct.X); f != nil {
			return f, mc
		}
	}
	for _, l := range an.BackSlice(call.Call.Args[1], an.SliceOpts{}) {
		if l.Kind == "func" {
			if f, mc := pick(l.Val); f != nil {
				return f, mc
			}
		}
	}
	return nil, nil
}

// r04g: the roster shrinks only by members of the kill list.
func r04g(c *an.Ctx) {
	c.Rule("R04g", "the roster is only ever shrunk by the members of an explicit kill list (tasks selected by ownership filters): no other task disappears from it", 1)
	for _, s := range c.SitesNamed("(*core/task.roster).updateTasks") {
		c.Subject()
		c.Mark(s.Fn)
		name := c.RelName(an.OutermostParent(s.Fn))
		key := name + "|roster-replace"
		var filt *ssa.Call
		for _, l := range an.BackSlice(s.Call.Common().Args[1], an.SliceOpts{LeafCall: func(n string, _ *ssa.Call) bool { return n == "(*core/task.roster).filtered" }}) {
			if l.Kind == "call" {
				filt, _ = l.Val.(*ssa.Call)
			}
		}
		if filt == nil {
			c.Ob(key, s.Call.Pos(), false, "the roster is replaced by a list that is not roster.filtered(<closure>): which tasks disappear cannot be decided")
			continue
		}
		pred, mc := filterFnOf(filt)
		if pred == nil || mc == nil {
			c.Ob(key, s.Call.Pos(), false, "the filter of the replacing list is not a closure literal over the kill list: which tasks disappear cannot be decided")
			continue
		}
		c.Mark(pred)
		tests := 0
		bad := an.BoolOnlyIf(pred, false, func(v ssa.Value) (bool, bool) {
			if memberOfKillList(mc, v) {
				tests++
				return true, true
			}
			return false, false
		})
		pos := s.Call.Pos()
		if len(bad) > 0 {
			pos = bad[0].Pos()
		}
		c.Ob(key, pos, len(bad) == 0 && tests > 0, "the filter that rebuilds the roster can drop a task that is not a member of the kill list passed to this function (membership = Tasks.Contains/ set lookup by task identity on a list derived from the Tasks parameter): a task owned by another environment disappears from the roster, its updates are dropped and the next reconciliation kills it")
	}
}

// r06e: doKillTasks asks every ACTIVE member of its list to terminate.
func r06e(c *an.Ctx) {
	c.Rule("R06e", "doKillTasks: every ACTIVE task of the list is sent a KILL (the loop has no early exit and skips only non-ACTIVE tasks); a task whose KILL failed goes back to the roster", 1)
	fn := c.MustFn("core/task", "Manager.doKillTasks")
	if fn == nil {
		return
	}
	kills := an.CallsNamed(fn, "(*core/task.Manager).doKillTask")
	if len(kills) == 0 {
		c.Lost("call of doKillTask in doKillTasks")
		return
	}
	for _, k := range kills {
		kc, ok := k.(*ssa.Call)
		if !ok {
			continue
		}
		c.Subject()
		key := "(*core/task.Manager).doKillTasks|kill-loop"
		h, body := an.EnclosingLoop(kc.Block())
		if h == nil {
			c.Ob(key+"|exhaustive", kc.Pos(), false, "the KILL is not sent from a loop over the list")
			continue
		}
		early := an.EarlyExits(h, body)
		pos := kc.Pos()
		if len(early) > 0 {
			last := early[0].From.Instrs[len(early[0].From.Instrs)-1]
			if last.Pos().IsValid() {
				pos = last.Pos()
			} else {
				for _, in := range early[0].From.Instrs {
					if in.Pos().IsValid() {
						pos = in.Pos()
					}
				}
			}
		}
		c.Ob(key+"|exhaustive", pos, len(early) == 0, "the kill loop can be left before the list is exhausted: the remaining tasks were already removed from the roster, are never sent a KILL and can no longer be found")
		// the ranged list: derives from the Tasks parameter, narrowed only by status != ACTIVE
		okRange, why := false, "the killed task is not an element of a list derived from the Tasks parameter"
		var ia *ssa.IndexAddr
		var find func(v ssa.Value, d int)
		find = func(v ssa.Value, d int) {
			if d > 6 || ia != nil {
				return
			}
			switch x := v.(type) {
			case *ssa.UnOp:
				if al, ok := x.X.(*ssa.Alloc); ok && al.Referrers() != nil {
					for _, r := range *al.Referrers() {
						if st, ok := r.(*ssa.Store); ok && st.Addr == ssa.Value(al) {
							find(st.Val, d+1)
						}
					}
					return
				}
				find(x.X, d+1)
			case *ssa.IndexAddr:
				ia = x
			case *ssa.Phi:
				for _, e := range x.Edges {
					find(e, d+1)
				}
			}
		}
		find(kc.Call.Args[1], 0)
		if ia != nil {
			if fromTasksParam(ia.X, map[ssa.Value]bool{}) {
				okRange, why = true, ""
				// narrowing filters drop only non-ACTIVE tasks
				var chk func(v ssa.Value, d int)
				chk = func(v ssa.Value, d int) {
					if d > 6 {
						return
					}
					switch x := v.(type) {
					case *ssa.Call:
						if an.CalleeName(&x.Call) == "(core/task.Tasks).Filtered" {
							if f, _ := filterFnOf(x); f != nil {
								c.Mark(f)
								bad := an.BoolOnlyIf(f, false, func(v ssa.Value) (bool, bool) {
									if bo, ok := v.(*ssa.BinOp); ok && (bo.Op == token.EQL || bo.Op == token.NEQ) {
										for _, pair := range [][2]ssa.Value{{bo.X, bo.Y}, {bo.Y, bo.X}} {
											if f := an.FieldOf(pair[0]); f != nil && f.Name() == "status" {
												if cst, ok := pair[1].(*ssa.Const); ok && cst.Value != nil && isActiveConst(c, cst) {
													// P = "task is not ACTIVE"
													return true, bo.Op == token.NEQ
												}
											}
										}
									}
									return false, false
								})
								if len(bad) > 0 {
									okRange, why = false, "the list that is killed is narrowed by a filter that can drop an ACTIVE task"
								}
							} else {
								okRange, why = false, "the narrowing filter is not a closure literal"
							}
							chk(x.Call.Args[0], d+1)
						}
					case *ssa.UnOp:
						if al, ok := x.X.(*ssa.Alloc); ok && al.Referrers() != nil {
							for _, r := range *al.Referrers() {
								if st, ok := r.(*ssa.Store); ok && st.Addr == ssa.Value(al) {
									chk(st.Val, d+1)
								}
							}
						}
					case *ssa.Phi:
						for _, e := range x.Edges {
							chk(e, d+1)
						}
					}
				}
				chk(ia.X, 0)
			}
		}
		c.Ob(key+"|covers-active", kc.Pos(), okRange, "every ACTIVE task of the list passed to doKillTasks must be sent a KILL: %s", why)
		// failed KILL => back into the roster
		okBack := false
		var errv ssa.Value = kc
		for _, ap := range an.CallsNamed(fn, "(*core/task.roster).append") {
			ac, ok := ap.(*ssa.Call)
			if !ok {
				continue
			}
			if !an.SameVar(ac.Call.Args[1], kc.Call.Args[1]) && an.ExprKey(ac.Call.Args[1]) != an.ExprKey(kc.Call.Args[1]) {
				continue
			}
			// on the error != nil edge every path back to the header passes the append
			for _, b := range fn.Blocks {
				if x, nilIdx, ok := an.NilCondEdge(b); ok && body[b] && an.DerivesFrom(x, errv) {
					fail := b.Succs[1-nilIdx]
					if len(fail.Instrs) > 0 && an.CanReach(fail.Instrs[0], ac) && !an.CanReachAvoiding(fail.Instrs[0], h.Instrs[0], []ssa.Instruction{ac}) &&
						an.FirstExitAvoiding(fail.Instrs[0], []ssa.Instruction{ac}) == nil {
						okBack = true
					}
				}
			}
		}
		c.Ob(key+"|failed-kill-back-in-roster", kc.Pos(), okBack, "a task whose KILL could not be sent was already removed from the roster: it must be appended back on every path of the failure branch, otherwise it keeps running and nothing can find it")
	}
}

func isActiveConst(c *an.Ctx, cst *ssa.Const) bool {
	pk := c.TPkg("core/task")
	if pk == nil || pk.Types == nil {
		return false
	}
	k, ok := pk.Types.Scope().Lookup("ACTIVE").(*types.Const)
	return ok && cst.Value != nil && constant.Compare(k.Val(), token.EQL, cst.Value)
}

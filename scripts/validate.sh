#!/bin/sh
# validates MANIFEST.json and all evidence files against the schemas
cd "$(dirname "$0")/.." || exit 2
python3-vt - <<'PY'
import json,jsonschema,glob
jsonschema.validate(json.load(open('MANIFEST.json')), json.load(open('/root/.vp/MANIFEST.schema.json')))
s=json.load(open('/root/.vp/EVIDENCE.schema.json'))
n=0
for f in sorted(glob.glob('evidence/C*.json')):
    jsonschema.validate(json.load(open(f)), s); n+=1
print('manifest ok;', n, 'evidence files ok')
PY

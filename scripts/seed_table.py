#!/usr/bin/env python3
"""Regenerates the table of seeded changes in DESIGN.md section 7.7 from seeded/*/meta.json (run seed_refresh.py first)."""
import json,glob,os,re
rows=[]
for d in sorted(glob.glob('/verif/seeded/*/')):
    m=json.load(open(d+'meta.json')); sid=os.path.basename(d.rstrip('/'))
    ch=m.get('change','')
    if len(ch)>150: ch=ch[:147]+'...'
    db=m.get('detected_by',{})
    before='caught' if db.get('caught_before_strengthening') else 'missed'
    if 'own_property_fired_before_strengthening' in db and db.get('caught_before_strengthening') and not db['own_property_fired_before_strengthening']:
        before='caught (by '+', '.join(db.get('checks_that_fired_before_strengthening',[]))+' only)'
    fires=db.get('checks_that_fire',{})
    own=sorted(set(x.split(' ')[0] for x in fires.get(m['property'],[])))
    others=sorted(k for k in fires if k!=m['property'])
    now=', '.join(own) if own else '**not caught**'
    if others: now+=' (+'+', '.join(others)+')'
    rows.append('| %s | %s | %s | %s |'%(sid,ch.replace('|','/'),before,now))
p='/verif/DESIGN.md'; s=open(p).read()
hdr='| Seed | Change (one line) | Before | Caught now by |\n|---|---|---|---|\n'
i=s.index(hdr)+len(hdr); j=s.index('\n\n',i)
s=s[:i]+'\n'.join(rows)+s[j:]
open(p,'w').write(s)
print(len(rows),'rows')

#!/bin/sh
# Replays the mutation corpus (mutants/cNN_*.patch -> property CNN) and the seeded changes
# (seeded/<id>/patch.diff, property from meta.json) on scratch worktrees. NOT a registered check.
# usage: scripts/selftest.sh [pattern]   e.g. scripts/selftest.sh c06_
cd "$(dirname "$0")/.." || exit 2
pat="${1:-}"
ls mutants/*.patch mutants_refactored/*.patch | grep "$pat" | while read -r m; do
  p=$(basename "$m" | sed -E 's/^c([0-9]+)_.*/C\1/')
  echo "$m $p"
done > /tmp/selftest.$$.list
if [ -d seeded ]; then
  for d in seeded/*/; do
    [ -f "$d/patch.diff" ] || continue
    echo "$d" | grep -q "$pat" || continue
    p=$(jq -r .property "$d/meta.json")
    echo "${d}patch.diff $p" >> /tmp/selftest.$$.list
  done
fi
xargs -P "${JOBS:-6}" -L 1 sh -c 'scripts/mutant.sh "$0" "$1" 2>&1 | grep "^MUTANT-RESULT"' < /tmp/selftest.$$.list | sort | tee /tmp/selftest.$$.out
rm -f /tmp/selftest.$$.list
echo "caught: $(grep -c CAUGHT /tmp/selftest.$$.out)  missed: $(grep -c MISSED /tmp/selftest.$$.out)  other: $(grep -vc "CAUGHT\|MISSED" /tmp/selftest.$$.out)"
rm -f /tmp/selftest.$$.out

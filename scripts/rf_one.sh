#!/bin/bash
# usage: rf_one.sh Cxx N [prop]  : apply refactor N of Cxx in /tmp/rf/Cxx, run prop (default all) with expansion notes, leave applied
export GOFLAGS=-mod=mod GOPROXY=off GOSUMDB=off GOTOOLCHAIN=local; unset GOWORK
id=$1; n=$2; prop=${3:-all}; WT=${RFBASE:-/tmp/rf}/$id
git -C $WT checkout -q -- . ; git -C $WT clean -fdq
git -C $WT apply ${RFBASE:-/tmp/rf}/out/$id/refactor_$n.diff || exit 1
mkdir -p /tmp/expdbg; rm -f /tmp/expdbg/*
VERIF_EXPANSION_DEBUG=/tmp/expdbg /verif/bin/verifchk -repo $WT -prop $prop -evidence /tmp/ev_x -show-expansion 2>&1 | grep -v "^KNOWN\| 0 violations" | cut -c1-400

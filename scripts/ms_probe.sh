#!/bin/bash
# usage: ms_probe.sh Cxx : applies each ${MSBASE:-/tmp/ms}/out/Cxx/patch_N.diff to the clean worktree ${MSBASE:-/tmp/ms}/Cxx and runs all checks
export GOFLAGS=-mod=mod GOPROXY=off GOSUMDB=off GOTOOLCHAIN=local; unset GOWORK
id=$1; B=${MSBASE:-/tmp/ms}; WT=$B/$id
for n in 1 2 3 4 5; do
  d=$B/out/$id/patch_$n.diff
  [ -s "$d" ] || { echo "MS $id#$n MISSING"; continue; }
  git -C $WT checkout -q -- . ; git -C $WT clean -fdq
  if ! git -C $WT apply "$d" 2>/dev/null; then echo "MS $id#$n APPLY-FAILED"; continue; fi
  if ! (cd $WT && go build -trimpath ./... >/dev/null 2>&1); then echo "MS $id#$n BUILD-FAILED"; git -C $WT checkout -q -- .; continue; fi
  EV=$(mktemp -d /tmp/msev.XXXX)
  out=$(${VERIFCHK:-/verif/bin/verifchk} -repo $WT -prop all -tier quick -evidence $EV 2>&1 | grep -A2 '^VIOLATION' | grep -v '^--' | cut -c1-260)
  rm -rf $EV
  props=$(echo "$out" | grep '^VIOLATION' | grep -o 'property=C[0-9]*' | cut -d= -f2 | tr '\n' ' ')
  if [ -z "$out" ]; then echo "MS $id#$n MISSED ($(git -C $WT diff --stat | tail -1 | sed 's/^ *//'))"
  elif echo "$props" | grep -q "$id"; then echo "MS $id#$n CAUGHT-OWN [$props]"; echo "$out" | grep '^  R' | head -3
  else echo "MS $id#$n CAUGHT-OTHER [$props]"; echo "$out" | grep '^  R' | head -3; fi
  git -C $WT checkout -q -- . ; git -C $WT clean -fdq
done

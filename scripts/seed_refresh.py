#!/usr/bin/env python3
"""Recomputes detected_by.checks_that_fire in seeded/*/meta.json with the current checker (all 20 checks against
each seeded change applied to a scratch worktree of /repo HEAD). Not a registered check."""
import json,glob,os,re,subprocess,tempfile,shutil
env=dict(os.environ,GOFLAGS='-mod=mod',GOPROXY='off',GOSUMDB='off',GOTOOLCHAIN='local'); env.pop('GOWORK',None)
def run(*a,**k): return subprocess.run(a,capture_output=True,text=True,**k)
for d in sorted(glob.glob('/verif/seeded/*/')):
    wt=tempfile.mkdtemp(prefix='sr.',dir='/tmp'); os.rmdir(wt)
    run('git','-C','/repo','worktree','add','-q','--detach',wt,'HEAD')
    try:
        r=run('git','-C',wt,'apply',d+'patch.diff')
        if r.returncode: print(d,'APPLY-FAILED'); continue
        ev=tempfile.mkdtemp(prefix='srev.',dir='/tmp')
        out=run('/verif/bin/verifchk','-repo',wt,'-prop','all','-evidence',ev,env=env).stdout
        shutil.rmtree(ev,ignore_errors=True)
        fires={}; cur=None
        for line in out.splitlines():
            m=re.match(r'VIOLATION property=(C\d+)',line)
            if m: cur=m.group(1); fires[cur]=[]; continue
            if cur and line.startswith('  R'):
                parts=line.strip().split(' ')
                fires[cur].append(parts[0]+' '+parts[2].rstrip(':'))
            elif not line.startswith('  '): cur=None
        m=json.load(open(d+'meta.json'))
        m.setdefault('detected_by',{})
        m['detected_by']['checks_that_fire']=fires
        m['detected_by']['own_property_check_fires']= m['property'] in fires
        json.dump(m,open(d+'meta.json','w'),indent=1)
        print(os.path.basename(d.rstrip('/')), {k:sorted(set(x.split(' ')[0] for x in v)) for k,v in fires.items()})
    finally:
        run('git','-C','/repo','worktree','remove','--force',wt); shutil.rmtree(wt,ignore_errors=True)

#!/bin/bash
# usage: seed_verify.sh <id> <srcdir with patch.diff and demo/> <run-cmd> <demo-file:dest-dir> [...]
# Verifies a seeded change in a scratch worktree: demo passes on HEAD, patch builds, demo fails with patch,
# the existing suite shows only the baseline failures with the patch. Prints one SEED-RESULT line.
export GOFLAGS=-mod=mod GOPROXY=off GOSUMDB=off GOTOOLCHAIN=local; unset GOWORK
id="$1"; src="$2"; run="$3"; shift 3
WT="$(mktemp -d /tmp/sv.XXXXXX)"; LOG="/tmp/seedlog.$id.txt"; : > "$LOG"
trap 'git -C /repo worktree remove --force "$WT" >/dev/null 2>&1; rm -rf "$WT"' EXIT
git -C /repo worktree add -q --detach "$WT" HEAD || exit 2
place() { for m in "$@"; do f="${m%%:*}"; d="${m##*:}"; cp "$src/demo/$f" "$WT/$d/"; done; }
unplace() { for m in "$@"; do f="${m%%:*}"; d="${m##*:}"; rm -f "$WT/$d/$f"; done; }
place "$@"
( cd "$WT" && eval "$run" ) >>"$LOG" 2>&1; without=$?
git -C "$WT" apply "$src/patch.diff" >>"$LOG" 2>&1 || { echo "SEED-RESULT $id APPLY-FAILED"; exit 1; }
( cd "$WT" && go build -trimpath ./... ) >>"$LOG" 2>&1; build=$?
( cd "$WT" && eval "$run" ) >>"$LOG" 2>&1; with=$?
unplace "$@"
suite=$( cd "$WT" && go test -vet=off -count=1 -timeout 20m ./... 2>&1 | grep "^FAIL\s" | awk '{print $2}' | sed 's|github.com/AliceO2Group/Control/||' | sort | tr '\n' ' ')
rm -f "$WT/core/environment/runcounter.txt"
echo "SEED-RESULT $id demo-without-change=$([ $without = 0 ] && echo PASS || echo FAIL) build=$([ $build = 0 ] && echo OK || echo FAIL) demo-with-change=$([ $with = 0 ] && echo PASS || echo FAIL) suite-failures-with-change=[ $suite]"

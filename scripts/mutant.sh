#!/bin/sh
# usage: scripts/mutant.sh <patch.diff> <expected-prop> [other props that must stay silent...]
# Applies the patch to a scratch worktree of /repo HEAD (outside /repo and /verif), checks that it builds,
# runs the named checks against it, and removes the worktree. NOT a registered check.
set -u
cd "$(dirname "$0")/.." || exit 2
export GOFLAGS=-mod=mod GOPROXY=off GOSUMDB=off GOTOOLCHAIN=local
unset GOWORK
P="$(readlink -f "$1")"; shift
WT="$(mktemp -d /tmp/vmut.XXXXXX)"; EV="$(mktemp -d /tmp/vmutev.XXXXXX)"
trap 'git -C /repo worktree remove --force "$WT" >/dev/null 2>&1; rm -rf "$WT" "$EV"' EXIT
git -C /repo worktree add -q --detach "$WT" HEAD || exit 2
if ! git -C "$WT" apply "$P"; then echo "MUTANT-RESULT $(basename "$P") APPLY-FAILED"; exit 3; fi
if [ "${NOBUILD:-0}" != 1 ]; then
  if ! (cd "$WT" && go build -trimpath ./... 2>&1 | tail -5; cd "$WT" && go build -trimpath ./... >/dev/null 2>&1); then echo "MUTANT-RESULT $(basename "$P") BUILD-FAILED"; exit 3; fi
fi
first=1; rc=0
for prop in "$@"; do
  out="$(${VERIFCHK:-bin/verifchk} -repo "$WT" -prop "$prop" -tier "${TIER:-quick}" -evidence "$EV" -known /verif/KNOWN_FINDINGS.txt 2>&1)"; st=$?
  if [ $first = 1 ]; then
    if [ $st = 1 ]; then echo "MUTANT-RESULT $(basename "$P") $prop CAUGHT"; echo "$out" | grep -A3 '^VIOLATION' | sed 's/^/    /' | cut -c1-400; else echo "MUTANT-RESULT $(basename "$P") $prop MISSED (exit $st)"; rc=1; fi
    first=0
  else
    if [ $st = 0 ]; then echo "    $prop silent (ok)"; else echo "    $prop ALSO FIRES (exit $st)"; echo "$out" | grep -A2 '^VIOLATION' | sed 's/^/      /' | cut -c1-300; fi
  fi
done
exit $rc

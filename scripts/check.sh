#!/bin/sh
# usage: scripts/check.sh <property id> [quick|thorough]
# Static analysis of /repo's current working tree; nothing in /repo is executed.
cd "$(dirname "$0")/.." || exit 2
export GOFLAGS=-mod=mod GOPROXY=off GOSUMDB=off GOTOOLCHAIN=local
unset GOWORK
REPO="${VERIF_REPO:-/repo}"
if [ ! -x bin/verifchk ] || [ -n "$(find checker -name '*.go' -newer bin/verifchk 2>/dev/null | head -1)" ]; then
  (cd checker && go build -o ../bin/verifchk ./cmd/verifchk) || { echo "cannot build checker"; exit 2; }
fi
exec bin/verifchk -repo "$REPO" -prop "$1" -tier "${2:-${VERIF_TIER:-quick}}" -evidence "${VERIF_EVIDENCE:-/verif/evidence}" -known /verif/KNOWN_FINDINGS.txt

#!/bin/bash
# usage: seed2_probe.sh Cxx  -- runs all properties' rules against the sub-agent's worktree ${SEEDBASE:-/tmp/seed2}/Cxx
export GOFLAGS=-mod=mod GOPROXY=off GOSUMDB=off GOTOOLCHAIN=local; unset GOWORK
id=$1; EV=$(mktemp -d /tmp/s2ev.XXXX)
( cd ${SEEDBASE:-/tmp/seed2}/$id && git diff --stat | tail -1 )
/verif/bin/verifchk -repo ${SEEDBASE:-/tmp/seed2}/$id -prop all -tier ${TIER:-quick} -evidence $EV 2>&1 | grep -A4 "^VIOLATION" | cut -c1-330
rm -rf $EV
echo "PROBE-DONE $id"

#!/bin/bash
# For every mutant (and seeded change) run ALL property checks on the mutated scratch worktree and print which
# properties fire. The mutant's own property must fire; other properties firing are listed so that they can be
# judged (a change may legitimately break two properties). NOT a registered check.
cd "$(dirname "$0")/.." || exit 2
export GOFLAGS=-mod=mod GOPROXY=off GOSUMDB=off GOTOOLCHAIN=local
unset GOWORK
pat="${1:-}"
one() {
  P="$(readlink -f "$1")"; own="$2"
  WT="$(mktemp -d /tmp/vx.XXXXXX)"; EV="$(mktemp -d /tmp/vxev.XXXXXX)"
  git -C /repo worktree add -q --detach "$WT" HEAD 2>/dev/null
  if git -C "$WT" apply "$P" 2>/dev/null; then
    fired=$(bin/verifchk -repo "$WT" -prop all -evidence "$EV" 2>&1 | grep '^VIOLATION' | sed -E 's/.*property=(C[0-9]+).*/\1/' | tr '\n' ' ')
    case " $fired" in *" $own "*) st=OWN-FIRES;; *) st=OWN-SILENT;; esac
    echo "$(basename "$(dirname "$P")")/$(basename "$P") own=$own $st fired=[ $fired]"
  else
    echo "$(basename "$P") APPLY-FAILED"
  fi
  git -C /repo worktree remove --force "$WT" >/dev/null 2>&1; rm -rf "$WT" "$EV"
}
export -f one 2>/dev/null
{
ls mutants/*.patch | grep "$pat" | while read -r m; do echo "$m $(basename "$m" | sed -E 's/^c([0-9]+)_.*/C\1/')"; done
if [ -d seeded ]; then for d in seeded/*/; do [ -f "$d/patch.diff" ] && echo "$d" | grep -q "$pat" && echo "${d}patch.diff $(jq -r .property "$d/meta.json")"; done; fi
} > /tmp/xc.$$.list
# run with limited parallelism using background jobs
n=0
while read -r P own; do
  ( one "$P" "$own" ) &
  n=$((n+1))
  if [ $((n % ${JOBS:-6})) -eq 0 ]; then wait; fi
done < /tmp/xc.$$.list
wait
rm -f /tmp/xc.$$.list

#!/bin/bash
# usage: rf_probe.sh Cxx : applies each /tmp/rf/out/Cxx/refactor_N.diff to the clean worktree /tmp/rf/Cxx and runs all checks
export GOFLAGS=-mod=mod GOPROXY=off GOSUMDB=off GOTOOLCHAIN=local; unset GOWORK
id=$1; WT=${RFBASE:-/tmp/rf}/$id
for n in 1 2 3; do
  d=${RFBASE:-/tmp/rf}/out/$id/refactor_$n.diff
  [ -s "$d" ] || { echo "RF $id#$n MISSING"; continue; }
  git -C $WT checkout -q -- . ; git -C $WT clean -fdq
  if ! git -C $WT apply "$d" 2>/dev/null; then echo "RF $id#$n APPLY-FAILED"; continue; fi
  if ! (cd $WT && go build -trimpath ./... >/dev/null 2>&1); then echo "RF $id#$n BUILD-FAILED"; git -C $WT checkout -q -- .; continue; fi
  EV=$(mktemp -d /tmp/rfev.XXXX)
  out=$(${VERIFCHK:-/verif/bin/verifchk} -repo $WT -prop all -tier ${TIER:-quick} -evidence $EV 2>&1 | grep -A3 '^VIOLATION' | cut -c1-420)
  rm -rf $EV
  if [ -z "$out" ]; then echo "RF $id#$n SILENT ($(git -C $WT diff --stat | tail -1 | sed 's/^ *//'))"; else echo "RF $id#$n FIRED ($(git -C $WT diff --stat | tail -1 | sed 's/^ *//'))"; echo "$out"; fi
  git -C $WT checkout -q -- . ; git -C $WT clean -fdq
done

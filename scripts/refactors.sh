#!/bin/bash
# Behaviour-preserving refactors (refactors/*.patch): every check must stay silent on them. NOT a registered check.
cd "$(dirname "$0")/.." || exit 2
export GOFLAGS=-mod=mod GOPROXY=off GOSUMDB=off GOTOOLCHAIN=local; unset GOWORK
rc=0
for P in refactors/*.patch refactors/agents/*.patch refactors/agents2/*.patch; do
  [ -n "${1:-}" ] && ! echo "$P" | grep -q "$1" && continue
  WT="$(mktemp -d /tmp/vr.XXXXXX)"; EV="$(mktemp -d /tmp/vrev.XXXXXX)"
  git -C /repo worktree add -q --detach "$WT" HEAD
  if ! git -C "$WT" apply "$(readlink -f "$P")"; then echo "REFACTOR $(basename $P) APPLY-FAILED"; rc=1
  elif ! (cd "$WT" && go build -trimpath ./... >/dev/null 2>&1); then echo "REFACTOR $(basename $P) BUILD-FAILED"; (cd "$WT" && go build -trimpath ./... 2>&1 | head -5); rc=1
  else
    fired=$(bin/verifchk -repo "$WT" -prop all -evidence "$EV" 2>&1 | grep -A2 '^VIOLATION' | cut -c1-260)
    if [ -z "$fired" ]; then echo "REFACTOR $(basename $P) SILENT (ok)"; else echo "REFACTOR $(basename $P) FALSE-ALARM"; echo "$fired"; rc=1; fi
  fi
  git -C /repo worktree remove --force "$WT" >/dev/null 2>&1; rm -rf "$WT" "$EV"
done
exit $rc

#!/bin/bash
# Behaviour-preserving refactors (refactors/*.patch, agents/, agents2/, agents3/, agents4/, agents5/, agents6/, agents7/, agents8/): every check must stay silent on them.
# NOT a registered check. usage: scripts/refactors.sh [pattern]   (JOBS=n parallel worktrees, default 6)
cd "$(dirname "$0")/.." || exit 2
export GOFLAGS=-mod=mod GOPROXY=off GOSUMDB=off GOTOOLCHAIN=local; unset GOWORK
one() {
  P="$1"
  WT="$(mktemp -d /tmp/vr.XXXXXX)"; EV="$(mktemp -d /tmp/vrev.XXXXXX)"
  git -C /repo worktree add -q --detach "$WT" HEAD
  if ! git -C "$WT" apply "$(readlink -f "$P")"; then echo "REFACTOR $P APPLY-FAILED"
  elif ! (cd "$WT" && go build -trimpath ./... >/dev/null 2>&1); then echo "REFACTOR $P BUILD-FAILED"
  else
    fired=$(${VERIFCHK:-bin/verifchk} -repo "$WT" -prop all -evidence "$EV" 2>&1 | grep -A2 '^VIOLATION' | cut -c1-260 | tr '\n' ' ')
    if [ -z "$fired" ]; then echo "REFACTOR $P SILENT (ok)"; else echo "REFACTOR $P FALSE-ALARM $fired"; fi
  fi
  git -C /repo worktree remove --force "$WT" >/dev/null 2>&1; rm -rf "$WT" "$EV"
}
export -f one
ls refactors/*.patch refactors/agents/*.patch refactors/agents2/*.patch refactors/agents3/*.patch refactors/agents4/*.patch refactors/agents5/*.patch refactors/agents6/*.patch refactors/agents7/*.patch refactors/agents8/*.patch | grep "${1:-.}" \
  | xargs -P "${JOBS:-6}" -I{} bash -c 'one {}' | sort | tee /tmp/refactors.$$.out
echo "silent: $(grep -c 'SILENT' /tmp/refactors.$$.out)  not silent: $(grep -vc 'SILENT' /tmp/refactors.$$.out)"
rc=0; grep -vq 'SILENT' /tmp/refactors.$$.out && rc=1
rm -f /tmp/refactors.$$.out
exit $rc

#!/usr/bin/env python3
"""Regenerates DESIGN.md section 7.4 (rules as they run) from evidence/Cxx.json (run the quick checks first)."""
import json,glob,os,re
out=[]
for i in range(1,21):
    pid='C%02d'%i
    ev=json.load(open('/verif/evidence/%s.json'%pid)); cov=ev['coverage']
    nm=len(glob.glob('/verif/mutants*/c%02d_*.patch'%i))
    out.append('**%s** - %d obligations, %d known findings, %d hand mutants\n'%(pid,cov['obligations'],cov['known_findings'],nm))
    for r in cov['rules']:
        out.append('* %s (%d/%d) %s'%(r['id'],r['subjects'],r['min_instances'],r['doc']))
    out.append('')
p='/verif/DESIGN.md'; s=open(p).read()
a=s.index('**C01** - '); b=s.index('### 7.5 ')
s=s[:a]+'\n'.join(out)+'\n'+s[b:]
open(p,'w').write(s)
print('7.4 regenerated')

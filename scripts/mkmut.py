#!/usr/bin/env python3
"""usage: mkmut.py <name> <repo-relative file> <old> <new> [<file> <old> <new> ...]
Writes mutants/<name>.patch = unified diff replacing <old> (must occur exactly once) by <new> in the
file as it is at /repo HEAD working tree. /repo is not modified. Strings may use \\n and \\t escapes."""
import sys, difflib, os
name = sys.argv[1]
args = sys.argv[2:]
out = []
for i in range(0, len(args), 3):
    f, old, new = args[i], args[i+1], args[i+2]
    old = old.encode().decode('unicode_escape') if '\\n' in old or '\\t' in old else old
    new = new.encode().decode('unicode_escape') if '\\n' in new or '\\t' in new else new
    src = open(os.path.join('/repo', f)).read()
    n = src.count(old)
    if n != 1:
        sys.exit(f"{f}: old string occurs {n} times (need exactly 1)")
    dst = src.replace(old, new)
    out += list(difflib.unified_diff(src.splitlines(True), dst.splitlines(True), 'a/'+f, 'b/'+f))
root = os.path.dirname(os.path.dirname(os.path.abspath(__file__)))
dest = os.environ.get('MUTDIR', os.path.join(root, 'mutants'))
open(os.path.join(dest, name + '.patch'), 'w').write(''.join(out))
print("wrote", name)

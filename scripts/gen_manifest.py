#!/usr/bin/env python3
"""Regenerates /verif/MANIFEST.json from scripts/props_table.json (claimed properties) and
properties.jsonl (everything else goes to not_applicable with its reason)."""
import json, os
root = os.path.dirname(os.path.dirname(os.path.abspath(__file__)))
table = json.load(open(os.path.join(root, "scripts", "props_table.json")))
props = [json.loads(l) for l in open(os.path.join(root, "properties.jsonl")) if l.strip()]
checks, na = [], []
for p in props:
    pid = p["id"]
    t = table.get(pid)
    if t and t.get("claimed"):
        checks.append({
            "property_id": pid,
            "quick_cmd": f"scripts/check.sh {pid} quick",
            "thorough_cmd": f"scripts/check.sh {pid} thorough",
            "evidence_file": f"/verif/evidence/{pid}.json",
            "replay_cmd_template": "cat {path}",
            "engine": "verifchk",
            "level_claimed": {"category": "other", "text": t["text"], "design_ref": f"DESIGN.md section 4, {pid}"},
            "level_note": t["note"],
            "technique": t["technique"],
        })
    else:
        na.append({"property_id": pid, "reason": (t or {}).get("reason", "static rules for this property are not built yet; no claim is made")})
m = {
    "version": 1,
    "setup_cmd": "cd /verif/checker && GOFLAGS=-mod=mod GOPROXY=off GOSUMDB=off GOTOOLCHAIN=local go build -o ../bin/verifchk ./cmd/verifchk",
    "hooks": {
        "guard": "verif",
        "enable": "none needed: the checks read source only (go/packages + go/ssa); no hook commits exist in /repo",
        "baseline_off_cmd": "cd /repo && go test -vet=off -count=1 -timeout 25m ./...",
        "source_commits": [],
        "add_only": True,
    },
    "engines": [{
        "name": "verifchk", "path": "/verif/checker",
        "serves_properties": [c["property_id"] for c in checks],
        "kind_free_text": "repository-specific static analyser: go/packages type-checked program + go/ssa; path, dominance, guard, provenance, lock-set, who-may-call and constant-table rules with obligations keyed rule|construct",
    }],
    "checks": checks,
    "not_applicable": na,
    "notes": "Static analysis only. Every claim is level 'other': structural necessary conditions of the property decided on all paths / all call sites of the current source; behaviour over schedules, histories and runtime values is explicitly not decided (DESIGN.md sections 0, 4, 6). KNOWN_FINDINGS.txt lists genuine defects recorded rather than repaired, and the fix: commits made.",
}
json.dump(m, open(os.path.join(root, "MANIFEST.json"), "w"), indent=1)
print(f"{len(checks)} checks, {len(na)} not_applicable")
